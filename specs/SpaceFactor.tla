---------------------------- MODULE SpaceFactor ----------------------------
(***************************************************************************)
(* Inter-word glue and the space factor: tex.web 1034 (adjust_space_factor)*)
(* and 1041-1044 (app_space), with xn_over_d of 107, against               *)
(* boxworks_text::TextPreprocessorImpl::{add_word, add_space}.             *)
(*                                                                         *)
(* Three layers, checked against each other by TLC:                        *)
(*                                                                         *)
(*  reference layer  the property as stated, over the *history* of tokens: *)
(*                   the space factor is the code of the last character    *)
(*                   with a non-zero code, except that a code above 1000   *)
(*                   met while the factor is below 1000 gives 1000; spaces *)
(*                   and zero codes do not matter; the glue is \xspaceskip *)
(*                   when the factor is >= 2000 and it is non-zero, else   *)
(*                   \spaceskip or the font glue with width + extra space  *)
(*                   (>= 2000), stretch * f/1000, shrink * 1000/f.         *)
(*  TeX layer        the state machine: sf, one action per token.          *)
(*                   Deviations of the findings protocol are switches.     *)
(*  code layer       boxworks-text's `SpaceFactor::adjust` and `add_space` *)
(*                   transcribed as written today.                         *)
(*                                                                         *)
(* A glue specification is [w, st, sto, sh, sho]; a font is                *)
(* [space, stretch, shrink, extra] (TFM parameters 2, 3, 4, 7); a setting  *)
(* is [font, ss (\spaceskip), xs (\xspaceskip)].                           *)
(***************************************************************************)
EXTENDS Integers, Sequences, FiniteSets

CONSTANTS Codes,      \* model: space-factor codes the characters may have
          MaxLen,     \* model: longest token sequence
          Settings,   \* model: parameter settings
          TexDevs,    \* deviations switched on in the TeX layer of the model ({} = TeX)
          Bug         \* "" or the name of a seeded design mutant (negative controls)

DevSpaceSkip == "spaceskip_not_scaled_by_space_factor"
AllDevs == {DevSpaceSkip}

SpaceTok == -1        \* the token "inter-word space"; characters are their sf code (>= 0)

---------------------------------------------------------------------------
(* 107: xn_over_d, literally.  @'100000 = 32768.                           *)
XnOverD(x, n, d) ==
  LET positive == x >= 0
      ax == IF positive THEN x ELSE 0 - x
      t  == (ax % 32768) * n
      u  == (ax \div 32768) * n + (t \div 32768)
      v  == (u % d) * 32768 + (t % 32768)
      err == (u \div d) >= 32768                       \* arith_error := true
      u2 == IF err THEN u ELSE 32768 * (u \div d) + (v \div d)
  IN [val |-> IF positive THEN u2 ELSE 0 - u2, err |-> err]

Abs(a) == IF a < 0 THEN 0 - a ELSE a

---------------------------------------------------------------------------
(* TeX layer.                                                              *)

\* 1229 (trap_zero_glue): a glue parameter is zero_glue iff its three dimensions are zero
IsZeroGlue(g) == g.w = 0 /\ g.st = 0 /\ g.sh = 0

\* 1034: adjust_space_factor, main_s = sf_code(cur_chr)
AdjustSF(sf, s) ==
  IF s = 1000 THEN 1000
  ELSE IF s < 1000 THEN (IF s > 0 THEN s ELSE sf)
  ELSE IF sf < 1000 /\ Bug # "NoCapitalRule" THEN 1000
  ELSE s

\* 1042: the glue specification for text spaces in the current font
FontGlue(f) == [w |-> f.space, st |-> f.stretch, sto |-> 0, sh |-> f.shrink, sho |-> 0]

\* 1044: modify the glue specification in main_p according to the space factor
Modify(g, sf, f) ==
  [g EXCEPT !.w  = IF sf >= (IF Bug = "ExtraAbove2000" THEN 2001 ELSE 2000) THEN @ + f.extra ELSE @,
            !.st = XnOverD(@, sf, 1000).val,
            !.sh = IF Bug = "ShrinkLikeStretch" THEN XnOverD(@, sf, 1000).val ELSE XnOverD(@, 1000, sf).val]

\* 1041 (space_factor = 1000) and 1043 (app_space) with the deviations D
SpaceGlue(sf, S, D) ==
  IF sf = 1000
  THEN (IF IsZeroGlue(S.ss) THEN FontGlue(S.font) ELSE S.ss)
  ELSE IF sf >= 2000 /\ ~IsZeroGlue(S.xs) THEN S.xs
  ELSE IF ~IsZeroGlue(S.ss)
       THEN (IF DevSpaceSkip \in D THEN S.ss       \* deviation: \spaceskip used as it is
             ELSE Modify(S.ss, sf, S.font))
  ELSE Modify(FontGlue(S.font), sf, S.font)

\* the machine run as a function: the glue of every space of a token sequence
RECURSIVE GluesFrom(_, _, _, _, _)
GluesFrom(toks, i, sf, S, D) ==
  IF i > Len(toks) THEN <<>>
  ELSE IF toks[i] = SpaceTok THEN <<SpaceGlue(sf, S, D)>> \o GluesFrom(toks, i + 1, sf, S, D)
  ELSE GluesFrom(toks, i + 1, AdjustSF(sf, toks[i]), S, D)
Glues(toks, S, D) == GluesFrom(toks, 1, 1000, S, D)

---------------------------------------------------------------------------
(* Code layer: crates/boxworks-text/src/lib.rs as written.                 *)

\* SpaceFactor::adjust
CodeAdjust(sf, new) ==
  IF new > 0 /\ new <= 1000 THEN new
  ELSE IF new > 1000 THEN (IF sf < 1000 THEN 1000 ELSE new)
  ELSE sf

\* TextPreprocessorImpl::add_space
CodeSpace(sf, S) ==
  IF sf = 1000
  THEN (IF ~IsZeroGlue(S.ss) THEN S.ss ELSE FontGlue(S.font))
  ELSE IF sf >= 2000 /\ ~IsZeroGlue(S.xs) THEN S.xs
  ELSE IF ~IsZeroGlue(S.ss) THEN S.ss
  ELSE LET g == FontGlue(S.font) IN
       [g EXCEPT !.w  = IF sf >= 2000 THEN @ + S.font.extra ELSE @,
                 !.st = XnOverD(@, sf, 1000).val,
                 !.sh = XnOverD(@, 1000, sf).val]

---------------------------------------------------------------------------
(* The machine.                                                            *)

VARIABLES S,       \* the setting (chosen initially)
          toks,    \* history: the tokens so far
          sf,      \* TeX layer: space_factor
          glues,   \* TeX layer: history of [sf, g] for every space appended
          csf,     \* code layer: self.space_factor
          cglues   \* code layer: the glue nodes pushed

vars == <<S, toks, sf, glues, csf, cglues>>

Init == /\ S \in Settings /\ toks = <<>>
        /\ sf = 1000 /\ glues = <<>>             \* 1091: space_factor := 1000 in a new paragraph
        /\ csf = 1000 /\ cglues = <<>>

\* a character with space-factor code s is appended (1034, 1038)
Char(s) == /\ Len(toks) < MaxLen
           /\ toks' = Append(toks, s)
           /\ sf' = AdjustSF(sf, s) /\ csf' = CodeAdjust(csf, s)
           /\ UNCHANGED <<S, glues, cglues>>

CharNormal == Char(1000) /\ 1000 \in Codes
CharLow    == \E s \in Codes : s > 0 /\ s < 1000 /\ Char(s)
CharHigh   == \E s \in Codes : s > 1000 /\ Char(s)
CharZero   == Char(0) /\ 0 \in Codes

\* an inter-word space (1041, 1043); the space factor is unchanged
Space == /\ Len(toks) < MaxLen
         /\ toks' = Append(toks, SpaceTok)
         /\ glues' = Append(glues, [sf |-> sf, g |-> SpaceGlue(sf, S, TexDevs)])
         /\ cglues' = Append(cglues, CodeSpace(csf, S))
         /\ UNCHANGED <<S, sf, csf>>

Next == CharNormal \/ CharLow \/ CharHigh \/ CharZero \/ Space
Spec == Init /\ [][Next]_vars

---------------------------------------------------------------------------
(* Reference layer: the property over the history.                         *)

\* the codes that matter: characters with a non-zero code
NonZero(t) == SelectSeq(t, LAMBDA s : s > 0)

\* the space factor after the non-zero codes nz
RECURSIVE RefSF(_)
RefSF(nz) ==
  IF nz = <<>> THEN 1000
  ELSE LET c == nz[Len(nz)] IN
       IF c <= 1000 THEN c
       ELSE IF RefSF(SubSeq(nz, 1, Len(nz) - 1)) < 1000 THEN 1000 ELSE c

SfLaw == sf = RefSF(NonZero(toks))

\* "A. b": a code above 1000 right after a code below 1000 gives a normal space
CapitalRule ==
  LET nz == NonZero(toks) n == Len(nz) IN
  (n >= 2 /\ nz[n - 1] < 1000 /\ nz[n] > 1000) => sf = 1000

SfBounds == /\ sf > 0
            /\ sf # 1000 => sf \in Codes
            /\ sf > 1000 => (NonZero(toks) # <<>> /\ NonZero(toks)[Len(NonZero(toks))] = sf)

\* truncation toward zero of x * n / d
IsScaled(y, x, n, d) == /\ Abs(y) * d <= Abs(x) * n /\ Abs(x) * n < (Abs(y) + 1) * d
                        /\ (y # 0 => (y > 0) = (x > 0))

\* the glue of one space
GlueLaw(e) ==
  LET f == e.sf g == e.g IN
  IF f >= 2000 /\ ~IsZeroGlue(S.xs) THEN g = S.xs
  ELSE LET base == IF IsZeroGlue(S.ss) THEN FontGlue(S.font) ELSE S.ss IN
       /\ g.w = base.w + (IF f >= 2000 THEN S.font.extra ELSE 0)
       /\ g.sto = base.sto /\ g.sho = base.sho
       /\ IsScaled(g.st, base.st, f, 1000)
       /\ IsScaled(g.sh, base.sh, 1000, f)
       /\ f = 1000 => g = base        \* 1041 (the fast path) agrees with 1043-1044

GlueLaws == \A j \in 1..Len(glues) : GlueLaw(glues[j])

\* one glue per space, and the machine is the function the trace specification uses
MachineIsFunction == /\ [j \in 1..Len(glues) |-> glues[j].g] = Glues(toks, S, TexDevs)
                     /\ Len(glues) = Cardinality({j \in 1..Len(toks) : toks[j] = SpaceTok})

\* the code layer is TeX plus exactly the recorded deviation ...
CodeIsTexPlusDeviations == /\ csf = sf
                           /\ cglues = Glues(toks, S, AllDevs)
\* ... (negative control) and not TeX
CodeIsTex == cglues = Glues(toks, S, {})

\* the deviation changes a glue only under its stated precondition
DeviationIsLocal ==
  \A j \in 1..Len(glues) :
     LET f == glues[j].sf IN
     SpaceGlue(f, S, {DevSpaceSkip}) # SpaceGlue(f, S, {}) =>
        /\ f # 1000 /\ ~IsZeroGlue(S.ss) /\ ~(f >= 2000 /\ ~IsZeroGlue(S.xs))
        /\ (S.ss.st # 0 \/ S.ss.sh # 0 \/ (f >= 2000 /\ S.font.extra # 0))
=============================================================================
