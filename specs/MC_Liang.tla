------------------------------ MODULE MC_Liang ------------------------------
(* Finite instances of Liang.tla for TLC.                                    *)
EXTENDS Liang, TLC

CONSTANTS Sigma,        \* pattern / exception letters (lower-case code points)
          MaxPatLen,    \* letters per pattern
          Dg,           \* digits that may be written in a gap
          MaxDigits,    \* at most this many gaps of one pattern carry a digit
          WordAlphabet, \* code points words are made of (some upper case)
          MaxWordLen, MaxMixedLen,
          MaxExcLen

\* text of a pattern from its letters, its digits (-1: nothing written) and its anchors
RECURSIVE MkBody(_, _, _)
MkBody(ls, dig, g) ==
  (IF dig[g] >= 0 THEN <<48 + dig[g]>> ELSE <<>>)
  \o (IF g < Len(ls) THEN <<ls[g + 1]>> \o MkBody(ls, dig, g + 1) ELSE <<>>)
MkPat(ls, dig, s, e) == (IF s THEN <<Dot>> ELSE <<>>) \o MkBody(ls, dig, 0) \o (IF e THEN <<Dot>> ELSE <<>>)

LetterSeqs(S, n) == UNION {[1..k -> S] : k \in 1..n}
\* sets of at most MaxDigits (<= 3) gaps, built constructively so that long patterns stay enumerable
GapSets(n) == {{}} \cup (IF MaxDigits >= 1 THEN {{a} : a \in 0..n} ELSE {})
                   \cup (IF MaxDigits >= 2 THEN {{a, b} : a, b \in 0..n} ELSE {})
                   \cup (IF MaxDigits >= 3 THEN {{a, b, c} : a, b, c \in 0..n} ELSE {})
DigFuns(n) == UNION {{[g \in 0..n |-> IF g \in G THEN f[g] ELSE -1] : f \in [G -> Dg]} : G \in GapSets(n)}

MCPatTexts == UNION {{MkPat(ls, d, s, e) : d \in DigFuns(Len(ls)), s \in BOOLEAN, e \in BOOLEAN}
                     : ls \in LetterSeqs(Sigma, MaxPatLen)}

\* exception entries: a word with '-' in any subset of the gaps 0..n (a leading / trailing '-' is legal)
RECURSIVE MkExc(_, _, _)
MkExc(ls, B, g) ==
  (IF g \in B THEN <<Hyphen>> ELSE <<>>)
  \o (IF g < Len(ls) THEN <<ls[g + 1]>> \o MkExc(ls, B, g + 1) ELSE <<>>)
MCExcTexts == UNION {{MkExc(ls, B, 0) : B \in SUBSET (0..Len(ls))} : ls \in LetterSeqs(Sigma, MaxExcLen)}
\* lists of two entries, separated by a space or by a newline
MCExcPairs == {e \in MCExcTexts : Len(ExcLetters(e)) = 2 /\ ExcBreaks(e) \subseteq {1}}
MCExcListTexts == {e1 \o <<sep>> \o e2 : e1 \in MCExcPairs, e2 \in MCExcPairs, sep \in {32, 10}}

\* load patterns in ascending text order (the order of two patterns with different keys is
\* immaterial to the definition; used as a CONSTRAINT to halve the quick model)
RECURSIVE SeqLess(_, _)
SeqLess(u, t) == IF u = <<>> THEN t # <<>> ELSE IF t = <<>> THEN FALSE
                 ELSE IF Head(u) # Head(t) THEN Head(u) < Head(t) ELSE SeqLess(Tail(u), Tail(t))
AscendingPatterns == \A i, j \in 1..Len(calls) :
    (i < j /\ calls[i].k = "p" /\ calls[j].k = "p") => SeqLess(calls[i].t, calls[j].t)

\* lower-case words up to MaxWordLen plus mixed-case words up to MaxMixedLen
MCWordsMixed == UNION {[1..k -> Sigma] : k \in 1..MaxWordLen} \cup UNION {[1..k -> WordAlphabet] : k \in 1..MaxMixedLen}
MCWords == UNION {[1..k -> WordAlphabet] : k \in 1..MaxWordLen}
MCLc == [c \in 0..127 |-> IF c \in 97..122 THEN c ELSE IF c \in 65..90 THEN c + 32 ELSE 0]
=============================================================================
