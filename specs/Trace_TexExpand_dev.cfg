SPECIFICATION TSpec
CONSTANTS
  Bug = ""
  Deviations = {"NoexpandLostUnderExpandOnce"}
POSTCONDITION TraceAccepted
CHECK_DEADLOCK FALSE
