----------------------------- MODULE MC_TexCond -----------------------------
(* Exhaustive check that conditional.rs's skipping machine delivers exactly    *)
(* the selected branches: every token list up to length N over Alphabet is an  *)
(* initial state; Agree is the invariant (vacuous for ill-formed lists, which  *)
(* the property does not quantify over; WellFormedCount guards vacuity).       *)
EXTENDS TexCond, TLC, Json

CONSTANT N

T(t, kind, a) == [t |-> t, kind |-> kind, a |-> a, rel |-> "", b |-> 0, c |-> 0]
Alphabet == { [t |-> "x", kind |-> "", a |-> 0, rel |-> "", b |-> 0, c |-> 1], T("lb", "", 0), T("rb", "", 0),
              T("if", "iftrue", 0), T("if", "iffalse", 0),
              T("case", "", -1), T("case", "", 0), T("case", "", 1), T("case", "", 2),
              T("or", "", 0), T("else", "", 0), T("fi", "", 0) }

VARIABLE toks
\* every list over Alphabet of length <= N is one state: the state graph is the tree of lists
\* (the set of all lists at once exceeds TLC's set-size limit from N = 6 on)
Init == toks = <<>>
Next == Len(toks) < N /\ \E a \in Alphabet : toks' = Append(toks, a)
Spec == Init /\ [][Next]_toks

AgreeInv == Agree(toks)

\* Spec -> impl (binding R): print every well-formed list that contains a conditional and whose
\* delivered text is brace-balanced, with the expected delivery; the harness replays them on the VM.
HasCond(s) == \E i \in 1..Len(s) : IsIf(s[i])
EmitInv == (WellFormed(toks) /\ HasCond(toks) /\ BraceDepthOK(Deliver(toks), 0)) =>
             PrintT(<<"REPLAY", ToJson([toks |-> toks, want |-> [i \in 1..Len(Plain(Deliver(toks))) |-> Plain(Deliver(toks))[i].c]])>>)
\* the implementation layer never reports success with the wrong tokens on *any* input that it
\* accepts and the reference layer considers well-formed; and ill-formed input never "agrees by luck"
\* in the other direction is not demanded.
==============================================================================
