SPECIFICATION Spec
CONSTANTS
  N = 5
  KmpBug = ""
  Deviations = {}
INVARIANT EmitInv
CHECK_DEADLOCK FALSE
