SPECIFICATION Spec
CONSTANTS
  N = 4
  KmpBug = ""
  Deviations = {}
INVARIANT EmitInv
CHECK_DEADLOCK FALSE
