SPECIFICATION Spec
CONSTANTS
  N = 6
  Bug = ""
  Deviations = {"NoexpandLostUnderExpandOnce"}
INVARIANT SimpleEqOptimized
INVARIANT ImplEqRef
CHECK_DEADLOCK FALSE
