------------------------- MODULE MC_TfmArith_Compress -------------------------
(* Lossy compression of a sorted table (PLtoTF 75-78, tfm::compress).         *)
(* Reference layer: MinClasses (brute force over all partitions into runs),   *)
(* LeastD, Contract.  Implementation layers: Knuth's min_cover / shorten /    *)
(* set_indices, and the binary search + full greedy classing of tfm::compress.*)
(* TLC checks, for every set of at most MaxN values in Lo..Hi and every       *)
(* class limit m in 1..MaxN, that both implementation layers meet the         *)
(* reference layer, and the lemmas on which the trace specification relies.   *)
EXTENDS TfmArith, TLC, SequencesExt
CONSTANTS Lo, Hi, MaxN
VARIABLES vals, m
vars == <<vals, m>>

LoQuick == -3
LoThorough == -4

SetMax(V) == CHOOSE x \in V : \A y \in V : y <= x
Init == vals = {} /\ m \in 1 .. MaxN
Grow == /\ Cardinality(vals) < MaxN             \* every subset is reached once, smallest element first
        /\ \E x \in Lo .. Hi : (IF vals = {} THEN TRUE ELSE x > SetMax(vals)) /\ vals' = vals \cup {x}
        /\ UNCHANGED m
Spec == Init /\ [][Grow]_vars

S == SetToSortSeq(vals, <)
D == 0 .. (Hi - Lo)
NE == vals # {}

GreedyIsOptimal == NE => \A d \in D : Cover(S, d) = MinClasses(S, d)
Monotone == NE => \A d \in D : Cover(S, d + 1) <= Cover(S, d)
(* next_d: the cover does not change below it, and it is a real tolerance     *)
NextD == NE => \A d \in D : LET r == MinCover(S, d)
                            IN r.k > 1 => /\ r.nd > d
                                          /\ \A e \in d .. (r.nd - 1) : Cover(S, e) = r.k
(* both implementation layers find the least tolerance; so does the cheap     *)
(* characterisation the trace specification uses                              *)
Least == NE => LET ld == LeastD(S, m)
               IN /\ Shorten(S, m) = ld
                  /\ BinShorten(S, m) = ld
                  /\ \A d \in D : IsLeast(S, m, d) <=> (d = ld)
(* ... and both classings meet the contract                                   *)
MeetContract == NE => LET ld == LeastD(S, m)
                          k == SetIndices(S, m)
                          g == Greedy(S, ld)
                      IN /\ Contract(S, m, ld, k.cls, k.rep)
                         /\ Contract(S, m, ld, g.cls, g.rep)
(* The tolerance is tight: two of the values are exactly LeastD apart (they   *)
(* share a class of the greedy classing), so with an odd LeastD no integer    *)
(* representative is within LeastD/2 of both -- why Contract says ceil(d/2).  *)
Tight == (NE /\ Len(S) > m) =>
           LET ld == LeastD(S, m)
               g == Greedy(S, ld)
           IN \E i, j \in 1 .. Len(S) : g.cls[i] = g.cls[j] /\ S[j] - S[i] = ld
=============================================================================
