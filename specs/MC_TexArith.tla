---------------------------- MODULE MC_TexArith ----------------------------
(* Model step for C06: laws that TLC decides by itself, exhaustively over the *)
(* stated domains, about the operators of TexArith.  Every initial state is   *)
(* one instance of one law; the only action is a stuttering `Check', so the   *)
(* number of distinct states is the number of instances decided.              *)
(*                                                                            *)
(*   frac  Knuth's guarantee (102/103): for ALL 2^16 fractions f,             *)
(*         RoundDecimals(FracDigits(f)) = f, 1..5 digits, and no shorter      *)
(*         digit string rounds to f; a fifth digit is correctly rounded       *)
(*   trip  the character-level scanner reads back what the printer printed:   *)
(*         ScanDimen(PrintScaled(s) "pt") = s, no error, whole text consumed, *)
(*         integer parts IntParts x fractions 0, FracStep, 2 FracStep ... x   *)
(*         sign                                                               *)
(*   mul   MultAndAdd (105) reports overflow iff |n x + y| > max, else n x + y*)
(*   div   XOverN (106) truncates toward zero, remainder has the sign of x    *)
(*   xnd   XnOverD (107) = trunc(x n / d) with exact remainder, error iff the *)
(*         quotient is >= 2^30                                                *)
(*   unit  den units = num pt (458) and the published sp values of each unit  *)
(*   int   ScanInt reads back PrintInt and the octal / hex renderings; the    *)
(*         clamp at 2^31 (445)                                                *)
(*   glue  ScanGlue(PrintGlue(g)) = g                                         *)
(*   wrap  WrapAdd is addition modulo 2^32                                    *)
EXTENDS TexArith, TLC

CONSTANTS FracStep, IntParts,
          Phases      \* which laws are instantiated (negative controls pick one)

VARIABLE st
vars == <<st>>

I(ph, a, b, c, d) == [ph |-> ph, a |-> a, b |-> b, c |-> c, d |-> d]

Big == {0, 1, -1, 2, -2, 7, -7, 32768, -32768, 65536, -65536, 1073741823, -1073741823,
        1073741824, -1073741824, 2147483647, -2147483647, MinInt, 214748364, 214748365,
        268435455, 268435456, 134217727, 134217728, 16383, 16384}
XndX == {0, 1, -1, 5, -5, 254, 7200, 32767, 32768, -32768, 65535, 65536, 100000, -100000,
         16383, 1157, 1073741823, -1073741823, 297593, 2147483647}
XndN == {0, 1, 2, 3, 12, 100, 1238, 7227, 14856, 32768, 65535, 65536}
XndD == {1, 2, 3, 100, 254, 1157, 2540, 7200, 65535, 65536}
GAmt == {0, 1, -1, 65536, -98304, 1073741823}

F0 == [em |-> 0, ex |-> 0]

Init ==
  \/ "frac" \in Phases /\ \E f \in 0..65535 : st = I("frac", f, 0, 0, 0)
  \/ "trip" \in Phases /\ \E ip \in IntParts, k \in 0..(65535 \div FracStep), sg \in {0, 1} :
        st = I("trip", ip, k * FracStep, sg, 0)
  \/ "mul" \in Phases /\ \E n \in -7..7, x \in -7..7, y \in -7..7, max \in {7, 20} :
        st = I("mul", n, x, y, max)
  \/ "div" \in Phases /\ \E x \in -12..12, n \in -12..12 : st = I("div", x, n, 0, 0)
  \/ "xnd" \in Phases /\ \E x \in XndX, n \in XndN, d \in XndD : st = I("xnd", x, n, d, 0)
  \/ "unit" \in Phases /\ \E i \in 1..Len(Units) : st = I("unit", i, 0, 0, 0)
  \/ "int" \in Phases /\ \E n \in Big : st = I("int", n, 0, 0, 0)
  \/ "glue" \in Phases /\ \E w \in GAmt, s \in GAmt, so \in 0..3, h \in {0, 1, -65536}, ho \in 0..3 :
        st = I("glue", w, s, so, h * 4 + ho)
  \/ "wrap" \in Phases /\ \E a \in Big, b \in Big : st = I("wrap", a, b, 0, 0)

Check == st' = st
Next == Check
Spec == Init /\ [][Next]_vars

-----------------------------------------------------------------------------
RECURSIVE Pow10(_)
Pow10(k) == IF k = 0 THEN 1 ELSE 10 * Pow10(k - 1)
\* the k decimal digits of n < 10^k, leading zeros included
DigitsK(n, k) == [i \in 1..k |-> (n \div Pow10(k - i)) % 10]

Shortest(f, d) ==
  \A k \in 1..(Len(d) - 1) :
     LET lo == (f * Pow10(k)) \div Unity
     IN /\ RoundDecimals(DigitsK(lo, k)) # f
        /\ (lo + 1 < Pow10(k) => RoundDecimals(DigitsK(lo + 1, k)) # f)

\* when five digits are needed the fifth is rounded: the printed decimal N/10^5 is a nearest one,
\* |N/10^5 - f/2^16| <= 1/(2 10^5), i.e. |2048 N - 3125 f| <= 1024
RECURSIVE DigitsValue(_, _)
DigitsValue(d, k) == IF k = 0 THEN 0 ELSE 10 * DigitsValue(d, k - 1) + d[k]
Nearest(f, d) == Len(d) = 5 => Abs(2048 * DigitsValue(d, 5) - 3125 * f) <= 1024

FracLaw ==
  st.ph = "frac" =>
    LET d == FracDigits(st.a)
    IN /\ Len(d) >= 1 /\ Len(d) <= 5
       /\ \A i \in 1..Len(d) : d[i] \in 0..9
       /\ RoundDecimals(d) = st.a
       /\ Shortest(st.a, d)
       /\ Nearest(st.a, d)

TripLaw ==
  st.ph = "trip" =>
    LET s   == st.a * Unity + st.b
        sv  == IF st.c = 1 THEN -s ELSE s
        txt == PrintScaled(sv) \o TxtPt
        r   == ScanDimen(txt, 1, Regs0, F0, FALSE, {})
    IN ~r.u /\ r.v = sv /\ r.e = 0 /\ r.p = Len(txt) + 1

MulLaw ==
  st.ph = "mul" =>
    LET m == MultAndAdd(st.a, st.b, st.c, st.d)
        z == st.a * st.b + st.c
    IN Abs(st.c) <= st.d => /\ ~m.u
                            /\ m.err = (Abs(z) > st.d)
                            /\ (~m.err => m.v = z)

DivLaw ==
  st.ph = "div" =>
    LET r == XOverN(st.a, st.b)
    IN IF st.b = 0 THEN r.err /\ ~r.u
       ELSE /\ ~r.err /\ ~r.u
            /\ st.a = r.v * st.b + r.rem
            /\ Abs(r.rem) < Abs(st.b)
            /\ (r.rem = 0 \/ (r.rem < 0) = (st.a < 0))
            /\ (r.v = 0 \/ (r.v < 0) = ((st.a < 0) # (st.b < 0)))

XndLaw ==
  st.ph = "xnd" =>
    LET x == st.a  n == st.b  d == st.c
        r == XnOverD(x, n, d)
    IN (n = 0 \/ Abs(x) <= Infinity \div n) =>
         /\ ~r.u
         /\ r.err = ((Abs(x) * n) \div d >= 1073741824)
         /\ (~r.err => /\ r.v * d + r.rem = x * n
                       /\ Abs(r.rem) < d
                       /\ (r.rem = 0 \/ (r.rem < 0) = (x < 0)))

\* sp values of one unit as published (The TeXbook ch. 10; TeX by Topic table 8.1)
UnitSp == <<4736286, 786432, 1864679, 186467, 65781, 70124, 841489>>
UnitLaw ==
  st.ph = "unit" =>
    LET un == Units[st.a]
        a  == ScanDimen(NatText(un.den) \o un.kw, 1, Regs0, F0, FALSE, {})
        b  == ScanDimen(NatText(un.num) \o KwPt, 1, Regs0, F0, FALSE, {})
        c  == ScanDimen(<<49>> \o un.kw, 1, Regs0, F0, FALSE, {})
    IN /\ ~a.u /\ ~b.u /\ a.e = 0 /\ b.e = 0 /\ a.v = b.v /\ a.v = un.num * Unity
       /\ c.v = UnitSp[st.a] /\ c.e = 0

RECURSIVE RadixText(_, _)
RadixText(n, radix) ==
  LET dg == n % radix
      ch == IF dg < 10 THEN 48 + dg ELSE 55 + dg
  IN IF n < radix THEN <<ch>> ELSE RadixText(n \div radix, radix) \o <<ch>>

IntLaw ==
  st.ph = "int" =>
    LET n == st.a
        r == ScanInt(PrintInt(n), 1, Regs0)
    IN IF n = MinInt
       THEN ~r.u /\ r.v = -Infinity /\ r.e = 1                  \* "Number too big", clamped
       ELSE /\ ~r.u /\ r.v = n /\ r.e = 0 /\ r.p = Len(PrintInt(n)) + 1
            /\ n >= 0 =>
                 /\ ScanInt(<<39>> \o RadixText(n, 8), 1, Regs0).v = n
                 /\ ScanInt(<<34>> \o RadixText(n, 16), 1, Regs0).v = n
                 /\ ScanInt(<<39>> \o RadixText(n, 8), 1, Regs0).e = 0
                 /\ ScanInt(<<34>> \o RadixText(n, 16), 1, Regs0).e = 0
                 \* one more digit overflows exactly when the value would reach 2^31
                 /\ ScanInt(PrintInt(n) \o <<56>>, 1, Regs0).e
                      = (IF n > 214748364 \/ n = 214748364 THEN 1 ELSE 0)
                 /\ ScanInt(PrintInt(n) \o <<55>>, 1, Regs0).e = (IF n > 214748364 THEN 1 ELSE 0)
                 /\ ScanInt(<<39>> \o RadixText(n, 8) \o <<48>>, 1, Regs0).e
                      = (IF n >= 268435456 THEN 1 ELSE 0)
                 /\ ScanInt(<<34>> \o RadixText(n, 16) \o <<48>>, 1, Regs0).e
                      = (IF n >= 134217728 THEN 1 ELSE 0)

GlueLaw ==
  st.ph = "glue" =>
    LET g == [w |-> st.a, st |-> st.b, sto |-> st.c, sh |-> st.d \div 4, sho |-> st.d % 4]
        n == [g EXCEPT !.sto = IF g.st = 0 THEN 0 ELSE @, !.sho = IF g.sh = 0 THEN 0 ELSE @]
        txt == PrintGlue(g)
        r == ScanGlue(txt, 1, Regs0, F0, {})
    IN ~r.u /\ r.g = n /\ r.e = 0 /\ r.p = Len(txt) + 1

Lo(x) == x % 65536
Hi(x) == x \div 65536
WrapLaw ==
  st.ph = "wrap" =>
    LET w == WrapAdd(st.a, st.b)
        cy == (Lo(st.a) + Lo(st.b)) \div 65536
    IN /\ Lo(w) = (Lo(st.a) + Lo(st.b)) % 65536
       /\ (Hi(w) - Hi(st.a) - Hi(st.b) - cy) % 65536 = 0
=============================================================================
