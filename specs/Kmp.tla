-------------------------------- MODULE Kmp --------------------------------
(* The streaming matcher as a state machine fed one character at a time;     *)
(* operators (reference MatchEnds, prefix function, Search::next) are in     *)
(* KmpOps so that TexMacro can reuse them.                                   *)
EXTENDS KmpOps

CONSTANTS Sigma, MaxP, MaxT

VARIABLES p, txt, q, hit
vars == <<p, txt, q, hit>>

Patterns == UNION { [1..n -> Sigma] : n \in 1..MaxP }

Init == /\ p \in Patterns /\ txt = <<>> /\ q = 0 /\ hit = FALSE

Feed(c) == /\ Len(txt) < MaxT
           /\ txt' = Append(txt, c)
           /\ LET r == StepQ(p, PrefixFn(p), q, c) IN q' = r.q /\ hit' = r.hit
           /\ UNCHANGED p

Next == \E c \in Sigma : Feed(c)
Spec == Init /\ [][Next]_vars

PrefixFnCorrect == \A n \in 1..Len(p) : PrefixFn(p)[n] = Border(p, n)
QInvariant == q = Overlap(p, txt)
HitCorrect == hit = (txt # <<>> /\ Len(txt) \in MatchEnds(p, txt))
=============================================================================
