-------------------------- MODULE MC_PostLineBreak --------------------------
(* Exhaustive model of PostLineBreak: every list of at most MaxLen nodes     *)
(* over the kinds below (each node carries its position, so that no two      *)
(* neighbours are equal), ended as in 816, with every set of breakpoints     *)
(* post_line_break can work with, under each setting.  The settings make     *)
(* every term of the penalty rule visible (powers of ten), a sum that        *)
(* cancels to zero, \leftskip zero / non-zero / "zero with an order", width  *)
(* and indent sequences of different lengths.                                *)
EXTENDS PostLineBreak, TLC

Gl(w, st, sto, sh, sho) == [w |-> w, st |-> st, sto |-> sto, sh |-> sh, sho |-> sho]
Fil == Gl(0, 1, 1, 0, 0)

CfgA == [ls |-> Gl(0, 0, 0, 0, 0), rs |-> Gl(0, 0, 0, 0, 0), pfs |-> Fil,
         ilp |-> 1, club |-> 10, widow |-> 100, broken |-> 1000, widths |-> <<50>>, indents |-> <<>>]
CfgB == [ls |-> Gl(7, 0, 0, 0, 0), rs |-> Gl(3, 5, 0, 0, 0), pfs |-> Gl(0, 0, 0, 0, 0),
         ilp |-> 0, club |-> 0, widow |-> 0, broken |-> 0, widths |-> <<50, 40, 30>>, indents |-> <<5, 6>>]
CfgC == [ls |-> Gl(0, 0, 1, 0, 2), rs |-> Gl(0, 9, 1, 0, 0), pfs |-> Fil,
         ilp |-> 0, club |-> 5, widow |-> -5, broken |-> 0, widths |-> <<50, 40>>, indents |-> <<1, 2, 3>>]

ConfigsQuick == {CfgA, CfgB, CfgC}
ConfigsOne == {CfgA}
ConfigsTwo == {CfgA, CfgB}
KindsAll == {"c", "g", "p", "x", "n", "d0", "d1", "d2", "d3"}
KindsCore == {"c", "g", "p", "x", "d2"}
NoDevs == {}
WithDev == {DevNoPrune}
=============================================================================
