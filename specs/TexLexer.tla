------------------------------ MODULE TexLexer ------------------------------
(***************************************************************************)
(* TeX's line scanner (TeX.2021.343-356) at character level, with the      *)
(* source position of every token (property C03).                          *)
(*                                                                         *)
(* Input: the lines of the source (sequences of character codes, without   *)
(* the newline), a category-code table and \endlinechar.  Each line is     *)
(* right-trimmed of spaces (code 32) and gets the end-line character.      *)
(* Output: a sequence of events                                            *)
(*    [k |-> "tok", cat, ch, name, ln, col]   a token (cat 16 = control    *)
(*                                            sequence with `name`)        *)
(*    [k |-> "invalid", ch, ln, col]          an invalid character         *)
(* where (ln, col) is the 1-based line number and 0-based column of the    *)
(* source character the token started at: the escape character of a        *)
(* control sequence; for a character produced by ^^ notation the character *)
(* that was rewritten (the third one - this is what the repository's own   *)
(* tests pin); for the space or \par made from the end-line character the  *)
(* column just after the trimmed line.                                     *)
(*                                                                         *)
(* The scanner keeps the line buffer `b` (character codes) and, beside it, *)
(* `o`: the source column of every buffer position (^^ reductions shorten  *)
(* the buffer, TeX.2021.355 moves the rest of the line left).              *)
(***************************************************************************)
EXTENDS Integers, Sequences

CONSTANTS Deviations, Bug

\* Category codes as a table: a sequence of <<char, cat>> pairs; everything else is "other" (12).
CatOf(table, c) == IF \E i \in 1..Len(table) : table[i][1] = c
                   THEN table[CHOOSE i \in 1..Len(table) : table[i][1] = c][2] ELSE 12

IsHexDigit(c) == (c >= 48 /\ c <= 57) \/ (c >= 97 /\ c <= 102)
HexVal(c) == IF c <= 57 THEN c - 48 ELSE c - 87

RECURSIVE TrimRight(_)
TrimRight(s) == IF s # <<>> /\ s[Len(s)] = 32 THEN TrimRight(SubSeq(s, 1, Len(s) - 1)) ELSE s

\* ^^ notation applies at buffer position p (the first ^; cat(b[p]) = 7 is checked by the caller):
\* the same character again and a third one below 128.  TeX.2021.352 "loc<limit"
Reducible(b, p) == /\ p + 2 <= Len(b) /\ b[p + 1] = b[p] /\ b[p + 2] < 128

\* Deviation (known finding C03/caret-hex-form): lexer.rs has no ^^xy form.
HexForm(b, p) == /\ "CaretNoHexForm" \notin Deviations
                 /\ p + 3 <= Len(b) /\ IsHexDigit(b[p + 2]) /\ IsHexDigit(b[p + 3])

\* The buffer after reducing at p: positions p..p+2 (or p+3) become one character, which carries
\* the source column of the third character (hex form: of the first hex digit).
Reduce(b, o, p) ==
  LET hex == HexForm(b, p)
      n == IF hex THEN 4 ELSE 3
      c == IF hex THEN 16 * HexVal(b[p + 2]) + HexVal(b[p + 3])
           ELSE IF b[p + 2] < 64 THEN b[p + 2] + 64 ELSE b[p + 2] - 64
  IN [b |-> SubSeq(b, 1, p - 1) \o <<c>> \o SubSeq(b, p + n, Len(b)),
      o |-> SubSeq(o, 1, p - 1) \o <<o[p + 2]>> \o SubSeq(o, p + n, Len(o))]

Tok(cat, ch, ln, col) == [k |-> "tok", cat |-> cat, ch |-> ch, name |-> <<>>, ln |-> ln, col |-> col]
Cs(name, ln, col) == [k |-> "tok", cat |-> 16, ch |-> 0, name |-> name, ln |-> ln, col |-> col]
Par == <<112, 97, 114>>

\* ---- control sequence names: TeX.2021.354-356 ----------------------------------------------
\* Scan a name starting at buffer position p (just after the escape).  Returns the possibly
\* rewritten buffer, the name, the next position and the new scanner state.
RECURSIVE ScanName(_, _, _, _)
RECURSIVE Letters(_, _, _, _)
\* letters from position k on (k > start); reduce ^^ inside the name and rescan from the start
Letters(tb, b, o, k) ==
  IF k > Len(b) THEN [b |-> b, o |-> o, e |-> k, red |-> FALSE]
  ELSE IF CatOf(tb, b[k]) = 11 THEN Letters(tb, b, o, k + 1)
  ELSE IF CatOf(tb, b[k]) = 7 /\ Reducible(b, k)
       THEN LET r == Reduce(b, o, k) IN [b |-> r.b, o |-> r.o, e |-> k, red |-> TRUE]
  ELSE [b |-> b, o |-> o, e |-> k, red |-> FALSE]

ScanName(tb, b, o, p) ==
  IF p > Len(b) THEN [b |-> b, o |-> o, name |-> <<>>, loc |-> p, st |-> "N"]
  ELSE IF CatOf(tb, b[p]) = 7 /\ Reducible(b, p)
       THEN LET r == Reduce(b, o, p) IN ScanName(tb, r.b, r.o, p)
  ELSE IF CatOf(tb, b[p]) = 11
       THEN LET l == Letters(tb, b, o, p + 1) IN
            IF l.red THEN ScanName(tb, l.b, l.o, p)      \* "goto start_cs"
            ELSE [b |-> b, o |-> o, name |-> SubSeq(b, p, l.e - 1), loc |-> l.e, st |-> "S"]
  ELSE [b |-> b, o |-> o, name |-> <<b[p]>>, loc |-> p + 1,
        st |-> IF CatOf(tb, b[p]) = 10 THEN "S" ELSE "M"]

\* ---- one line: TeX.2021.343-353 ---------------------------------------------------------------
RECURSIVE ScanLine(_, _, _, _, _, _)
ScanLine(tb, b, o, loc, st, ln) ==
  IF loc > Len(b) THEN <<>>
  ELSE LET c == b[loc] cat == CatOf(tb, c) col == o[loc] IN
    CASE cat = 0 ->
           LET r == ScanName(tb, b, o, loc + 1) IN
           <<Cs(r.name, ln, col)>> \o ScanLine(tb, r.b, r.o, r.loc, r.st, ln)
      [] cat = 5 ->                                   \* end of line: the rest of the line is dropped
           IF st = "N" THEN <<Cs(Par, ln, col)>>
           ELSE IF st = "M" THEN <<Tok(10, 32, ln, col)>> ELSE <<>>
      [] cat = 10 ->
           IF st = "M" THEN <<Tok(10, 32, ln, col)>> \o ScanLine(tb, b, o, loc + 1, IF Bug = "NoSkipBlanks" THEN "M" ELSE "S", ln)
           ELSE ScanLine(tb, b, o, loc + 1, st, ln)
      [] cat = 9 -> ScanLine(tb, b, o, loc + 1, st, ln)
      [] cat = 14 -> <<>>                             \* comment: rest of the line is dropped
      [] cat = 15 -> <<[k |-> "invalid", cat |-> 15, ch |-> c, name |-> <<>>, ln |-> ln, col |-> col]>>
                     \o ScanLine(tb, b, o, loc + 1, st, ln)
      [] cat = 7 /\ Reducible(b, loc) ->
           LET r == Reduce(b, o, loc) IN ScanLine(tb, r.b, r.o, loc, st, ln)    \* "goto reswitch"
      [] OTHER -> <<Tok(cat, c, ln, col)>> \o ScanLine(tb, b, o, loc + 1, "M", ln)

\* The buffer TeX builds for a source line: trimmed, plus the end-line character.  The end-line
\* character carries the column just after the trimmed line.
Buffer(line, elc) == LET t == TrimRight(line) IN
                     [b |-> IF elc >= 0 THEN Append(t, elc) ELSE t,
                      o |-> [i \in 1..(Len(t) + IF elc >= 0 THEN 1 ELSE 0) |-> i - 1]]

RECURSIVE LexLines(_, _, _, _)
LexLines(tb, lines, elc, ln) ==
  IF ln > Len(lines) THEN <<>>
  ELSE LET bf == Buffer(lines[ln], elc) IN
       ScanLine(tb, bf.b, bf.o, 1, "N", ln) \o LexLines(tb, lines, elc, ln + 1)

Lex(lines, table, elc) == LexLines(table, lines, elc, 1)

\* The end-line character is a parameter of the moment a line is loaded (TeX.2021.360-362): elcs[ln] is the one in
\* force when line ln was read.  Every token still starts at its own source character.
RECURSIVE LexLinesV(_, _, _, _)
LexLinesV(tb, lines, elcs, ln) ==
  IF ln > Len(lines) THEN <<>>
  ELSE LET bf == Buffer(lines[ln], elcs[ln]) IN
       ScanLine(tb, bf.b, bf.o, 1, "N", ln) \o LexLinesV(tb, lines, elcs, ln + 1)
LexV(lines, table, elcs) == LexLinesV(table, lines, elcs, 1)
==============================================================================
