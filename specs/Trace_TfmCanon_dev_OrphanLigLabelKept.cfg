SPECIFICATION TSpec
CONSTANTS
  Threshold = 255
  MaxRedirect = 65535
  MaxHeader = 255
  Deviations = {"OrphanLigLabelKept"}
  Bug = ""
POSTCONDITION TraceAccepted
CHECK_DEADLOCK FALSE
