SPECIFICATION Spec
CONSTANTS
  N = 6
  KmpBug = ""
  Deviations = {}
INVARIANT AgreeInv
CHECK_DEADLOCK FALSE
