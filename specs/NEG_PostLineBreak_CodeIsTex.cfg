SPECIFICATION Spec
CONSTANTS
  NodeKinds <- KindsAll
  MaxLen = 1
  Configs <- ConfigsQuick
  TexDevs <- NoDevs
  Bug = ""
INVARIANTS CodeIsTex
CHECK_DEADLOCK FALSE
