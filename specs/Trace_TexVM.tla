---------------------------- MODULE Trace_TexVM ----------------------------
(* Binding F for the composed model: every line of TRACE is one whole program  *)
(* run on the real VM (harness/src/tv.rs).  The line is accepted iff the       *)
(* executable model TexVM.tla, run on the same token list, delivers the same   *)
(* output: all of it and the same final registers when the model sees no       *)
(* error, the output up to the first error when the model stops with one (the  *)
(* VM must then have reported an error at exactly that point of its output).   *)
(* Programs on which the model leaves its subset are counted (keys "skip-").   *)
EXTENDS TexVM, Json, IOUtils

Rec == ndJsonDeserialize(IOEnv.TRACE)
Fuel == 1500

\* The source text of the run, read by the specification of the lexer (TexLexer.tla, the module C03 binds to
\* the real lexer): under the category codes of the harness's prelude and \endlinechar=-1 its lines must lex to
\* exactly the token list the model runs.  This closes the composition at the characters of the file - and
\* checks the harness's way of writing a token list as text.
LX == INSTANCE TexLexer WITH Deviations <- {}, Bug <- ""
PlainTable == << <<92, 0>>, <<123, 1>>, <<125, 2>>, <<35, 6>>, <<32, 10>>, <<126, 13>>, <<33, 13>>, <<37, 14>> >>
               \o [i \in 1..26 |-> <<96 + i, 11>>] \o [i \in 1..26 |-> <<64 + i, 11>>]
LexedTok(t) ==
  IF t.k # "tok" THEN Tok("bad", 0)
  ELSE IF t.cat = 16 THEN (IF \E i \in 1..Len(NameCodes) : NameCodes[i] = t.name
                          THEN Tok("cs", CHOOSE i \in 1..Len(NameCodes) : NameCodes[i] = t.name) ELSE Tok("bad", 0))
  ELSE IF t.cat = 13 THEN (IF t.ch = 126 THEN Tok("cs", NNames - 1) ELSE IF t.ch = 33 THEN Tok("cs", NNames) ELSE Tok("bad", 0))
  ELSE IF t.cat = 1 THEN Tok("lb", 0) ELSE IF t.cat = 2 THEN Tok("rb", 0) ELSE IF t.cat = 6 THEN Tok("ha", 35)
  ELSE IF t.cat = 10 THEN SP ELSE Tok("ch", t.ch)
SourceLexesTo(e) ==
  LET toks == LX!Lex(e.lines, PlainTable, -1) IN
  [i \in 1..Len(toks) |-> LexedTok(toks[i])] = e.prog

VARIABLE l

Verdict(key, R, e) ==
  PrintT(<<"VERDICT", ToJson([l |-> l, key |-> key,
                               want |-> [out |-> R.out, err |-> R.err, cnt |-> [i \in 1..NReg |-> R.cnt[i - 1]]]])>>)

Judge(e) ==
  IF e.budget = 1 THEN Verdict("skip-step-budget", InitState(<<>>, 0), e)
  ELSE IF "panic" \in DOMAIN e THEN Verdict("panic", InitState(<<>>, 0), e)
  ELSE IF "prog" \in DOMAIN e /\ "lines" \in DOMAIN e /\ ~SourceLexesTo(e)
       THEN Verdict("source-does-not-lex-to-the-program", InitState(<<>>, 0), e)
  ELSE LET R == IF "prog" \notin DOMAIN e
                THEN \* the program is given as the characters of its file only: the model reads them itself, under the
                     \* category codes and the line end the program sets on the way (TexVM: the lexer in the loop)
                     ResultOfSource(e.lines, Fuel)
                ELSE IF "cut" \in DOMAIN e
                THEN \* two lines: the first is run to the end of its input (a scanner that meets the end of the
                     \* line there is what it is in the VM: the end of the input); what remains is the state the
                     \* second line starts from.  Serialising and deserialising in between must change nothing.
                     LET S1 == Run(InitState(SubSeq(e.prog, 1, e.cut), Fuel)) IN
                     IF Stopped(S1) THEN S1
                     ELSE Run([S1 EXCEPT !.inp = SubSeq(e.prog, e.cut + 1, Len(e.prog)), !.fuel = Fuel])
                ELSE Result(e.prog, Fuel) IN
    IF R.skip # "" THEN Verdict(R.skip, R, e)
    ELSE IF R.err = ""
    THEN IF /\ e.errat = -1 /\ e.fatal = 0 /\ e.out = R.out
            /\ (e.finals = <<>> \/ e.finals = [i \in 1..NReg |-> R.cnt[i - 1]])
         THEN TRUE ELSE Verdict("mismatch", R, e)
    ELSE LET pos == IF e.errat >= 0 THEN e.errat ELSE Len(e.out) IN
         IF (e.errat >= 0 \/ e.fatal = 1) /\ pos <= Len(e.out) /\ SubSeq(e.out, 1, pos) = R.out
         THEN TRUE ELSE Verdict("mismatch-at-error", R, e)

TInit == l = 1
TStep == l <= Len(Rec) /\ Judge(Rec[l]) /\ l' = l + 1
TSpec == TInit /\ [][TStep]_l
Matched == TLCGet("stats").diameter - 1
TraceAccepted == \/ Matched = Len(Rec)
                 \/ PrintT(<<"MATCHED", Matched>>) /\ FALSE
=============================================================================
