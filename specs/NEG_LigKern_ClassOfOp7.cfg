SPECIFICATION Spec
CONSTANTS
  Letters = {97, 98}
  MaxRules = 2
  MaxLen = 3
  Ops = {7}
  StopAtHit = TRUE
  CheckFlags = TRUE
  Bug = "ClassOfOp7"
  Deviations = {}
INVARIANTS HitIfBound NoHitIfDone PairExact
CHECK_DEADLOCK FALSE
