SPECIFICATION Spec
CONSTANTS
  Alphabet <- AlphaQuick
  MaxLen = 3
  Tails <- OnlyParTail
  WidthSeqs <- W57
  ParSets <- ParsCap
  Devs <- OnlyCap
  Bug = ""
INVARIANTS Refines
CHECK_DEADLOCK FALSE
