----------------------------- MODULE KnuthPlass -----------------------------
(***************************************************************************)
(* Breaking a paragraph into lines: TeX's line_break (tex.web 813-890) and *)
(* boxworks_knuthplass::LineBreaker::break_line_single_attempt.            *)
(*                                                                         *)
(* Two layers, checked against each other by TLC (MC_KnuthPlass):          *)
(*                                                                         *)
(*  reference layer   the property as stated, definitionally: the legal    *)
(*                    breakpoints of a list (866-869), the material of the *)
(*                    line between two breaks (break_width, 837-842; the   *)
(*                    discretionary rules 869, 840-842), badness (108),    *)
(*                    fitness classes (833, 852-853), demerits (859), and  *)
(*                    the set of ALL feasible break sequences, enumerated  *)
(*                    one by one (Paths): the optimum is a minimum over    *)
(*                    that set, looseness is the objective of 875.  No     *)
(*                    dynamic programming, no pruning.                     *)
(*  machine layer     the active/passive node algorithm in the shape of    *)
(*                    break_line_single_attempt: a scan over the list that *)
(*                    keeps running totals, active nodes carrying the      *)
(*                    totals at their break (computed by looking ahead     *)
(*                    over discardable items, 837), candidates per fitness *)
(*                    class, line classes (num_nodes_for_next_class = the  *)
(*                    easy_line rule of 835/848-850), deactivation on      *)
(*                    overfull lines (851-854), the adj_demerits slack of  *)
(*                    836, the final choice with looseness (874-875) and   *)
(*                    the passive chain (877-878).  Variables and actions  *)
(*                    at the end of the module.                            *)
(*                                                                         *)
(* Refinement: on every instance on which `overfull' is upward closed      *)
(* (Monotone), the machine finds a solution iff Paths is non-empty, and    *)
(* its solution is accepted by OutcomeOK -- the same predicate that judges *)
(* the result of the real code in Trace_KnuthPlass.                        *)
(*                                                                         *)
(* An instance is a record                                                 *)
(*   items  the horizontal list (1-based); a break "at n+1" is the final   *)
(*          break at the end of the list (873: try_break(eject_penalty,    *)
(*          hyphenated) with cur_p = null)                                 *)
(*   lw     line widths; line j is lw[min(j, Len(lw))]  (par_shape, 850)   *)
(*   tol    the pass's tolerance (pretolerance or tolerance, 863)          *)
(*   final  final pass?  (only matters with looseness, 873)                *)
(*   bg     background <<w, s0, s1, s2, s3, sh>>: leftskip + rightskip     *)
(*          (+ emergency stretch in s0)  (827)                             *)
(*   devs   the named deviations under which the instance is read ({} =    *)
(*          TeX); see DevNoDiscard, DevKernSign, DevNoCap                  *)
(*   lp hp ehp dhd fhd adj loose   line_penalty, hyphen_penalty,           *)
(*          ex_hyphen_penalty, double_hyphen_demerits,                     *)
(*          final_hyphen_demerits, adj_demerits, looseness                 *)
(*                                                                         *)
(* Items are records with a kind k:                                        *)
(*   box   w                 char, ligature, hbox, vbox, rule (867, 866)   *)
(*   kern  w x               x = 1 explicit, 0 font/accent kern            *)
(*   glue  w st sto sh       sto in 0..3; shrink is finite (825-826)       *)
(*   pen   p                                                               *)
(*   disc  pre npre post npost rep    widths and lengths of the pre- and   *)
(*          post-break lists; the rep items that follow are replaced       *)
(*                                                                         *)
(* Totals are 6-tuples <<width, stretch0..3, shrink>> (the six components  *)
(* of active_width, 823).  All arithmetic is TeX's 32-bit arithmetic; TLC  *)
(* raises an error on overflow, instances are kept in range.               *)
(***************************************************************************)
EXTENDS Integers, Sequences, FiniteSets, TLC

InfBad       == 10000          \* 108
InfPenalty   == 10000          \* 157
EjectPenalty == -10000         \* 157
AwfulBad     == 1073741823     \* 833: @'7777777777

VeryLoose == 0                 \* 817
Loose     == 1
Decent    == 2
Tight     == 3

\* The recorded findings, as named deviations of both layers.
DevNoDiscard == "break_width_keeps_discardables"
DevKernSign  == "break_width_kern_sign"
DevNoCap     == "threshold_not_capped_at_inf_bad"
DevScanRun   == "replacement_run_scanned_for_breaks"
AllDevs      == {DevNoDiscard, DevKernSign, DevNoCap, DevScanRun}

Abs(x)     == IF x < 0 THEN -x ELSE x
Min2(a, b) == IF a < b THEN a ELSE b
Max2(a, b) == IF a > b THEN a ELSE b
SetMin(S)  == CHOOSE m \in S : \A y \in S : m <= y
SetMax(S)  == CHOOSE m \in S : \A y \in S : y <= m

Zero6       == <<0, 0, 0, 0, 0, 0>>
Add6(x, y)  == <<x[1] + y[1], x[2] + y[2], x[3] + y[3], x[4] + y[4], x[5] + y[5], x[6] + y[6]>>
Sub6(x, y)  == <<x[1] - y[1], x[2] - y[2], x[3] - y[3], x[4] - y[4], x[5] - y[5], x[6] - y[6]>>
AddW(x, w)  == <<x[1] + w, x[2], x[3], x[4], x[5], x[6]>>

---------------------------------------------------------------------------
(* What an item adds to the running totals when the scan passes it         *)
(* (866-869: boxes, characters and kerns add width; glue adds all of its   *)
(* components, 868; penalties and the discretionary node itself nothing -- *)
(* the replaced items after a discretionary are passed like any others).   *)
Contrib(it) ==
  CASE it.k = "box"  -> <<it.w, 0, 0, 0, 0, 0>>
    [] it.k = "kern" -> <<it.w, 0, 0, 0, 0, 0>>
    [] it.k = "glue" -> <<it.w, IF it.sto = 0 THEN it.st ELSE 0, IF it.sto = 1 THEN it.st ELSE 0,
                          IF it.sto = 2 THEN it.st ELSE 0, IF it.sto = 3 THEN it.st ELSE 0, it.sh>>
    [] OTHER -> Zero6

\* 148: precedes_break (type < math_node), extended by 868 to non-explicit kerns and characters
PrecedesBreak(it) == it.k \in {"box", "disc"} \/ (it.k = "kern" /\ it.x = 0)

\* 837 / 879: what is discarded after a break -- glue, penalties, explicit kerns (math nodes too)
Discardable(it) == it.k \in {"glue", "pen"} \/ (it.k = "kern" /\ it.x = 1)

\* the first position >= i that holds a non-discardable item (n+1 when the list ends first)
RECURSIVE SkipDisc(_, _)
SkipDisc(items, i) ==
  IF i > Len(items) THEN i
  ELSE IF Discardable(items[i]) THEN SkipDisc(items, i + 1) ELSE i

\* prefix totals: Totals(items)[i+1] = what the scan has accumulated after passing items 1..i
RECURSIVE TotFrom(_, _, _)
TotFrom(items, i, acc) ==
  IF i > Len(items) THEN acc
  ELSE TotFrom(items, i + 1, Append(acc, Add6(acc[Len(acc)], Contrib(items[i]))))
Totals(items) == TotFrom(items, 1, <<Zero6>>)

\* a list is well formed if every discretionary is followed by the items it replaces, which
\* are boxes or kerns (145, 1121: the replacement list holds no glue, penalties or discretionaries)
WellFormed(items) ==
  \A a \in 1..Len(items) : items[a].k = "disc" =>
     /\ a + items[a].rep <= Len(items)
     /\ \A j \in a + 1..a + items[a].rep : items[j].k \in {"box", "kern"}

---------------------------------------------------------------------------
(* Reference layer, part 1: breakpoints and lines.                         *)

\* the penalty of a break at position b (866 penalty_node, 868, 869, 873), after 831's clamp
BreakPenalty(I, b) ==
  LET raw == IF b = Len(I.items) + 1 THEN EjectPenalty
             ELSE LET it == I.items[b] IN
                  CASE it.k = "pen"  -> it.p
                    [] it.k = "disc" -> IF it.npre = 0 THEN I.ehp ELSE I.hp        \* 869
                    [] OTHER -> 0
  IN IF raw <= EjectPenalty THEN EjectPenalty ELSE raw

\* the node prev_p points to when the scan is at b > 1: the item before b, or -- when that item
\* closes the replacement run of a discretionary -- the discretionary (869: prev_p := cur_p; cur_p := s)
PrevItem(I, b) ==
  LET items  == I.items
      owners == {a \in 1..b - 2 : items[a].k = "disc" /\ items[a].rep > 0 /\ a + items[a].rep = b - 1} IN
  IF owners # {} /\ DevScanRun \notin I.devs THEN items[SetMax(owners)] ELSE items[b - 1]

\* may TeX call try_break at position b of the list?  (the chapter 14 list of breakpoints)
\* Deviation DevScanRun: the scan does not jump over the replacement run of a discretionary, so an
\* explicit kern in the run can be a breakpoint and the glue after the run looks at the run's last item.
BreakPosition(I, b) ==
  LET items == I.items
      it    == items[b] IN
  /\ \/ DevScanRun \in I.devs
     \/ \A a \in 1..b - 1 : items[a].k = "disc" => b > a + items[a].rep     \* 869 skips the replaced items
  /\ CASE it.k = "glue" -> b > 1 /\ PrecedesBreak(PrevItem(I, b))                  \* 868
       [] it.k = "kern" -> it.x = 1 /\ b < Len(items) /\ items[b + 1].k = "glue"    \* 866 kern_break
       [] it.k = "pen"  -> TRUE
       [] it.k = "disc" -> TRUE
       [] OTHER -> FALSE

\* legal breakpoints: positions where try_break gets past 831 (pi < inf_penalty), and the end
Legal(I) == { b \in 1..Len(I.items) : BreakPosition(I, b) /\ BreakPenalty(I, b) < InfPenalty }
            \cup { Len(I.items) + 1 }

\* break_type = hyphenated (869, 873)
Hyphenated(I, b) == b = Len(I.items) + 1 \/ I.items[b].k = "disc"

\* 837-842 on absolute totals: what the scan will have accumulated when it reaches the first
\* item of the line that starts after a break at a.  T = Totals(I.items), D = deviations.
\*   a = 0                 the paragraph start
\*   discretionary         the replaced items are skipped, the post-break list is on the new
\*                         line (840-842); only if that list is empty are the discardable items
\*                         after the replaced ones dropped (840: s := link(v))
\*   glue, penalty, kern   the break item and every discardable item after it is dropped (837)
\* Deviations: DevNoDiscard drops the break item only; DevKernSign subtracts the width of a
\* break kern from the totals where it has to be added.
BreakTot(I, T, a) ==
  IF a = 0 THEN Zero6
  ELSE IF a > Len(I.items) THEN T[a]               \* the end of the list: nothing follows
  ELSE LET it == I.items[a] IN
       IF it.k = "disc"
       THEN LET e == a + it.rep
                s == IF it.npost = 0 /\ DevNoDiscard \notin I.devs THEN SkipDisc(I.items, e + 1) ELSE e + 1
            IN AddW(T[s], -it.post)                        \* T[s] = totals through item s - 1
       ELSE LET s    == IF DevNoDiscard \in I.devs THEN a + 1 ELSE SkipDisc(I.items, a)
                base == T[s]
            IN IF it.k = "kern" /\ DevKernSign \in I.devs THEN AddW(base, -2 * it.w) ELSE base

\* the totals at the end of a line that breaks at b: everything before b, and the pre-break
\* list of a discretionary (869: act_width + disc_width)
EndTot(I, T, b) ==
  IF b <= Len(I.items) /\ I.items[b].k = "disc" THEN AddW(T[b], I.items[b].pre) ELSE T[b]

\* the material of the line from break a to break b, background included (851: cur_active_width)
LineMat(I, T, a, b) == Add6(Sub6(EndTot(I, T, b), BreakTot(I, T, a)), I.bg)

\* 108, literally (32-bit: t * 297 <= 2147483448, r^3 + 2^17 <= 2146820072)
Badness(t, s) ==
  IF t = 0 THEN 0
  ELSE IF s <= 0 THEN InfBad
  ELSE LET r == IF t <= 7230584 THEN (t * 297) \div s
                ELSE IF s >= 1663497 THEN t \div (s \div 297)
                ELSE t
       IN IF r > 1290 THEN InfBad ELSE (r * r * r + 131072) \div 262144

\* 851-853: <<badness, fitness class>> of material m set to width lw; overfull is inf_bad + 1
BadFit(m, lw) ==
  LET shortfall == lw - m[1] IN
  IF shortfall > 0
  THEN IF m[3] # 0 \/ m[4] # 0 \/ m[5] # 0 THEN <<0, Decent>>                     \* 852
       ELSE LET b == Badness(shortfall, m[2]) IN
            <<b, IF b > 12 THEN (IF b > 99 THEN VeryLoose ELSE Loose) ELSE Decent>>
  ELSE LET b == IF -shortfall > m[6] THEN InfBad + 1 ELSE Badness(-shortfall, m[6]) IN   \* 853
       <<b, IF b > 12 THEN Tight ELSE Decent>>

\* 863: if threshold > inf_bad then threshold := inf_bad
Threshold(I) == IF DevNoCap \in I.devs THEN I.tol ELSE Min2(I.tol, InfBad)

\* 859: the demerits of one line.  b badness, pi penalty at its end, pf / f fitness of the
\* previous line and of this one, ph / h: previous break and this break hyphenated, last: b is the end
LineDem(I, b, pi, pf, f, ph, h, last) ==
  LET d0 == I.lp + b
      d1 == IF Abs(d0) >= 10000 THEN 100000000 ELSE d0 * d0
      d2 == IF pi > 0 THEN d1 + pi * pi
            ELSE IF pi < 0 /\ pi > EjectPenalty THEN d1 - pi * pi
            ELSE d1
      d3 == IF h /\ ph THEN (IF last THEN d2 + I.fhd ELSE d2 + I.dhd) ELSE d2
  IN IF Abs(f - pf) > 1 THEN d3 + I.adj ELSE d3

LineWidth(I, j) == I.lw[Min2(j, Len(I.lw))]          \* 850 with a par_shape

---------------------------------------------------------------------------
(* Reference layer, part 2: all feasible sequences, the optimum, the        *)
(* judgement of an outcome.  An outcome is [k |-> "none"] or                *)
(* [k |-> "brk", brk |-> the breaks as positions, the last one n + 1].      *)

\* ascending sequence of the elements of a set of integers
RECURSIVE SortedSeq(_)
SortedSeq(S) == IF S = {} THEN <<>> ELSE LET m == SetMin(S) IN <<m>> \o SortedSeq(S \ {m})

\* Everything the judgement needs about an instance (read under its deviations I.devs):
\*   K, Lseq   the legal breaks in order (Lseq[K] = n + 1); index 0 stands for the start
\*   Pen, Hy   penalty and hyphenation of each legal break
\*   BF        [p, q, c] -> <<badness, fitness>> of the line from legal break p to q when it is
\*             set to the c-th line width
\*   NF        [p] -> the first forced break after p (every sequence must stop there)
\*   mono      `the line from p to q is overfull' is upward closed in q (up to the next forced
\*             break, beyond which no line from p can reach), for every width a line that
\*             starts at p can have
\*   inrange   an a priori bound: the demerits of every sequence of legal breaks stay below
\*             awful_bad - |adj_demerits| in absolute value (TeX's own assumption, 833/836)
\*   OK        [p, q, c] -> may the line be used: badness <= threshold
\*   S         { <<number of lines, total demerits>> } over ALL feasible sequences: increasing
\*             sequences of legal breaks that contain every forced break and end at n + 1,
\*             every line usable
Analysis(I) ==
  LET n    == Len(I.items)
      T    == Totals(I.items)
      Lseq == SortedSeq(Legal(I))
      K    == Len(Lseq)
      NW   == Len(I.lw)
      thr  == Threshold(I)
      Pen  == TLCEval([q \in 1..K |-> BreakPenalty(I, Lseq[q])])
      Hy   == TLCEval([q \in 0..K |-> IF q = 0 THEN FALSE ELSE Hyphenated(I, Lseq[q])])
      BT   == TLCEval([p \in 0..K - 1 |-> BreakTot(I, T, IF p = 0 THEN 0 ELSE Lseq[p])])
      ET   == TLCEval([q \in 1..K |-> EndTot(I, T, Lseq[q])])
      BF   == TLCEval([p \in 0..K - 1, q \in 1..K, c \in 1..NW |->
                         IF p < q THEN BadFit(Add6(Sub6(ET[q], BT[p]), I.bg), I.lw[c]) ELSE <<0, Decent>>])
      NF   == TLCEval([p \in 0..K - 1 |-> SetMin({q \in p + 1..K : Pen[q] = EjectPenalty})])
      \* may the line from p to q be used?  TeX: badness within the (capped) threshold.  Under
      \* DevNoCap an overfull line (badness inf_bad + 1) passes an uncapped tolerance > inf_bad, but
      \* only at the first break where the line from p is overfull: there the active node is dropped (851)
      OK   == TLCEval([p \in 0..K - 1, q \in 1..K, c \in 1..NW |->
                         /\ p < q /\ BF[p, q, c][1] <= thr
                         /\ (DevNoCap \in I.devs => \A q2 \in p + 1..q - 1 : BF[p, q2, c][1] <= InfBad)])
      mono == \A p \in 0..K - 1 : \A c \in 1..Min2(p + 1, NW) : \A q \in p + 1..NF[p] :
                 BF[p, q, c][1] > InfBad => \A q2 \in q + 1..NF[p] : BF[p, q2, c][1] > InfBad
      \* a priori range of the demerits
      maxb    == IF DevNoCap \in I.devs THEN InfBad + 1 ELSE InfBad
      small   == /\ Abs(I.lp) <= 1000000 /\ Abs(I.dhd) <= 100000000
                 /\ Abs(I.fhd) <= 100000000 /\ Abs(I.adj) <= 100000000
      hi      == Max2(Abs(I.lp), Abs(I.lp + maxb))
      base    == IF hi >= 10000 THEN 100000000 ELSE hi * hi
      penmax  == SetMax({0} \cup {Pen[q] * Pen[q] : q \in {x \in 1..K : Pen[x] > EjectPenalty}})
      perline == base + penmax + Max2(Abs(I.dhd), Abs(I.fhd)) + Abs(I.adj)
      inrange == small /\ perline <= (AwfulBad - 1 - Abs(I.adj)) \div K
      RECURSIVE Paths(_, _, _)
      Paths(p, j, pf) ==
        UNION { LET bf == BF[p, q, Min2(j, NW)] IN
                IF ~OK[p, q, Min2(j, NW)] THEN {}
                ELSE LET d == LineDem(I, bf[1], Pen[q], pf, bf[2], Hy[p], Hy[q], q = K) IN
                     IF q = K THEN {<<j, d>>}
                     ELSE {<<x[1], x[2] + d>> : x \in Paths(q, j + 1, bf[2])}
              : q \in p + 1..NF[p] }
  IN [n |-> n, T |-> T, Lseq |-> Lseq, K |-> K, Pen |-> Pen, Hy |-> Hy, BF |-> BF, OK |-> OK, NF |-> NF,
      thr |-> thr, mono |-> mono, inrange |-> inrange,
      S |-> IF inrange THEN Paths(0, 1, Decent) ELSE {}]

\* index of position b in Lseq (0 if b is not a legal break)
IndexOf(A, b) == IF \E q \in 1..A.K : A.Lseq[q] = b THEN CHOOSE q \in 1..A.K : A.Lseq[q] = b ELSE 0

\* Is brk (a sequence of positions) a feasible sequence, and what are its demerits?
\* Returns [ok, lines, dem]; computed line by line exactly as Paths does.
RECURSIVE WalkSeq(_, _, _, _, _, _, _)
WalkSeq(I, A, qs, i, p, pf, acc) ==       \* qs: the breaks as indices into Lseq
  IF i > Len(qs) THEN [ok |-> p = A.K, lines |-> Len(qs), dem |-> acc]
  ELSE LET q  == qs[i]
           bf == A.BF[p, q, Min2(i, Len(I.lw))] IN
       IF q <= p \/ q > A.NF[p] \/ ~A.OK[p, q, Min2(i, Len(I.lw))] THEN [ok |-> FALSE, lines |-> Len(qs), dem |-> 0]
       ELSE WalkSeq(I, A, qs, i + 1, q, bf[2],
                    acc + LineDem(I, bf[1], A.Pen[q], pf, bf[2], A.Hy[p], A.Hy[q], q = A.K))

EvalSeq(I, A, brk) ==
  LET qs == [i \in 1..Len(brk) |-> IndexOf(A, brk[i])] IN
  IF brk = <<>> \/ \E i \in 1..Len(brk) : qs[i] = 0 THEN [ok |-> FALSE, lines |-> Len(brk), dem |-> 0]
  ELSE WalkSeq(I, A, qs, 1, 0, Decent, 0)

\* 874-875 and the exit test of 873 as an objective.  S # {}.
\*   looseness = 0: the fewest demerits.
\*   otherwise: L0 = the number of lines of a sequence with the fewest demerits; the line count
\*   moves from L0 towards L0 + looseness as far as some feasible sequence allows; among the
\*   sequences with that many lines, the fewest demerits.  A pass that is not final fails unless
\*   the full looseness was reached.
\* Want(I, S) = the set of acceptable answers <<lines, demerits>>, with Fail = <<0, 0>> standing
\* for "the pass fails".  A set, because two sequences with the fewest demerits may differ in their
\* number of lines and each of them is a legitimate L0.
Fail == <<0, 0>>
Want(I, S) ==
  LET dmin  == SetMin({x[2] : x \in S})
      lines == {x[1] : x \in S}
      best(L) == SetMin({x[2] : x \in {y \in S : y[1] = L}})
  IN IF I.loose = 0 THEN {x \in S : x[2] = dmin}
     ELSE { LET L0   == x[1]
                cand == IF I.loose > 0 THEN {L \in lines : L0 <= L /\ L <= L0 + I.loose}
                        ELSE {L \in lines : L0 + I.loose <= L /\ L <= L0}
                L1   == IF I.loose > 0 THEN SetMax(cand) ELSE SetMin(cand)
            IN IF I.final \/ L1 - L0 = I.loose THEN <<L1, best(L1)>> ELSE Fail
            : x \in {y \in S : y[2] = dmin} }

\* The judgement.  "ok" or the reason for rejection; "skip-..." = outside the quantifier.
Judge(I, A, out) ==
  IF ~A.inrange THEN "skip-demerits-range"
  ELSE IF A.S = {} /\ I.final /\ out.k # "none"
       THEN "skip-final-pass-without-feasible-sequence"      \* 854: artificial demerits; S is exact
  ELSE IF ~A.mono THEN "skip-nonmonotone"
  ELSE IF A.S = {} THEN
         (IF out.k = "none" THEN "ok" ELSE "solution-but-no-feasible-sequence")
  ELSE LET want == Want(I, A.S) IN
       IF out.k = "none"
       THEN (IF Fail \in want THEN "ok"
             ELSE IF I.loose = 0 THEN "none-but-feasible-sequence-exists"
             ELSE "none-but-looseness-can-be-reached")
       ELSE LET r == EvalSeq(I, A, out.brk) IN
            IF ~r.ok THEN "solution-not-feasible"
            ELSE IF <<r.lines, r.dem>> \in want THEN "ok"
            ELSE IF want = {Fail} THEN "solution-but-looseness-not-reached"
            ELSE IF \E x \in want : x[1] = r.lines THEN "solution-not-optimal"
            ELSE "solution-wrong-number-of-lines"

Accepting == {"ok", "skip-demerits-range", "skip-nonmonotone", "skip-final-pass-without-feasible-sequence"}
OutcomeOK(I, out) == Judge(I, Analysis(I), out) \in Accepting

---------------------------------------------------------------------------
(* Machine layer: break_line_single_attempt as a state machine.            *)
(*                                                                         *)
(*   inst     the instance being broken                                    *)
(*   pos      the position the scan looks at next (n + 1 = the end, n + 2  *)
(*            = scan finished)                                             *)
(*   cur      running totals of everything the scan has passed (`diffs`)   *)
(*   active   the active nodes in list order.  A node is                   *)
(*            [tot, fit, hy, ln, idx, td]: totals at the start of its line *)
(*            (`diffs` of the ActiveNode), fitness class, hyphenated,      *)
(*            number of lines before it, index of its passive node, total  *)
(*            demerits                                                     *)
(*   passive  passive nodes [brk, prev]; index 0 is the paragraph start    *)
(*   outcome  [k |-> "run"] until Finish                                   *)

CONSTANTS Alphabet,    \* model: the items a list is made of
          MaxLen,      \* model: longest list (before the tail)
          Tails,       \* model: what every list ends with (<<>>, or TeX's \penalty10000 \parfillskip)
          WidthSeqs,   \* model: line-width sequences
          ParSets,     \* model: parameter records [tol, final, bg, lp, hp, ehp, dhd, fhd, adj, loose]
          Devs,        \* model: deviations under which the machine runs ({} = TeX); the reference is TeX
          Bug          \* "" or the name of a seeded design mutant of the machine

VARIABLES inst, pos, cur, active, passive, outcome
vars == <<inst, pos, cur, active, passive, outcome>>

\* num_nodes_for_next_class: how many nodes at the head of `todo` produce new nodes of the same
\* line class.  With looseness = 0, lines after the last special width are interchangeable
\* (848: easy_line = last_special_line; 835 merges the class easy_line with the later ones).
NumForNextClass(I, todo) ==
  LET first == todo[1].ln IN
  IF Bug = "OneLineClass" THEN Len(todo)
  ELSE IF I.loose = 0 /\ first + 2 >= Len(I.lw) THEN Len(todo)
  ELSE LET same == {i \in 1..Len(todo) : \A j \in 1..i : todo[j].ln = first} IN SetMax(same)

\* 837-842, by looking ahead from the break item (the machine's own computation of the totals a
\* new active node carries; the reference layer uses prefix sums)
RECURSIVE AbsorbDiscardables(_, _, _)
AbsorbDiscardables(items, s, bt) ==
  IF s > Len(items) \/ ~Discardable(items[s]) THEN bt
  ELSE AbsorbDiscardables(items, s + 1, Add6(bt, Contrib(items[s])))

RECURSIVE SumWidths(_, _, _)
SumWidths(items, i, j) == IF i > j THEN 0 ELSE Contrib(items[i])[1] + SumWidths(items, i + 1, j)

NodeTotals(I, b, c) ==     \* c = running totals before item b
  IF b > Len(I.items) THEN c
  ELSE LET it == I.items[b] IN
       IF it.k = "disc"
       THEN LET bt == AddW(c, SumWidths(I.items, b + 1, b + it.rep) - it.post) IN      \* 840-842
            IF it.npost = 0 /\ DevNoDiscard \notin I.devs
            THEN AbsorbDiscardables(I.items, b + it.rep + 1, bt) ELSE bt
       ELSE IF DevNoDiscard \in I.devs \/ Bug = "NoLookahead"
            THEN (IF it.k = "kern" THEN AddW(c, IF DevKernSign \in I.devs THEN -it.w ELSE it.w)
                  ELSE Add6(c, Contrib(it)))
            ELSE LET bt == AbsorbDiscardables(I.items, b, c) IN
                 IF it.k = "kern" /\ DevKernSign \in I.devs THEN AddW(bt, -2 * it.w) ELSE bt

\* One active node r against a break at b (851-855).  Returns [keep, ok, bad, fit, d].
TryNode(I, b, pi, hyph, end, r) ==
  LET m   == Add6(Sub6(end, r.tot), I.bg)                          \* cur_active_width
      bf  == BadFit(m, LineWidth(I, r.ln + 1))
      thr == Threshold(I)
      gone == IF Bug = "DeactivateAboveThreshold" THEN bf[1] > thr \/ pi = EjectPenalty
              ELSE bf[1] > InfBad \/ pi = EjectPenalty             \* 851
  IN [keep |-> ~gone, ok |-> bf[1] <= thr, bad |-> bf[1], fit |-> bf[2],
      d |-> LineDem(I, bf[1], pi, r.fit, bf[2], r.hy, hyph, b = Len(I.items) + 1)]

\* One class of active nodes (833-835, 855): candidates per fitness class, the minimum.
\* cand[f + 1] = [td, prev, ln] with td = AwfulBad when there is none.
NoCand == [td |-> AwfulBad, prev |-> 0, ln |-> 0]
RECURSIVE ProcessGroup(_, _, _, _, _, _, _, _, _)
ProcessGroup(I, b, pi, hyph, end, grp, surv, cand, min) ==
  IF grp = <<>> THEN [surv |-> surv, cand |-> cand, min |-> min]
  ELSE LET r  == Head(grp)
           t  == TryNode(I, b, pi, hyph, end, r)
           td == t.d + r.td
           better == IF Bug = "KeepFirstCandidateOnly" THEN cand[t.fit + 1].td = AwfulBad
                     ELSE td <= cand[t.fit + 1].td
           cand2 == IF t.ok /\ better
                    THEN [cand EXCEPT ![t.fit + 1] = [td |-> td, prev |-> r.idx, ln |-> r.ln + 1]]
                    ELSE cand
           min2  == IF t.ok /\ td <= min THEN td ELSE min
       IN ProcessGroup(I, b, pi, hyph, end, Tail(grp),
                       IF t.keep THEN Append(surv, r) ELSE surv, cand2, min2)

\* 835-836, 845: the new active nodes of one class, in the order very loose .. tight
RECURSIVE NewNodes(_, _, _, _, _, _, _)
NewNodes(b, hyph, bt, cand, limit, f, acc) ==     \* acc = [nodes, passives, next]
  IF f > Tight THEN acc
  ELSE LET c == cand[f + 1] IN
       IF c.td > limit THEN NewNodes(b, hyph, bt, cand, limit, f + 1, acc)
       ELSE NewNodes(b, hyph, bt, cand, limit, f + 1,
              [nodes    |-> Append(acc.nodes, [tot |-> bt, fit |-> f, hy |-> hyph, ln |-> c.ln,
                                               idx |-> acc.next, td |-> c.td]),
               passives |-> Append(acc.passives, [brk |-> b, prev |-> c.prev]),
               next     |-> acc.next + 1])

\* try_break (829) at position b: class by class through the active list
RECURSIVE ProcessClasses(_, _, _, _, _, _, _, _, _)
ProcessClasses(I, b, pi, hyph, end, bt, todo, out, pas) ==
  IF todo = <<>> THEN [active |-> out, passive |-> pas]
  ELSE LET m   == NumForNextClass(I, todo)
           g   == ProcessGroup(I, b, pi, hyph, end, SubSeq(todo, 1, m), <<>>,
                               <<NoCand, NoCand, NoCand, NoCand>>, AwfulBad)
           \* 836: minimum_demerits + |adj_demerits|, kept below awful_bad
           limit == IF Bug = "NoAdjSlack" THEN g.min
                    ELSE IF Abs(I.adj) >= AwfulBad - g.min THEN AwfulBad - 1
                    ELSE g.min + Abs(I.adj)
           nn  == IF g.min < AwfulBad
                  THEN NewNodes(b, hyph, bt, g.cand, limit, VeryLoose,
                                [nodes |-> <<>>, passives |-> <<>>, next |-> Len(pas) + 1])
                  ELSE [nodes |-> <<>>, passives |-> <<>>, next |-> Len(pas) + 1]
       IN ProcessClasses(I, b, pi, hyph, end, bt, SubSeq(todo, m + 1, Len(todo)),
                         out \o g.surv \o nn.nodes, pas \o nn.passives)

\* is position b (1..n+1) a place where the scan calls try_break?  (the match of the Rust loop)
ScanBreaks(I, b) == IF b = Len(I.items) + 1 THEN TRUE ELSE BreakPosition(I, b)

\* what the scan does at position b (1..n+1) with running totals c: [cur, active, passive]
ScanStep(I, b, c, act, pas) ==
  LET last == b = Len(I.items) + 1
      try  == ScanBreaks(I, b) /\ BreakPenalty(I, b) < InfPenalty            \* 831
      end  == IF ~last /\ I.items[b].k = "disc" THEN AddW(c, I.items[b].pre) ELSE c      \* 869
      r    == IF try
              THEN ProcessClasses(I, b, BreakPenalty(I, b), Hyphenated(I, b), end,
                                  NodeTotals(I, b, c), act, <<>>, pas)
              ELSE [active |-> act, passive |-> pas]
  IN [tried |-> try, active |-> r.active, passive |-> r.passive,
      cur |-> IF last THEN c ELSE Add6(c, Contrib(I.items[b]))]

\* 877-878: the breaks of the path that ends in passive node idx
RECURSIVE Chain(_, _, _)
Chain(pas, idx, acc) == IF idx = 0 THEN acc ELSE Chain(pas, pas[idx].prev, <<pas[idx].brk>> \o acc)

\* 874: the first node with the fewest demerits
RECURSIVE FirstBest(_, _, _)
FirstBest(act, i, best) ==
  IF i > Len(act) THEN best
  ELSE FirstBest(act, i + 1, IF act[i].td < act[best].td THEN i ELSE best)

\* 875: <<index of best_bet, actual_looseness>>
RECURSIVE Loosen(_, _, _, _, _, _)
Loosen(act, loose, bestln, i, bet, actual) ==
  IF i > Len(act) THEN <<bet, actual>>
  ELSE LET diff == act[i].ln - bestln IN
       IF (diff < actual /\ loose <= diff) \/ (diff > actual /\ loose >= diff)
       THEN Loosen(act, loose, bestln, i + 1, i, diff)
       ELSE IF diff = actual /\ act[i].td < act[bet].td
       THEN Loosen(act, loose, bestln, i + 1, i, actual)
       ELSE Loosen(act, loose, bestln, i + 1, bet, actual)

\* 873-878: the answer of the pass once the scan is over
Answer(I, act, pas) ==
  IF act = <<>> THEN [k |-> "none"]
  ELSE LET best == FirstBest(act, 1, 1) IN
       IF I.loose = 0 \/ Bug = "IgnoreLooseness"
       THEN [k |-> "brk", brk |-> Chain(pas, act[best].idx, <<>>)]
       ELSE LET lo == Loosen(act, I.loose, act[best].ln, 1, best, 0) IN
            IF lo[2] # I.loose /\ ~I.final THEN [k |-> "none"]          \* 873
            ELSE [k |-> "brk", brk |-> Chain(pas, act[lo[1]].idx, <<>>)]

\* the whole pass as one operator (used by the trace specification)
RECURSIVE RunFrom(_, _, _, _, _)
RunFrom(I, b, c, act, pas) ==
  IF b > Len(I.items) + 1 THEN Answer(I, act, pas)
  ELSE LET r == ScanStep(I, b, c, act, pas) IN RunFrom(I, b + 1, r.cur, r.active, r.passive)

MkInst(l, w, par) ==
  [items |-> l, lw |-> w, tol |-> par.tol, final |-> par.final, bg |-> par.bg, lp |-> par.lp,
   hp |-> par.hp, ehp |-> par.ehp, dhd |-> par.dhd, fhd |-> par.fhd, adj |-> par.adj, loose |-> par.loose,
   devs |-> Devs]

FirstNode == [tot |-> Zero6, fit |-> Decent, hy |-> FALSE, ln |-> 0, idx |-> 0, td |-> 0]   \* 864
RunMachine(I) == RunFrom(I, 1, Zero6, <<FirstNode>>, <<>>)

Init == /\ \E k \in 0..MaxLen : \E l \in [1..k -> Alphabet] : \E t \in Tails :
             \E w \in WidthSeqs : \E par \in ParSets :
                WellFormed(l \o t) /\ inst = MkInst(l \o t, w, par)
        /\ pos = 1 /\ cur = Zero6 /\ active = <<FirstNode>> /\ passive = <<>>
        /\ outcome = [k |-> "run"]

\* the scan passes an item at which no break is tried (or whose penalty is infinite, 831)
Pass == /\ outcome.k = "run" /\ pos <= Len(inst.items) + 1
        /\ LET r == ScanStep(inst, pos, cur, active, passive) IN
           /\ ~r.tried
           /\ cur' = r.cur
        /\ pos' = pos + 1
        /\ UNCHANGED <<inst, active, passive, outcome>>

\* the scan tries a break at pos (829-860), then passes the item
TryBreak ==
  /\ outcome.k = "run" /\ pos <= Len(inst.items) + 1
  /\ LET r == ScanStep(inst, pos, cur, active, passive) IN
     /\ r.tried
     /\ active' = r.active /\ passive' = r.passive /\ cur' = r.cur
  /\ pos' = pos + 1
  /\ UNCHANGED <<inst, outcome>>

Finish ==
  /\ outcome.k = "run" /\ pos = Len(inst.items) + 2
  /\ outcome' = Answer(inst, active, passive)
  /\ UNCHANGED <<inst, pos, cur, active, passive>>

Next == Pass \/ TryBreak \/ Finish
Spec == Init /\ [][Next]_vars

---------------------------------------------------------------------------
(* Properties of the machine.                                              *)

\* the refinement: whatever the machine answers is what the reference layer demands
Strict(I) == [I EXCEPT !.devs = {}]
Refines == outcome.k # "run" => OutcomeOK(Strict(inst), outcome)

\* the same without the per-instance precondition of the property (a negative control: the
\* active-list pruning is unsound on lists where overfull is not upward closed)
RefinesWithoutMonotone ==
  outcome.k # "run" =>
    LET A == Analysis(Strict(inst)) IN Judge(Strict(inst), [A EXCEPT !.mono = TRUE], outcome) \in Accepting

\* every active node is witnessed by a path: following its passive links gives a sequence of
\* legal breaks whose lines are all feasible, whose demerits are the node's total, whose number
\* of lines is the node's line number and whose last line has the node's fitness class
RECURSIVE PathEval(_, _, _, _, _, _, _)
PathEval(I, T, brk, i, a, pf, acc) ==      \* [ok, dem, fit]
  IF i > Len(brk) THEN [ok |-> TRUE, dem |-> acc, fit |-> pf]
  ELSE LET b  == brk[i]
           bf == BadFit(LineMat(I, T, a, b), LineWidth(I, i))
           thr == Threshold(I) IN
       IF b <= a \/ b \notin Legal(I) \/ bf[1] > thr THEN [ok |-> FALSE, dem |-> 0, fit |-> pf]
       ELSE PathEval(I, T, brk, i + 1, b, bf[2],
                     acc + LineDem(I, bf[1], BreakPenalty(I, b), pf, bf[2],
                                   a # 0 /\ Hyphenated(I, a), Hyphenated(I, b), b = Len(I.items) + 1))

NodesWitnessed ==
  outcome.k = "run" =>
    LET T == Totals(inst.items) IN
    \A i \in 1..Len(active) :
      LET r   == active[i]
          brk == Chain(passive, r.idx, <<>>)
          e   == PathEval(inst, T, brk, 1, 0, Decent, 0) IN
      /\ e.ok /\ e.dem = r.td /\ e.fit = r.fit /\ Len(brk) = r.ln
      /\ r.tot = BreakTot(inst, T, IF brk = <<>> THEN 0 ELSE brk[Len(brk)])
      /\ r.hy = (brk # <<>> /\ Hyphenated(inst, brk[Len(brk)]))

\* the running totals are the prefix sums, the active list is ordered by line number up to the
\* merged last class, totals stay in range
ScanInv ==
  outcome.k = "run" =>
    /\ pos \in 1..Len(inst.items) + 2
    /\ (pos = Len(inst.items) + 2 \/ cur = Totals(inst.items)[pos])
    /\ \A i \in 1..Len(active) : Abs(active[i].td) < AwfulBad /\ active[i].idx \in 0..Len(passive)
    /\ \A i, j \in 1..Len(active) : i < j /\ active[j].ln < active[i].ln =>
          inst.loose = 0 /\ active[j].ln + 2 >= Len(inst.lw)
=============================================================================
