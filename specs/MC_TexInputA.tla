---------------------------- MODULE MC_TexInputA ----------------------------
(* Part A: the source-stack machine delivers exactly the inlined text, on every *)
(* small tree of three files (self-inclusion allowed: Limit stops it).          *)
EXTENDS TexInput, TLC, Json
CONSTANT MaxLines2
It(t, c) == [t |-> t, c |-> c]
LinesOver(S) == UNION { [1..n -> S] : n \in 0..2 }
FileOver(S, m) == UNION { [1..n -> LinesOver(S)] : n \in 0..m }
VARIABLE files
Mac(body) == [t |-> "m", c |-> 0, body |-> body]
\* the tree is chosen file by file (three steps): the set of all trees at once exceeds TLC's limit on
\* enumerated sets in the thorough configuration
Pool(k) == CASE k = 0 -> FileOver({It("x", 1), It("ei", 0), It("in", 2), It("in", 3),
                                   Mac(<<It("ei", 0), It("in", 3), It("x", 4)>>), Mac(<<It("x", 4), It("in", 2), It("x", 5)>>)}, 2)
             [] k = 1 -> FileOver({It("x", 2), It("ei", 0), It("in", 3), It("in", 2)}, MaxLines2)
             [] OTHER -> FileOver({It("x", 3), It("ei", 0)}, 1)
Init == files = <<>> /\ SInit
Next == /\ Len(files) < 3
        /\ \E f \in Pool(Len(files)) : files' = Append(files, f)
        /\ UNCHANGED <<str, op, dead>>
Spec == Init /\ [][Next]_<<files, str, op, dead>>
MachineIsInline == Len(files) = 3 => Same(Inline(files), Run(files))
NoFiles == <<>>
=============================================================================
