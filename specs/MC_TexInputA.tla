---------------------------- MODULE MC_TexInputA ----------------------------
(* Part A: the source-stack machine delivers exactly the inlined text, on every *)
(* small tree of three files (self-inclusion allowed: Limit stops it).          *)
EXTENDS TexInput, TLC, Json
CONSTANT MaxLines2
It(t, c) == [t |-> t, c |-> c]
LinesOver(S) == UNION { [1..n -> S] : n \in 0..2 }
FileOver(S, m) == UNION { [1..n -> LinesOver(S)] : n \in 0..m }
VARIABLE files
Mac(body) == [t |-> "m", c |-> 0, body |-> body]
Init == files \in { <<a, b, c>> : a \in FileOver({It("x", 1), It("ei", 0), It("in", 2), It("in", 3),
                                                       Mac(<<It("ei", 0), It("in", 3), It("x", 4)>>), Mac(<<It("x", 4), It("in", 2), It("x", 5)>>)}, 2),
                                  b \in FileOver({It("x", 2), It("ei", 0), It("in", 3), It("in", 2)}, MaxLines2),
                                  c \in FileOver({It("x", 3), It("ei", 0)}, 1) } /\ SInit
Next == UNCHANGED <<files, str, op, dead>>
Spec == Init /\ [][Next]_<<files, str, op, dead>>
MachineIsInline == Same(Inline(files), Run(files))
NoFiles == <<>>
=============================================================================
