--------------------------- MODULE MC_HyphenList ---------------------------
(* Exhaustive model of the word-discovery machine (HyphenList part 1):     *)
(* every list of at most MaxLen nodes over an alphabet with one node of    *)
(* every kind tex.web 896-899 distinguishes.  MaxHn (63 in TeX) is 3 here   *)
(* so that the letter limit -- including a ligature straddling it -- is    *)
(* reached by short lists.                                                 *)
EXTENDS HyphenList

Ch(c, f) == [k |-> "char", c |-> c, f |-> f]
Lig(o, f, lb, rb) == [k |-> "lig", c |-> 12, f |-> f, o |-> o, lb |-> lb, rb |-> rb]

AlphabetQuick ==
  { [k |-> "glue"],
    Ch(97, 0),                         \* letter, font 0
    Ch(98, 1),                         \* letter, font 1
    Ch(46, 0),                         \* non-letter
    Lig(<<102, 105>>, 0, 0, 0),        \* ligature of two letters
    Lig(<<45, 45>>, 0, 0, 0),          \* ligature of non-letters
    Lig(<<102, 46>>, 0, 0, 0),         \* ligature letter + non-letter
    [k |-> "kern", x |-> 0],           \* font kern
    [k |-> "kern", x |-> 1],           \* explicit kern
    [k |-> "pen"],
    [k |-> "rule"],
    [k |-> "what"] }

AlphabetThorough ==
  AlphabetQuick \cup
  { Lig(<<>>, 0, 1, 0),                \* boundary ligature: no original characters
    Lig(<<102>>, 0, 0, 1),             \* ligature with the right boundary
    Ch(65, 0),                         \* upper-case letter
    [k |-> "disc"],
    [k |-> "math", m |-> 0],
    [k |-> "math", m |-> 1] }

\* a longer horizon on the kinds that decide where a word starts and ends
AlphabetCore ==
  { [k |-> "glue"], Ch(97, 0), Ch(98, 1), Ch(46, 0), Lig(<<102, 105>>, 0, 0, 0),
    [k |-> "kern", x |-> 0], [k |-> "kern", x |-> 1], [k |-> "rule"] }

NoDevs == {}
OnlyAbort == {DevAbort}
=============================================================================
