SPECIFICATION Spec
CONSTANTS
  N = 4
INVARIANT SomeBound
CHECK_DEADLOCK FALSE
