SPECIFICATION Spec
CONSTANTS
  Alphabet <- AlphaQuick
  MaxLen = 4
  Tails <- OnlyParTail
  WidthSeqs <- W754
  ParSets <- P_loose1
  Devs <- OnlyKern
  Bug = ""
INVARIANTS Refines
CHECK_DEADLOCK FALSE
