------------------------------ MODULE TexExpand ------------------------------
(***************************************************************************)
(* \expandafter and \noexpand (property C07, second half).                 *)
(*                                                                         *)
(* Tokens: [t, c] with t = "x" (unexpandable, delivered), "m" (macro c),   *)
(* "xa" (\expandafter), "nx" (\noexpand).  Macros (constant table):        *)
(*   1: -> x3        2: -> m1 x4      3: #1 -> x5 #1 x6      4: -> (empty) *)
(* Macro 3 takes one undelimited single-token argument, so the *order* of  *)
(* expansion is observable in the delivered tokens.                        *)
(*                                                                         *)
(* Reference layer (Ref): TeX.2021.366-368.  \noexpand marks the next      *)
(* token (if expandable) with the dont_expand flag; a marked token that    *)
(* reaches the reader is not expanded and acts like \relax (delivered here *)
(* as [t |-> "u", c |-> ...] = "unexpanded command", which is what the     *)
(* VM's unexpanded_expansion_command handler reports); the flag is lost    *)
(* when the token is fetched by get_token and put back (TeX.2021.358,      *)
(* 325).  \expandafter fetches t1, expands the token after it once, puts   *)
(* t1 back.                                                                *)
(*                                                                         *)
(* Implementation layer: expansion.rs.  The stream carries no flags:       *)
(* \noexpand works through the expansion_override_hook, which hands the    *)
(* next token to whoever asked - the main loop (delivered unexpanded) or   *)
(* expand_once (pushed back unflagged)  .  Two \expandafter built-ins:      *)
(* simple (two tokens, expand_once, push back) and optimized (collect the  *)
(* whole \expandafter chain, one expand_once, push everything back).       *)
(***************************************************************************)
EXTENDS Integers, Sequences, FiniteSets

CONSTANT Deviations, Bug

Tok(t, c) == [t |-> t, c |-> c]
Body(m) == CASE m = 1 -> <<Tok("x", 3)>>
             [] m = 2 -> <<Tok("m", 1), Tok("x", 4)>>
             [] m = 3 -> <<Tok("x", 5), Tok("arg", 1), Tok("x", 6)>>
             [] m = 4 -> <<>>
Arity(m) == IF m = 3 THEN 1 ELSE 0
Expandable(tk) == tk.t \in {"m", "xa", "nx"}

Subst(body, arg) == [i \in 1..Len(body) |-> IF body[i].t = "arg" THEN arg ELSE body[i]]

Err(out) == [out |-> out, err |-> "eof"]

------------------------------------------------------------------------------
(* Reference layer.  Stream elements are [t, c, nx] (nx = dont_expand flag). *)
F(tk) == [t |-> tk.t, c |-> tk.c, nx |-> FALSE]
Unflag(e) == [t |-> e.t, c |-> e.c, nx |-> FALSE]
Strip(e) == Tok(e.t, e.c)
FBody(m, arg) == [i \in 1..Len(Body(m)) |-> F(IF Body(m)[i].t = "arg" THEN arg ELSE Body(m)[i])]

\* \noexpand at the head has been removed; s is what follows.  TeX.2021.367
RNoExpand(s) == IF s = <<>> THEN [ok |-> FALSE, s |-> s]
                ELSE [ok |-> TRUE,
                      s |-> IF Expandable(s[1]) THEN <<[t |-> s[1].t, c |-> s[1].c, nx |-> TRUE]>> \o Tail(s)
                            ELSE <<Unflag(s[1])>> \o Tail(s)]

\* macro m at the head has been removed; s follows
RMacro(m, s) == IF Arity(m) = 0 THEN [ok |-> TRUE, s |-> FBody(m, Tok("x", 0)) \o s]
                ELSE IF s = <<>> THEN [ok |-> FALSE, s |-> s]
                ELSE [ok |-> TRUE, s |-> FBody(m, Strip(s[1])) \o Tail(s)]

\* Expand the head of s once if it is expandable and not flagged.  TeX.2021.366
RECURSIVE RExpandOnce(_)
\* \expandafter at the head has been removed; s follows.  TeX.2021.368
RECURSIVE RExpandAfter(_)
RExpandAfter(s) ==
  IF Len(s) < 2 THEN [ok |-> FALSE, s |-> s]
  ELSE LET t1 == Unflag(s[1])
           r == IF s[2].nx
                THEN \* fetched by get_token as \relax and put back: the flag is gone
                     [ok |-> TRUE, s |-> <<Unflag(s[2])>> \o SubSeq(s, 3, Len(s))]
                ELSE RExpandOnce(Tail(s))
       IN IF r.ok THEN [ok |-> TRUE, s |-> <<t1>> \o r.s] ELSE r

RExpandOnce(s) ==
  IF s = <<>> THEN [ok |-> TRUE, s |-> s]
  ELSE LET h == s[1] r == Tail(s) IN
    CASE h.t = "m" -> RMacro(h.c, r)
      [] h.t = "xa" -> RExpandAfter(r)
      [] h.t = "nx" ->
           LET k == RNoExpand(r) IN
           \* Deviation (known finding C07/noexpand-lost-under-expandafter): texlang pushes the
           \* token back without any flag, so it is expanded when it is read again.
           IF "NoexpandLostUnderExpandOnce" \in Deviations /\ k.ok
           THEN [ok |-> TRUE, s |-> <<Unflag(k.s[1])>> \o Tail(k.s)] ELSE k
      [] OTHER -> [ok |-> TRUE, s |-> s]

\* The reader: deliver fully expanded tokens.
RECURSIVE Ref(_, _)
Ref(s, out) ==
  IF s = <<>> THEN [out |-> out, err |-> ""]
  ELSE LET h == s[1] r == Tail(s) IN
    IF h.nx THEN Ref(r, Append(out, Tok("u", IF h.t = "m" THEN h.c ELSE IF h.t = "xa" THEN 100 ELSE 101)))
    ELSE IF h.t = "x" THEN Ref(r, Append(out, Strip(h)))
    ELSE IF h.t = "nx" THEN \* read by the main loop itself (get_x_token): always flags
         LET k == RNoExpand(r) IN IF k.ok THEN Ref(k.s, out) ELSE Err(out)
    ELSE LET k == RExpandOnce(s) IN IF k.ok THEN Ref(k.s, out) ELSE Err(out)

RefRun(toks) == Ref([i \in 1..Len(toks) |-> F(toks[i])], <<>>)

------------------------------------------------------------------------------
(* Implementation layer.  Streams are plain token sequences.  which = "simple" | "optimized" *)
UTok(tk) == Tok("u", IF tk.t = "m" THEN tk.c ELSE IF tk.t = "xa" THEN 100 ELSE 101)

IMacro(m, s) == IF Arity(m) = 0 THEN [ok |-> TRUE, s |-> Body(m) \o s]
                ELSE IF s = <<>> THEN [ok |-> FALSE, s |-> s]
                ELSE [ok |-> TRUE, s |-> Subst(Body(m), s[1]) \o Tail(s)]

\* length of the maximal prefix t1 xa t2 xa ... tn of s (after the first \expandafter was removed)
\* collected by the optimized built-in: returns n such that s[2k] = xa for k < n
RECURSIVE ChainLen(_, _)
ChainLen(s, n) == IF Len(s) >= 2 * n /\ s[2 * n].t = "xa" THEN ChainLen(s, n + 1) ELSE n

RECURSIVE IExpandOnce(_, _)
RECURSIVE IExpandAfter(_, _)
IExpandAfter(s, which) ==
  IF which = "simple"
  THEN IF Len(s) < 2 THEN [ok |-> FALSE, s |-> s]
       ELSE LET r == IExpandOnce(Tail(s), which) IN
            IF r.ok THEN [ok |-> TRUE, s |-> <<s[1]>> \o r.s] ELSE r
  ELSE LET n == ChainLen(s, 1)      \* tokens t1..tn are s[1], s[3], ..., s[2n-1]
           firsts == [k \in 1..n |-> s[2 * k - 1]]
       IN IF Len(s) < 2 * n THEN [ok |-> FALSE, s |-> s]
          ELSE LET r == IExpandOnce(SubSeq(s, 2 * n, Len(s)), which) IN
               IF r.ok THEN [ok |-> TRUE,
                             s |-> (IF Bug = "ChainReversed" THEN [k \in 1..n |-> firsts[n + 1 - k]] ELSE firsts) \o r.s]
               ELSE r

IExpandOnce(s, which) ==
  IF s = <<>> THEN [ok |-> TRUE, s |-> s]
  ELSE LET h == s[1] r == Tail(s) IN
    CASE h.t = "m" -> IMacro(h.c, r)
      [] h.t = "xa" -> IExpandAfter(r, which)
      [] h.t = "nx" -> IF r = <<>> THEN [ok |-> FALSE, s |-> r] ELSE [ok |-> TRUE, s |-> r]
      [] OTHER -> [ok |-> TRUE, s |-> s]

RECURSIVE IRun(_, _, _)
IRun(s, out, which) ==
  IF s = <<>> THEN [out |-> out, err |-> ""]
  ELSE LET h == s[1] r == Tail(s) IN
    CASE h.t = "x" -> IRun(r, Append(out, h), which)
      [] h.t = "nx" ->    \* next_expanded: the hook's token is returned to the main loop as is
           IF r = <<>> THEN Err(out)
           ELSE IRun(Tail(r), Append(out, IF Expandable(r[1]) THEN UTok(r[1]) ELSE r[1]), which)
      [] OTHER -> LET k == IExpandOnce(s, which) IN IF k.ok THEN IRun(k.s, out, which) ELSE Err(out)

ImplRun(toks, which) == IRun(toks, <<>>, which)
==============================================================================
