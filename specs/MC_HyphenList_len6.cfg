SPECIFICATION Spec
CONSTANTS
  MaxHn = 3
  Bug = ""
  Alphabet <- AlphabetCore
  MaxLen = 6
  LH = 1
  RH = 1
  Devs <- NoDevs
INVARIANTS MachineIsDefinition EveryGlueSearched SearchStaysBeforeNextGlue CollectInv WordsAreRuns
CHECK_DEADLOCK FALSE
