---------------------------- MODULE MC_TexVM_Lex ----------------------------
(* TLC alone: the one-token-at-a-time lexer of the composed model (TexVM!LexTok, the reader of "the lexer in   *)
(* the loop") delivers, token for token and position for position, what the lexer specification C03 binds to   *)
(* lexer.rs delivers for the whole file (TexLexer!Lex) - on every text up to N characters over the role        *)
(* alphabet of MC_TexLexer and every line end.  And a change of category codes that changes nothing (the same  *)
(* table again) leaves the tokens as they are wherever reading is interrupted and resumed (Resumed).           *)
EXTENDS Integers, Sequences, TLC
CONSTANT N
V == INSTANCE TexVM WITH Deviations <- {}
L == INSTANCE TexLexer WITH Deviations <- {}, Bug <- ""
Table == << <<92, 0>>, <<97, 11>>, <<77, 11>>, <<32, 10>>, <<94, 7>>, <<37, 14>>, <<13, 5>>, <<0, 9>>, <<127, 15>> >>
Sigma == {92, 97, 77, 32, 94, 37, 233, 127, 10}
Elcs == {-1, 13, 97, 94}
VARIABLES txt, elc
Init == txt \in UNION { [1..n -> Sigma] : n \in 0..N } /\ elc \in Elcs
Next == UNCHANGED <<txt, elc>>
Spec == Init /\ [][Next]_<<txt, elc>>

RECURSIVE Split(_, _)
Split(s, cur) == IF s = <<>> THEN (IF cur = <<>> THEN <<>> ELSE <<cur>>)
                 ELSE IF Head(s) = 10 THEN <<cur>> \o Split(Tail(s), <<>>)
                 ELSE Split(Tail(s), Append(cur, Head(s)))

\* all events from lexer state S on
RECURSIVE Steps(_, _)
Steps(S, lines) == LET r == V!LexTok(S, lines, Table, elc) IN
                   IF r.none THEN << >> ELSE << r.ev >> \o Steps(r.ls, lines)
\* the lexer states after 0, 1, 2, ... tokens
RECURSIVE States(_, _)
States(S, lines) == LET r == V!LexTok(S, lines, Table, elc) IN
                    IF r.none THEN << S >> ELSE << S >> \o States(r.ls, lines)

StepwiseIsWhole ==
  LET lines == Split(txt, <<>>) IN Steps(V!LS0, lines) = L!Lex(lines, Table, elc)
\* resuming from the state behind the k-th token yields the tokens after the k-th
Resumed ==
  LET lines == Split(txt, <<>>)
      all == Steps(V!LS0, lines)
      sts == States(V!LS0, lines) IN
  \A k \in 0..Len(all) : Steps(sts[k + 1], lines) = SubSeq(all, k + 1, Len(all))
SomeTextHasThreeTokens == ~(Len(Steps(V!LS0, Split(txt, <<>>))) >= 3)
=============================================================================
