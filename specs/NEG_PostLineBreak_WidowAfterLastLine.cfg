SPECIFICATION Spec
CONSTANTS
  NodeKinds <- KindsAll
  MaxLen = 1
  Configs <- ConfigsQuick
  TexDevs <- NoDevs
  Bug = "WidowAfterLastLine"
INVARIANTS Penalties
CHECK_DEADLOCK FALSE
