--------------------------- MODULE LigKernCompile ---------------------------
(***************************************************************************)
(* compiler.rs, calculate_replacements, as a state machine.                *)
(*                                                                         *)
(* The first loop turns every pair that has an instruction into either a   *)
(* finished Replacement (result) or an OngoingCalculation (actionable) and *)
(* registers the pair in node_to_parents (parents).  The work loop pops a  *)
(* calculation; if the pair it needs next (its child) is itself still      *)
(* unfinished the calculation is parked in parents[child], otherwise the   *)
(* child's replacement (or its absence) is folded in and the calculation   *)
(* either continues with its second pending pair or finishes, which        *)
(* re-activates everything parked on it.  What is left in parents when     *)
(* actionable runs empty is reported as infinite loops.                    *)
(*                                                                         *)
(* The order in which calculations are popped depends on HashMap iteration *)
(* order in the real code; here `Pop` takes ANY actionable calculation, so *)
(* TLC explores every order (a superset of the real stack discipline).     *)
(*                                                                         *)
(* Checked when the work list is empty (Final):                            *)
(*   TableIsRepl    result is exactly the recursive definition Repl of     *)
(*                  LigKernImpl (which MC_LigKern relates to TeX's loop)   *)
(*   LeftoverIsLoop the unfinished pairs are exactly LoopPairs (TFtoPL f   *)
(*                  undefined), in every processing order                  *)
(***************************************************************************)
EXTENDS LigKernSpace, TLC

VARIABLES cprog,       \* the program being compiled
          result,      \* function: finished pairs -> [ops, last]
          actionable,  \* set of OngoingCalculations [node, fin, p0, p1, p2]
          parents      \* function: unfinished pairs -> set of calculations parked on them
cvars == <<cprog, result, actionable, parents>>

FormOf(P, pr) == LET i == Lookup(P, pr[1], pr[2]) IN Form(pr[1], pr[2], Ins(P, i)[3], Ins(P, i)[4])

CInit ==
  /\ \E S \in RuleSets : \E a \in [S -> Acts] : cprog = Layout(S, a, NonChar)
  /\ LET RP   == RulePairs(cprog)
         done == {pr \in RP : FormOf(cprog, pr).done}
     IN /\ result = [pr \in done |-> [ops |-> FormOf(cprog, pr).fin, last |-> FormOf(cprog, pr).last]]
        /\ actionable = {LET f == FormOf(cprog, pr) IN [node |-> pr, fin |-> f.fin, p0 |-> f.p0, p1 |-> f.p1, p2 |-> f.p2]
                         : pr \in RP \ done}
        /\ parents = [pr \in RP \ done |-> {}]

Child(c) == <<c.p0.c, c.p1.c>>

\* "if let Some(blocking) = node_to_parents.get_mut(&child) { blocking.push(calc); continue; }"
Blocked(c) ==
  /\ Child(c) \in DOMAIN parents
  /\ Bug # "IgnoreBlocked"
  /\ parents' = [parents EXCEPT ![Child(c)] = @ \cup {c}]
  /\ actionable' = actionable \ {c}
  /\ UNCHANGED <<cprog, result>>

Settled(c) == LET ch == Child(c) IN
              IF ch \in DOMAIN result THEN [st |-> "ok", ops |-> result[ch].ops, last |-> result[ch].last]
              ELSE [st |-> "none"]

\* the calculation has a second pending pair: continue with (last, p2)
Advance(c) ==
  /\ Child(c) \notin DOMAIN parents \/ Bug = "IgnoreBlocked"
  /\ c.p2.c # -1
  /\ LET s == Resolve(c.fin, c.p0, c.p1, Settled(c)) IN
     actionable' = (actionable \ {c}) \cup {[c EXCEPT !.fin = s.fin, !.p0 = s.last, !.p1 = c.p2, !.p2 = NoC]}
  /\ UNCHANGED <<cprog, result, parents>>

\* the calculation is complete: publish it and wake up whatever was parked on it
Finish(c) ==
  /\ Child(c) \notin DOMAIN parents \/ Bug = "IgnoreBlocked"
  /\ c.p2.c = -1
  /\ LET s == Resolve(c.fin, c.p0, c.p1, Settled(c)) IN
     /\ result' = [pr \in DOMAIN result \cup {c.node} |->
                     IF pr = c.node THEN [ops |-> s.fin, last |-> s.last] ELSE result[pr]]
     /\ actionable' = (actionable \ {c}) \cup (IF Bug = "ForgetParents" THEN {} ELSE parents[c.node])
     /\ parents' = [pr \in DOMAIN parents \ {c.node} |-> parents[pr]]
  /\ UNCHANGED cprog

Park     == \E c \in actionable : Blocked(c)
Continue == \E c \in actionable : Advance(c)
Complete == \E c \in actionable : Finish(c)
CNext == Park \/ Continue \/ Complete
CSpec == CInit /\ [][CNext]_cvars

-----------------------------------------------------------------------------
Final == actionable = {}

TableIsRepl ==
  Final => \A pr \in RulePairs(cprog) :
             LET r == Repl(cprog, pr[1], pr[2], {}) IN
             IF r.st = "ok" THEN pr \in DOMAIN result /\ result[pr].ops = r.ops /\ result[pr].last = r.last
             ELSE pr \notin DOMAIN result

LeftoverIsLoop == Final => DOMAIN parents = LoopPairs(cprog)

\* every calculation is in exactly one place; a finished pair is never unfinished again
Conservation ==
  /\ DOMAIN result \cap DOMAIN parents = {}
  /\ DOMAIN result \cup DOMAIN parents = RulePairs(cprog)
  /\ LET parked == UNION {parents[pr] : pr \in DOMAIN parents} IN
     /\ actionable \cap parked = {}
     /\ {c.node : c \in actionable \cup parked} = DOMAIN parents
=============================================================================
