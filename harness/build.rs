// Tells the sources where the texcraft checkout is: the directory the `tfm` path dependency of
// Cargo.toml points into (…/crates/tfm).  Exported as the compile-time variable VH_REPO.
fn main() {
    let manifest = std::fs::read_to_string("Cargo.toml").expect("Cargo.toml");
    let mut root = String::from("/repo");
    for line in manifest.lines() {
        if line.trim_start().starts_with("tfm ") || line.trim_start().starts_with("tfm=") {
            if let Some(i) = line.find("path") {
                if let Some(q1) = line[i..].find('"') {
                    let rest = &line[i + q1 + 1..];
                    if let Some(q2) = rest.find('"') {
                        let p = &rest[..q2];
                        if let Some(k) = p.rfind("/crates/") {
                            root = p[..k].to_string();
                        }
                    }
                }
            }
        }
    }
    println!("cargo:rustc-env=VH_REPO={root}");
    println!("cargo:rerun-if-changed=Cargo.toml");
}
