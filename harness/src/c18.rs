//! C18: the Box language (boxworks::lang) -- bindings R and F against specs/BoxLang.tla.
//!
//! Nothing is decided here.  Every subcommand calls the real printer (`ToBoxLang` + `cst::pretty_print`,
//! `Display` of `ds::Horizontal` / `ds::VBox`), the real parser (`lang::parse_horizontal_list`, and the
//! vertical counterpart assembled from `cst::parse` + `ast::parse_vbox_using_cst` exactly like
//! `ast::parse_hbox` does) and the real `lang::format`, and writes one ndjson event per call for
//! specs/Trace_BoxLang.tla to judge:
//!
//! ```json
//! {"ev":"rt","m":"h","how":"vec","list":[..abstract nodes..],"out":{"text":[code points]},"blen":N,"back":RES}
//! {"ev":"parse","m":"h","text":[code points],"blen":N,"res":RES}
//! {"ev":"format","text":[..],"blen":N,"res":{"ok":[code points],"again":RES'} | {"errs":..} | {"panic":..}}
//! RES = {"ok":[..abstract nodes..]} | {"errs":[{"c":class,"fn":[..],"arg":[..],"got":"..","spans":[[a,b],..]}]}
//!     | {"panic":[source file, normalised message]}
//! ```
//!
//! Abstract nodes are the records of BoxLang.tla (k = char glue kern penalty rule lig disc hbox vbox mark
//! adjust ins math); `abs_*` project ds values to them and `ds_*` build ds values from them -- plain data
//! conversions.  Texts travel as arrays of code points because TLC has no characters.
use crate::util::{catch, quiet_panics, Args, Out, Rng};
use boxworks::ds;
use boxworks::lang as bwl;
use bwl::convert::{ToBoxLang, ToBoxworks};
use common::{GlueOrder, Scaled};
use serde_json::{json, Map, Value};
use std::collections::BTreeMap;

pub fn dispatch(cmd: &str, args: &Args) -> Option<i32> {
    Some(match cmd {
        "c18-replay" => replay_cases(args),
        "c18-lists" => random_lists(args),
        "c18-texts" => random_texts(args),
        "c18-one" => one(args),
        "c18-deep" => deep(args),
        _ => return None,
    })
}

// ------------------------------------------------------------------------------------------
// text <-> code points, panics
// ------------------------------------------------------------------------------------------
fn cps(s: &str) -> Value {
    Value::Array(s.chars().map(|c| json!(c as u32)).collect())
}

fn from_cps(v: &Value) -> String {
    v.as_array()
        .map(|a| {
            a.iter()
                .map(|x| char::from_u32(x.as_u64().unwrap_or(0xFFFD) as u32).unwrap_or('\u{FFFD}'))
                .collect()
        })
        .unwrap_or_default()
}

/// Panic message without the parts that vary from input to input: digit runs become N, cut at 80.
fn norm_panic(p: &(String, String)) -> Value {
    let mut out = String::new();
    let mut in_digits = false;
    for c in p.1.chars() {
        if c.is_ascii_digit() {
            if !in_digits {
                out.push('N');
            }
            in_digits = true;
        } else {
            in_digits = false;
            out.push(c);
        }
    }
    let msg: String = out.chars().take(80).collect();
    json!([p.0, msg])
}

// ------------------------------------------------------------------------------------------
// abstract lists <-> ds
// ------------------------------------------------------------------------------------------
fn ord(o: GlueOrder) -> i64 {
    match o {
        GlueOrder::Normal => 0,
        GlueOrder::Fil => 1,
        GlueOrder::Fill => 2,
        GlueOrder::Filll => 3,
    }
}

fn order_of(o: i64) -> GlueOrder {
    match o {
        0 => GlueOrder::Normal,
        1 => GlueOrder::Fil,
        2 => GlueOrder::Fill,
        _ => GlueOrder::Filll,
    }
}

fn abs_char(c: &ds::Char) -> Value {
    json!({"k":"char","c":c.char as u32,"f":c.font as i32})
}

fn abs_glue(g: &ds::Glue) -> Value {
    let mut v = json!({"k":"glue","w":g.value.width.0,"st":g.value.stretch.0,"sto":ord(g.value.stretch_order),
                       "sh":g.value.shrink.0,"sho":ord(g.value.shrink_order)});
    if g.kind != ds::GlueKind::Normal {
        v["kind"] = json!(format!("{:?}", g.kind)); // the language cannot say this: forces a mismatch
    }
    v
}

fn abs_kern(k: &ds::Kern) -> Value {
    let mut v = json!({"k":"kern","w":k.width.0});
    if k.kind != ds::KernKind::Normal {
        v["kind"] = json!(format!("{:?}", k.kind));
    }
    v
}

fn abs_rule(r: &ds::Rule) -> Value {
    json!({"k":"rule","h":r.height.0,"w":r.width.0,"d":r.depth.0})
}

fn abs_lig(l: &ds::Ligature) -> Value {
    json!({"k":"lig","c":l.char as u32,"orig":cps(&l.original_chars),"f":l.font as i32,
           "lb":l.includes_left_boundary,"rb":l.includes_right_boundary})
}

fn abs_ratio(r: &ds::GlueRatio) -> Value {
    if r.den == Scaled::ONE {
        json!(r.num.0)
    } else if r.num.0 == 0 && r.den.0 != 0 {
        json!(0)
    } else {
        json!({"num":r.num.0,"den":r.den.0}) // not a value the language writes: forces a mismatch
    }
}

fn abs_hbox(b: &ds::HBox) -> Value {
    json!({"k":"hbox","h":b.height.0,"w":b.width.0,"d":b.depth.0,"s":b.shift_amount.0,
           "gr":abs_ratio(&b.glue_ratio),"go":ord(b.glue_order),"list":abs_hlist(&b.list)})
}

fn abs_vbox(b: &ds::VBox) -> Value {
    let mut v = json!({"k":"vbox","h":b.height.0,"w":b.width.0,"d":b.depth.0,"s":b.shift_amount.0,
                       "list":abs_vlist(&b.list)});
    if b.glue_ratio.num.0 != 0 || b.glue_order != GlueOrder::Normal {
        v["set"] = json!([b.glue_ratio.num.0, b.glue_ratio.den.0, ord(b.glue_order)]);
    }
    v
}

fn abs_ins(i: &ds::Insertion) -> Value {
    let g = &i.split_top_skip;
    json!({"k":"ins","box":i.box_number,"h":i.height.0,"smd":i.split_max_depth.0,"tw":g.width.0,
           "tst":g.stretch.0,"tsto":ord(g.stretch_order),"tsh":g.shrink.0,"tsho":ord(g.shrink_order),
           "fp":i.float_penalty as i32,"list":abs_vlist(&i.vbox)})
}

fn abs_mark(m: &ds::Mark) -> Value {
    let mut v = json!({"k":"mark"});
    if !m.list.is_empty() {
        v["len"] = json!(m.list.len());
    }
    v
}

fn abs_math(m: &ds::Math) -> Value {
    json!({"k":"math","after":*m == ds::Math::After})
}

fn abs_h(e: &ds::Horizontal) -> Value {
    use ds::Horizontal::*;
    match e {
        Char(c) => abs_char(c),
        HBox(b) => abs_hbox(b),
        VBox(b) => abs_vbox(b),
        Rule(r) => abs_rule(r),
        Mark(m) => abs_mark(m),
        Insertion(i) => abs_ins(i),
        Adjust(a) => json!({"k":"adjust","list":abs_vlist(&a.list)}),
        Ligature(l) => abs_lig(l),
        Discretionary(d) => json!({"k":"disc","pre":abs_dlist(&d.pre_break),"post":abs_dlist(&d.post_break),
                                   "n":d.replace_count as i32}),
        Whatsit(_) => json!({"k":"whatsit"}),
        Math(m) => abs_math(m),
        Glue(g) => abs_glue(g),
        Kern(k) => abs_kern(k),
        Penalty(p) => json!({"k":"penalty","v":p.0}),
    }
}

fn abs_v(e: &ds::Vertical) -> Value {
    use ds::Vertical::*;
    match e {
        HBox(b) => abs_hbox(b),
        VBox(b) => abs_vbox(b),
        Rule(r) => abs_rule(r),
        Mark(m) => abs_mark(m),
        Insertion(i) => abs_ins(i),
        Whatsit(_) => json!({"k":"whatsit"}),
        Math(m) => abs_math(m),
        Glue(g) => abs_glue(g),
        Kern(k) => abs_kern(k),
        Penalty(p) => json!({"k":"penalty","v":p.0}),
    }
}

fn abs_d(e: &ds::DiscretionaryElem) -> Value {
    use ds::DiscretionaryElem::*;
    match e {
        Char(c) => abs_char(c),
        HBox(b) => abs_hbox(b),
        VBox(b) => abs_vbox(b),
        Rule(r) => abs_rule(r),
        Ligature(l) => abs_lig(l),
        Kern(k) => abs_kern(k),
    }
}

fn abs_hlist(l: &[ds::Horizontal]) -> Value {
    Value::Array(l.iter().map(abs_h).collect())
}
fn abs_vlist(l: &[ds::Vertical]) -> Value {
    Value::Array(l.iter().map(abs_v).collect())
}
fn abs_dlist(l: &[ds::DiscretionaryElem]) -> Value {
    Value::Array(l.iter().map(abs_d).collect())
}

fn gi(v: &Value, k: &str) -> i32 {
    v[k].as_i64().unwrap_or_else(|| panic!("harness: field {k} missing in {v}")) as i32
}

fn ds_char(v: &Value) -> ds::Char {
    ds::Char { char: char::from_u32(gi(v, "c") as u32).expect("scalar"), font: gi(v, "f") as u32 }
}
fn ds_glue(v: &Value) -> ds::Glue {
    ds::Glue {
        value: common::Glue {
            width: Scaled(gi(v, "w")),
            stretch: Scaled(gi(v, "st")),
            stretch_order: order_of(gi(v, "sto") as i64),
            shrink: Scaled(gi(v, "sh")),
            shrink_order: order_of(gi(v, "sho") as i64),
        },
        kind: ds::GlueKind::Normal,
    }
}
fn ds_kern(v: &Value) -> ds::Kern {
    ds::Kern { width: Scaled(gi(v, "w")), kind: ds::KernKind::Normal }
}
fn ds_rule(v: &Value) -> ds::Rule {
    ds::Rule { height: Scaled(gi(v, "h")), width: Scaled(gi(v, "w")), depth: Scaled(gi(v, "d")) }
}
fn ds_lig(v: &Value) -> ds::Ligature {
    ds::Ligature {
        char: char::from_u32(gi(v, "c") as u32).expect("scalar"),
        font: gi(v, "f") as u32,
        original_chars: from_cps(&v["orig"]).into(),
        includes_left_boundary: v["lb"].as_bool().unwrap(),
        includes_right_boundary: v["rb"].as_bool().unwrap(),
    }
}
fn ds_hbox(v: &Value) -> ds::HBox {
    ds::HBox {
        height: Scaled(gi(v, "h")),
        width: Scaled(gi(v, "w")),
        depth: Scaled(gi(v, "d")),
        shift_amount: Scaled(gi(v, "s")),
        list: ds_hlist(&v["list"]),
        glue_ratio: ds::GlueRatio { num: Scaled(gi(v, "gr")), den: Scaled::ONE },
        glue_order: order_of(gi(v, "go") as i64),
    }
}
fn ds_vbox(v: &Value) -> ds::VBox {
    ds::VBox {
        height: Scaled(gi(v, "h")),
        width: Scaled(gi(v, "w")),
        depth: Scaled(gi(v, "d")),
        shift_amount: Scaled(gi(v, "s")),
        list: ds_vlist(&v["list"]),
        ..Default::default()
    }
}
fn ds_ins(v: &Value) -> ds::Insertion {
    ds::Insertion {
        box_number: gi(v, "box") as u8,
        height: Scaled(gi(v, "h")),
        split_max_depth: Scaled(gi(v, "smd")),
        split_top_skip: common::Glue {
            width: Scaled(gi(v, "tw")),
            stretch: Scaled(gi(v, "tst")),
            stretch_order: order_of(gi(v, "tsto") as i64),
            shrink: Scaled(gi(v, "tsh")),
            shrink_order: order_of(gi(v, "tsho") as i64),
        },
        float_penalty: gi(v, "fp") as u32,
        vbox: ds_vlist(&v["list"]),
    }
}
fn ds_math(v: &Value) -> ds::Math {
    if v["after"].as_bool().unwrap() {
        ds::Math::After
    } else {
        ds::Math::Before
    }
}
fn kind(v: &Value) -> &str {
    v["k"].as_str().unwrap_or("?")
}
fn ds_h(v: &Value) -> ds::Horizontal {
    match kind(v) {
        "char" => ds_char(v).into(),
        "glue" => ds_glue(v).into(),
        "kern" => ds_kern(v).into(),
        "penalty" => ds::Penalty(gi(v, "v")).into(),
        "rule" => ds_rule(v).into(),
        "lig" => ds_lig(v).into(),
        "disc" => ds::Discretionary {
            pre_break: ds_dlist(&v["pre"]),
            post_break: ds_dlist(&v["post"]),
            replace_count: gi(v, "n") as u32,
        }
        .into(),
        "hbox" => ds_hbox(v).into(),
        "vbox" => ds_vbox(v).into(),
        "mark" => ds::Mark { list: vec![] }.into(),
        "adjust" => ds::Adjust { list: ds_vlist(&v["list"]) }.into(),
        "ins" => ds_ins(v).into(),
        "math" => ds_math(v).into(),
        k => panic!("harness: no horizontal node kind {k}"),
    }
}
fn ds_v(v: &Value) -> ds::Vertical {
    match kind(v) {
        "glue" => ds_glue(v).into(),
        "kern" => ds_kern(v).into(),
        "penalty" => ds::Penalty(gi(v, "v")).into(),
        "rule" => ds_rule(v).into(),
        "hbox" => ds_hbox(v).into(),
        "vbox" => ds_vbox(v).into(),
        "mark" => ds::Mark { list: vec![] }.into(),
        "ins" => ds_ins(v).into(),
        "math" => ds_math(v).into(),
        k => panic!("harness: no vertical node kind {k}"),
    }
}
fn ds_d(v: &Value) -> ds::DiscretionaryElem {
    use ds::DiscretionaryElem as D;
    match kind(v) {
        "char" => D::Char(ds_char(v)),
        "kern" => D::Kern(ds_kern(v)),
        "rule" => D::Rule(ds_rule(v)),
        "lig" => D::Ligature(ds_lig(v)),
        "hbox" => D::HBox(ds_hbox(v)),
        "vbox" => D::VBox(ds_vbox(v)),
        k => panic!("harness: no discretionary node kind {k}"),
    }
}
fn arr(v: &Value) -> &[Value] {
    v.as_array().map(|a| a.as_slice()).unwrap_or(&[])
}
fn ds_hlist(v: &Value) -> Vec<ds::Horizontal> {
    arr(v).iter().map(ds_h).collect()
}
fn ds_vlist(v: &Value) -> Vec<ds::Vertical> {
    arr(v).iter().map(ds_v).collect()
}
fn ds_dlist(v: &Value) -> Vec<ds::DiscretionaryElem> {
    arr(v).iter().map(ds_d).collect()
}

// ------------------------------------------------------------------------------------------
// the real operations
// ------------------------------------------------------------------------------------------
enum L {
    H(Vec<ds::Horizontal>),
    V(Vec<ds::Vertical>),
}

impl L {
    fn mode(&self) -> &'static str {
        match self {
            L::H(_) => "h",
            L::V(_) => "v",
        }
    }
    fn abs(&self) -> Value {
        match self {
            L::H(l) => abs_hlist(l),
            L::V(l) => abs_vlist(l),
        }
    }
    fn from_abs(m: &str, v: &Value) -> L {
        if m == "h" {
            L::H(ds_hlist(v))
        } else {
            L::V(ds_vlist(v))
        }
    }
}

/// The real printers.  "vec": the list converted as a whole (`Vec<_>::to_box_lang`, then the CST pretty
/// printer); "elem": `Display` of each element in turn (what boxworks-testing's normalize does).
fn print_list(l: &L, how: &str) -> Result<String, (String, String)> {
    use std::fmt::Write;
    catch(|| {
        let mut s = String::new();
        match (l, how) {
            (L::H(list), "vec") => {
                let a = list.to_box_lang();
                bwl::cst::pretty_print(&mut s, bwl::ast::lower_hbox(&a)).expect("writing to a string");
            }
            (L::H(list), _) => {
                for e in list {
                    // a lone vbox also goes through Display of ds::VBox
                    match e {
                        ds::Horizontal::VBox(b) if list.len() == 1 => write!(s, "{}", b).unwrap(),
                        _ => write!(s, "{}", e).unwrap(),
                    }
                }
            }
            (L::V(list), "vec") => {
                let a = list.to_box_lang();
                bwl::cst::pretty_print(&mut s, bwl::ast::lower_vbox(&a)).expect("writing to a string");
            }
            (L::V(list), _) => {
                for e in list {
                    write!(s, "{}", e.to_box_lang()).unwrap();
                }
            }
        }
        s
    })
}

fn err_json(text: &str, e: &bwl::Error) -> Value {
    use bwl::Error::*;
    let class = format!("{e:?}");
    let class = class.split(|c: char| !c.is_alphanumeric()).next().unwrap_or("").to_string();
    let s = |x: &dyn std::fmt::Display| cps(&x.to_string());
    let none = || json!([]);
    let (fnm, arg, got) = match e {
        NoSuchFunction { function_name } => (s(function_name), none(), ""),
        NoSuchArgument { function_name, argument } => (s(function_name), s(argument), ""),
        DuplicateArgument { parameter_name, .. } => (none(), cps(parameter_name), ""),
        IncorrectType { function_name, parameter_name, got_type, .. } => (
            s(function_name),
            cps(parameter_name),
            match *got_type {
                "a list" => "list",
                "an integer" => "int",
                "a number" => "dim",
                "an infinite glue" => "inf",
                "a string" => "str",
                other => other,
            },
        ),
        TooManyPositionalArgs { function_name, .. } => (s(function_name), none(), ""),
        _ => (none(), none(), ""),
    };
    let spans: Vec<Value> = e
        .labels()
        .iter()
        .map(|l| {
            let (a, b) = (l.span.start, l.span.end);
            // a span that does not fall on character boundaries does not locate anything
            if a <= b && b <= text.len() && text.is_char_boundary(a) && text.is_char_boundary(b) {
                json!([a, b])
            } else {
                json!([-1, -1])
            }
        })
        .collect();
    json!({"c":class,"fn":fnm,"arg":arg,"got":got,"spans":spans})
}

fn parse_v(text: &str) -> Result<Vec<ds::Vertical>, Vec<bwl::Error<'_>>> {
    // the vertical counterpart of ast::parse_hbox, from the same public pieces
    let errs: bwl::ErrorAccumulator = Default::default();
    let calls = bwl::cst::parse(text, errs.clone());
    let v = bwl::ast::parse_vbox_using_cst(calls, &errs);
    errs.check()?;
    Ok(v.to_boxworks())
}

fn parse_res(m: &str, text: &str) -> Value {
    let r = catch(|| {
        if m == "h" {
            match bwl::parse_horizontal_list(text) {
                Ok(l) => json!({"ok":abs_hlist(&l)}),
                Err(es) => json!({"errs":es.iter().map(|e| err_json(text, e)).collect::<Vec<_>>()}),
            }
        } else {
            match parse_v(text) {
                Ok(l) => json!({"ok":abs_vlist(&l)}),
                Err(es) => json!({"errs":es.iter().map(|e| err_json(text, e)).collect::<Vec<_>>()}),
            }
        }
    });
    match r {
        Ok(v) => v,
        Err(p) => json!({"panic":norm_panic(&p)}),
    }
}

fn format_res(text: &str, again: bool) -> Value {
    let r = catch(|| match bwl::format(text) {
        Ok(s) => Ok(s),
        Err(es) => Err(json!({"errs":es.iter().map(|e| err_json(text, e)).collect::<Vec<_>>()})),
    });
    match r {
        Ok(Ok(s)) => {
            if again {
                json!({"ok":cps(&s),"again":format_res(&s, false)})
            } else {
                json!({"ok":cps(&s)})
            }
        }
        Ok(Err(v)) => v,
        Err(p) => json!({"panic":norm_panic(&p)}),
    }
}

// ------------------------------------------------------------------------------------------
// events and statistics
// ------------------------------------------------------------------------------------------
#[derive(Default)]
struct Stats {
    n: BTreeMap<String, u64>,
    distinct: std::collections::HashSet<u64>,
    longest_text: usize,
    deepest: usize,
    sample_panics: BTreeMap<String, String>,
}

impl Stats {
    fn inc(&mut self, k: &str) {
        *self.n.entry(k.to_string()).or_default() += 1;
    }
    fn seen(&mut self, s: &str) -> bool {
        use std::hash::{Hash, Hasher};
        let mut h = std::collections::hash_map::DefaultHasher::new();
        s.hash(&mut h);
        !self.distinct.insert(h.finish())
    }
    fn note_res(&mut self, what: &str, res: &Value, text: &str) {
        let k = if res.get("ok").is_some() {
            "ok"
        } else if res.get("errs").is_some() {
            "errs"
        } else {
            "panic"
        };
        self.inc(&format!("{what}.{k}"));
        if let Some(es) = res.get("errs").and_then(|e| e.as_array()) {
            for e in es {
                self.inc(&format!("err.{}", e["c"].as_str().unwrap_or("?")));
            }
        }
        if let Some(p) = res.get("panic") {
            self.sample_panics.entry(p.to_string()).or_insert_with(|| text.chars().take(200).collect());
        }
    }
    fn write(&self, args: &Args, gen: &str) {
        if let Some(p) = args.str("stats") {
            let v = json!({"gen":gen,"counts":self.n,"distinct":self.distinct.len(),"longest_text":self.longest_text,
                           "deepest_list":self.deepest,"panics":self.sample_panics});
            std::fs::write(p, serde_json::to_string_pretty(&v).unwrap()).unwrap();
        }
    }
}

fn depth_of(v: &Value) -> usize {
    match v {
        Value::Array(a) => a.iter().map(depth_of).max().unwrap_or(0),
        Value::Object(o) => {
            let inner = ["list", "pre", "post"].iter().filter_map(|k| o.get(*k)).map(depth_of).max();
            match inner {
                Some(d) => 1 + d,
                None => 0,
            }
        }
        _ => 0,
    }
}

fn count_kinds(v: &Value, st: &mut Stats) {
    match v {
        Value::Array(a) => a.iter().for_each(|x| count_kinds(x, st)),
        Value::Object(o) => {
            if let Some(k) = o.get("k").and_then(|k| k.as_str()) {
                st.inc(&format!("node.{k}"));
            }
            for k in ["list", "pre", "post"] {
                if let Some(x) = o.get(k) {
                    count_kinds(x, st);
                }
            }
        }
        _ => {}
    }
}

/// print list `l` with printer `how`, parse the text back, record the event
fn emit_rt(out: &mut Out, st: &mut Stats, l: &L, how: &str) -> Option<String> {
    let abs = l.abs();
    st.deepest = st.deepest.max(depth_of(&abs));
    count_kinds(&abs, st);
    match print_list(l, how) {
        Ok(text) => {
            let back = parse_res(l.mode(), &text);
            st.note_res("rt.back", &back, &text);
            st.longest_text = st.longest_text.max(text.len());
            out.line(&json!({"ev":"rt","m":l.mode(),"how":how,"list":abs,"out":{"text":cps(&text)},
                             "blen":text.len(),"back":back}));
            st.inc("rt");
            Some(text)
        }
        Err(p) => {
            st.inc("rt.print_panic");
            st.sample_panics.entry(norm_panic(&p).to_string()).or_insert_with(|| abs.to_string().chars().take(200).collect());
            out.line(&json!({"ev":"rt","m":l.mode(),"how":how,"list":abs,"out":{"panic":norm_panic(&p)},"blen":0}));
            st.inc("rt");
            None
        }
    }
}

fn emit_parse(out: &mut Out, st: &mut Stats, m: &str, text: &str) -> Value {
    let res = parse_res(m, text);
    st.note_res("parse", &res, text);
    st.longest_text = st.longest_text.max(text.len());
    out.line(&json!({"ev":"parse","m":m,"text":cps(text),"blen":text.len(),"res":res}));
    st.inc("parse");
    res
}

fn emit_format(out: &mut Out, st: &mut Stats, text: &str) {
    let res = format_res(text, true);
    st.note_res("format", &res, text);
    out.line(&json!({"ev":"format","text":cps(text),"blen":text.len(),"res":res}));
    st.inc("format");
}

// ------------------------------------------------------------------------------------------
// binding R: cases printed by TLC from the model's domain (REPLAY_BoxLang_*.cfg)
// ------------------------------------------------------------------------------------------
/// TLC's ToJson writes a function with domain 1..n as an object {"1":..,"2":..}; make it an array again.
fn tuples(v: &Value) -> Value {
    match v {
        Value::Array(a) => Value::Array(a.iter().map(tuples).collect()),
        Value::Object(o) => {
            let n = o.len();
            if n > 0 && (1..=n).all(|i| o.contains_key(&i.to_string())) {
                Value::Array((1..=n).map(|i| tuples(&o[&i.to_string()])).collect())
            } else {
                Value::Object(o.iter().map(|(k, x)| (k.clone(), tuples(x))).collect::<Map<_, _>>())
            }
        }
        x => x.clone(),
    }
}

/// in=<cases.ndjson> out=<events.ndjson> diff=<mismatches.ndjson>
/// list case {"t":"list","m","list","calls"}: build the ds list, print it both ways, parse back -> rt events
/// prog case {"t":"prog","m","p","st","text","want":{"list","errs"}}: parse the text the model rendered and
///   compare with `want` (trivial equality; every mismatch goes to `diff`); parse + format events as well
fn replay_cases(args: &Args) -> i32 {
    quiet_panics();
    let src = std::fs::read_to_string(args.req("in")).expect("cases");
    let mut out = Out::new(args.str("out"));
    let mut diff = Out::new(args.str("diff"));
    let mut st = Stats::default();
    for line in src.lines().filter(|l| !l.trim().is_empty()) {
        let case = tuples(&serde_json::from_str::<Value>(line).expect("case"));
        let m = case["m"].as_str().unwrap_or("h").to_string();
        match case["t"].as_str() {
            Some("list") => {
                let l = L::from_abs(&m, &case["list"]);
                if l.abs() != case["list"] {
                    eprintln!("harness: projection is not the inverse of construction on {}", case["list"]);
                    return 2;
                }
                st.inc("case.list");
                for how in ["vec", "elem"] {
                    if let Some(text) = emit_rt(&mut out, &mut st, &l, how) {
                        if how == "vec" && !st.seen(&text) {
                            emit_format(&mut out, &mut st, &text);
                        }
                    }
                }
            }
            Some("prog") => {
                st.inc("case.prog");
                let text = from_cps(&case["text"]);
                let res = emit_parse(&mut out, &mut st, &m, &text);
                if m == "h" {
                    emit_format(&mut out, &mut st, &text);
                }
                // the comparison is equality with what TLC printed: the same list, or errors on both
                // sides (which errors is observed -- `same_errors` -- but not part of the property)
                let want = &case["want"];
                let want_errs = arr(&want["errs"]);
                let agrees = if want_errs.is_empty() {
                    res.get("ok") == Some(&want["list"])
                } else {
                    match res.get("errs").and_then(|e| e.as_array()) {
                        Some(es) => {
                            st.inc("case.prog.with_errors");
                            if es.len() == want_errs.len()
                                && es.iter().zip(want_errs).all(|(g, w)| {
                                    g["c"] == w["c"] && g["fn"] == w["fn"] && g["arg"] == w["arg"] && g["got"] == w["got"]
                                })
                            {
                                st.inc("case.prog.same_errors");
                            }
                            !es.is_empty()
                        }
                        None => false,
                    }
                };
                if !agrees {
                    st.inc("case.prog.differs");
                    diff.line(&json!({"m":m,"text":case["text"],"src":text,"want":want,"got":res}));
                }
            }
            _ => {
                eprintln!("harness: unknown case {line}");
                return 2;
            }
        }
    }
    st.write(args, "replay");
    0
}

// ------------------------------------------------------------------------------------------
// binding F, lists: random lists over every node kind and value range of the quantifier
// ------------------------------------------------------------------------------------------
const MAXD: i32 = (1 << 30) - 1;

fn g_scaled(r: &mut Rng) -> i32 {
    match r.below(12) {
        0 => 0,
        1 => 1,
        2 => -1,
        3 => MAXD,
        4 => -MAXD,
        5 => 65536 * r.range(-20, 20) as i32,
        6 => r.range(-70000, 70000) as i32,               // short values around one point
        7 => r.range(-(MAXD as i64), MAXD as i64) as i32, // anywhere
        8 => (r.range(0, 16383) as i32) * 65536 + r.range(0, 65535) as i32, // any fraction: long decimals
        9 => -((r.range(0, 16383) as i32) * 65536 + r.range(0, 65535) as i32),
        10 => [21845, 43691, 6554, 58982, 65535, 32768, 32767, 3, 7][r.below(9) as usize] * if r.chance(1, 2) { 1 } else { -1 },
        _ => MAXD - r.range(0, 70000) as i32,
    }
}

fn g_int(r: &mut Rng) -> i32 {
    match r.below(8) {
        0 => 0,
        1 => i32::MAX,
        2 => -i32::MAX,
        3 => 10000,
        4 => -10000,
        5 => r.range(-(i32::MAX as i64), i32::MAX as i64) as i32,
        _ => r.range(-300, 300) as i32,
    }
}

/// any Unicode scalar except the double quote
fn g_char(r: &mut Rng) -> char {
    loop {
        let c = match r.below(16) {
            0 | 1 | 2 => r.range(0x20, 0x7e) as u32,
            3 => r.range(0, 0x1f) as u32, // control characters incl. NUL, tab, newline, CR
            4 => *r.pick(&[0x5c, 0x27, 0x0a, 0x0d, 0x09, 0x00, 0x7f, 0x23, 0x5b, 0x5d, 0x28, 0x29, 0x2c, 0x3d]),
            5 => r.range(0x300, 0x36f) as u32, // combining marks
            6 => r.range(0x80, 0xff) as u32,   // C1 controls, no-break space, Latin-1
            7 => *r.pick(&[0xa0, 0xad, 0x200b, 0x200d, 0x2028, 0x2029, 0xfeff, 0xfffd, 0xfffe, 0xffff, 0x10ffff, 0xe000, 0xd7ff, 0x85]),
            8 | 9 => r.range(0x100, 0xffff) as u32,
            10 => r.range(0x10000, 0x10ffff) as u32,
            11 => r.range(0x1f300, 0x1faff) as u32, // emoji
            12 => r.range(0xe0100, 0xe01ef) as u32, // variation selectors
            _ => r.range(0x61, 0x7a) as u32,
        };
        if c == 0x22 {
            continue;
        }
        if let Some(ch) = char::from_u32(c) {
            return ch;
        }
    }
}

fn g_font(r: &mut Rng, big: bool) -> u32 {
    match r.below(10) {
        0 => i32::MAX as u32,
        1 => r.range(0, i32::MAX as i64) as u32,
        2 | 3 | 4 if big => u32::MAX - r.below(3) as u32, // above i32::MAX: written as a negative integer
        _ => r.below(4) as u32,
    }
}

fn g_order(r: &mut Rng) -> GlueOrder {
    order_of(r.below(4) as i64)
}

fn g_glue(r: &mut Rng) -> common::Glue {
    common::Glue {
        width: Scaled(g_scaled(r)),
        stretch: Scaled(g_scaled(r)),
        stretch_order: g_order(r),
        shrink: Scaled(g_scaled(r)),
        shrink_order: g_order(r),
    }
}

fn g_dim_or_running(r: &mut Rng) -> Scaled {
    if r.chance(1, 3) {
        ds::Rule::RUNNING
    } else {
        Scaled(g_scaled(r))
    }
}

fn g_rule(r: &mut Rng) -> ds::Rule {
    ds::Rule { height: g_dim_or_running(r), width: g_dim_or_running(r), depth: g_dim_or_running(r) }
}

fn g_lig(r: &mut Rng, big: bool) -> ds::Ligature {
    let n = r.below(5);
    let orig: String = (0..n).map(|_| g_char(r)).collect();
    ds::Ligature {
        char: g_char(r),
        font: g_font(r, big),
        original_chars: orig.into(),
        includes_left_boundary: r.chance(1, 3),
        includes_right_boundary: r.chance(1, 3),
    }
}

struct Gen {
    r: Rng,
    budget: i64,
    big_font: bool,
    neg_ratio: bool,
}

impl Gen {
    fn ratio(&mut self) -> ds::GlueRatio {
        // ratios the language writes exactly: k/65536 with |k| < 2^24 (beyond that the repository's own
        // f32 formatting rounds, which ds.rs documents as accepted)
        let k = match self.r.below(6) {
            0 => 0,
            1 => 65536,
            2 => self.r.range(0, (1 << 24) - 1) as i32,
            3 => self.r.range(0, 65535) as i32,
            4 => (1 << 24) - 1,
            _ => 32768 * self.r.range(0, 9) as i32,
        };
        let k = if self.neg_ratio && self.r.chance(1, 2) { -k } else { k };
        ds::GlueRatio { num: Scaled(k), den: Scaled::ONE }
    }
    fn hbox(&mut self, depth: u32) -> ds::HBox {
        ds::HBox {
            height: Scaled(g_scaled(&mut self.r)),
            width: Scaled(g_scaled(&mut self.r)),
            depth: Scaled(g_scaled(&mut self.r)),
            shift_amount: Scaled(g_scaled(&mut self.r)),
            glue_ratio: self.ratio(),
            glue_order: g_order(&mut self.r),
            list: self.hlist(depth),
        }
    }
    fn vbox(&mut self, depth: u32) -> ds::VBox {
        ds::VBox {
            height: Scaled(g_scaled(&mut self.r)),
            width: Scaled(g_scaled(&mut self.r)),
            depth: Scaled(g_scaled(&mut self.r)),
            shift_amount: Scaled(g_scaled(&mut self.r)),
            list: self.vlist(depth),
            ..Default::default()
        }
    }
    fn ins(&mut self, depth: u32) -> ds::Insertion {
        ds::Insertion {
            box_number: *self.r.pick(&[0u8, 1, 100, 254, 255, 7]),
            height: Scaled(g_scaled(&mut self.r)),
            split_max_depth: Scaled(g_scaled(&mut self.r)),
            split_top_skip: g_glue(&mut self.r),
            float_penalty: g_int(&mut self.r) as u32,
            vbox: self.vlist(depth),
        }
    }
    fn len(&mut self, depth: u32) -> u64 {
        if depth == 0 || self.budget <= 0 {
            return 0;
        }
        let n = self.r.below(if depth >= 4 { 3 } else { 6 });
        self.budget -= n as i64;
        n
    }
    fn hlist(&mut self, depth: u32) -> Vec<ds::Horizontal> {
        let n = self.len(depth);
        let mut v: Vec<ds::Horizontal> = vec![];
        let mut font = g_font(&mut self.r, self.big_font);
        for _ in 0..n {
            let e: ds::Horizontal = match self.r.below(22) {
                0..=5 => {
                    // runs of characters; the font changes now and then (the printer merges per font)
                    if self.r.chance(1, 4) {
                        font = g_font(&mut self.r, self.big_font);
                    }
                    ds::Char { char: g_char(&mut self.r), font }.into()
                }
                6 | 7 => ds::Glue { value: g_glue(&mut self.r), kind: ds::GlueKind::Normal }.into(),
                8 => ds::Kern { width: Scaled(g_scaled(&mut self.r)), kind: ds::KernKind::Normal }.into(),
                9 => ds::Penalty(g_int(&mut self.r)).into(),
                10 => g_rule(&mut self.r).into(),
                11 => g_lig(&mut self.r, false).into(),
                12 | 13 => ds::Discretionary {
                    pre_break: self.dlist(depth - 1),
                    post_break: self.dlist(depth - 1),
                    replace_count: *self.r.pick(&[0u32, 1, 2, 3, 255, u32::MAX, i32::MAX as u32]),
                }
                .into(),
                14 | 15 => self.hbox(depth - 1).into(),
                16 => self.vbox(depth - 1).into(),
                17 => self.ins(depth - 1).into(),
                18 => ds::Mark { list: vec![] }.into(),
                19 => ds::Adjust { list: self.vlist(depth - 1) }.into(),
                20 => ds::Math::Before.into(),
                _ => ds::Math::After.into(),
            };
            v.push(e);
        }
        v
    }
    fn vlist(&mut self, depth: u32) -> Vec<ds::Vertical> {
        let n = self.len(depth);
        let mut v: Vec<ds::Vertical> = vec![];
        for _ in 0..n {
            let e: ds::Vertical = match self.r.below(14) {
                0 | 1 => ds::Glue { value: g_glue(&mut self.r), kind: ds::GlueKind::Normal }.into(),
                2 => ds::Kern { width: Scaled(g_scaled(&mut self.r)), kind: ds::KernKind::Normal }.into(),
                3 => ds::Penalty(g_int(&mut self.r)).into(),
                4 => g_rule(&mut self.r).into(),
                5 | 6 | 7 => self.hbox(depth - 1).into(),
                8 | 9 => self.vbox(depth - 1).into(),
                10 => self.ins(depth - 1).into(),
                11 => ds::Mark { list: vec![] }.into(),
                12 => ds::Math::Before.into(),
                _ => ds::Math::After.into(),
            };
            v.push(e);
        }
        v
    }
    fn dlist(&mut self, depth: u32) -> Vec<ds::DiscretionaryElem> {
        use ds::DiscretionaryElem as D;
        let n = self.len(depth.max(1)).min(4);
        let mut v = vec![];
        for _ in 0..n {
            let e = match self.r.below(9) {
                0..=3 => D::Char(ds::Char { char: g_char(&mut self.r), font: g_font(&mut self.r, false) }),
                4 => D::Kern(ds::Kern { width: Scaled(g_scaled(&mut self.r)), kind: ds::KernKind::Normal }),
                5 => D::Rule(g_rule(&mut self.r)),
                6 => D::Ligature(g_lig(&mut self.r, false)),
                7 if depth > 1 => D::HBox(self.hbox(depth - 1)),
                8 if depth > 1 => D::VBox(self.vbox(depth - 1)),
                _ => D::Kern(ds::Kern { width: Scaled(g_scaled(&mut self.r)), kind: ds::KernKind::Normal }),
            };
            v.push(e);
        }
        v
    }
}

/// seed= n= depth= out= stats= [texts=<file>: the printed programs, one JSON object per line]
fn random_lists(args: &Args) -> i32 {
    quiet_panics();
    let n: u64 = args.num("n", 1000);
    let maxdepth: u32 = args.num("depth", 5);
    let mut out = Out::new(args.str("out"));
    let mut texts = args.str("texts").map(|p| Out::new(Some(p)));
    let mut st = Stats::default();
    let mut g = Gen { r: Rng::new(args.num("seed", 1)), budget: 0, big_font: false, neg_ratio: false };
    for i in 0..n {
        g.budget = 10 + g.r.below(60) as i64;
        // the two recorded defects of the printer are met by their own, small share of the lists
        g.big_font = i % 25 == 7;
        g.neg_ratio = i % 5 == 3;
        let depth = 1 + g.r.below(maxdepth as u64) as u32;
        let l = if g.r.chance(1, 4) { L::V(g.vlist(depth)) } else { L::H(g.hlist(depth)) };
        let how = if g.r.chance(1, 3) { "elem" } else { "vec" };
        let mut key = l.abs().to_string();
        key.push_str(how);
        if st.seen(&key) {
            st.inc("duplicate");
            continue;
        }
        if let Some(text) = emit_rt(&mut out, &mut st, &l, how) {
            if let Some(t) = texts.as_mut() {
                t.line(&json!({"m":l.mode(),"text":text}));
            }
            if i % 3 == 0 {
                emit_format(&mut out, &mut st, &text);
            }
        }
    }
    st.write(args, "lists");
    0
}

// ------------------------------------------------------------------------------------------
// binding F, texts: printed programs, mutated at the token level; truncations; arbitrary text
// ------------------------------------------------------------------------------------------
/// Rough lexeme splitter, only used to choose where to mutate (no oracle depends on it).
fn lexemes(s: &str) -> Vec<String> {
    let cs: Vec<char> = s.chars().collect();
    let mut out = vec![];
    let mut i = 0;
    while i < cs.len() {
        let c = cs[i];
        let start = i;
        if c.is_whitespace() {
            while i < cs.len() && cs[i].is_whitespace() {
                i += 1;
            }
        } else if c == '"' {
            i += 1;
            while i < cs.len() && cs[i] != '"' {
                if cs[i] == '\\' {
                    i += 1;
                }
                i += 1;
            }
            i = (i + 1).min(cs.len());
        } else if c == '#' {
            while i < cs.len() && cs[i] != '\n' {
                i += 1;
            }
        } else if c.is_ascii_alphanumeric() || c == '-' || c == '.' || c == '_' {
            while i < cs.len() && (cs[i].is_ascii_alphanumeric() || cs[i] == '-' || cs[i] == '.' || cs[i] == '_') {
                i += 1;
            }
        } else {
            i += 1;
        }
        out.push(cs[start..i.min(cs.len())].iter().collect());
    }
    out
}

// functions, parameter names (right and wrong ones), the documented-but-wrong spellings of mod.rs
const IDENTS: &[&str] = &[
    "chars", "glue", "penalty", "kern", "hbox", "lig", "vbox", "disc", "rule", "mark", "adjust", "insertion", "math",
    "text", "hlist", "foo", "Chars", "content", "font", "width", "stretch", "shrink", "value", "height", "depth",
    "shift_amount", "glue_ratio", "glue_order", "char", "original_chars", "includes_left_boundary",
    "includes_right_boundary", "includes_left_char", "pre_break", "post_break", "replace_count", "dummy", "box_number",
    "split_max_depth", "split_top_skip_width", "split_top_skip_stretch", "split_top_skip_shrink", "float_penalty",
    "vbox", "kind", "contents", "x", "a_b",
];
// numbers: integers and dimensions of every unit and order, in and out of range, well and ill formed
const NUMS: &[&str] = &[
    "0", "1", "-1", "7", "255", "256", "300", "-300", "2147483647", "-2147483647", "2147483648", "-2147483648", "99999999999",
    "0pt", "1pt", "-1pt", "1.5pt", "0.00002pt", "16383.99998pt", "16383.99999pt", "16383.999999pt", "16384pt",
    "-16384pt", "32767pt", "32768pt", "1073741823sp", "1073741824sp", "32767sp", "32768sp", "-40000sp", "65536sp",
    "1in", "2.54cm", "25.4mm", "72bp", "1dd", "1cc", "1pc", "226in", "227in", "575cm", "1.5sp", "0.3333333333333333333pt",
    "1fil", "-2fill", "3filll", "0.5fil", "16383fil", "16384fil", "40000fil", "1fillll", "1filx",
    "1px", "1em", "1PT", "1truept", "1.2.3pt", "1.", "1.5", "-", "--1", "1e3", "0x10", "1_0", "-.5pt", "-pt",
];
// strings: every special form, escapes right and wrong, unterminated ones
const STRS: &[&str] = &[
    "\"\"", "\"a\"", "\"ab\"", "\"true\"", "\"false\"", "\"True\"", "\"normal\"", "\"fil\"", "\"fill\"", "\"filll\"",
    "\"fillll\"", "\"running\"", "\"before\"", "\"after\"", "\"0.0\"", "\"1.5\"", "\"-0.25\"", "\"300.00002\"",
    "\"16383.99998\"", "\"16384\"", "\"20000.0\"", "\"1e3\"", "\".5\"", "\"1.\"", "\"abc\"", "\"1.5.5\"", "\"0.5 \"",
    "\"1.-5\"", "\"+1.5\"", "\"7\"", "\"\\n\"", "\"\\\"\"", "\"\\\\\"", "\"\\'\"", "\"\\0\"", "\"\\t\\r\"", "\"\\a\"", "\"\\u{41}\"",
    "\"\\u{10ffff}\"", "\"\\u{110000}\"", "\"\\u{d800}\"", "\"\\u{}\"", "\"\\u{zz}\"", "\"\\u{0000000041}\"",
    "\"\\u{fffffffff}\"", "\"\\u41\"", "\"\\ux\"", "\"\\u\u{e9}\"", "\"\\u{41\"", "\"\\", "\"abc", "\"", "\"\u{e9}\u{301}\u{1f600}\"",
    "\"\n\"", "\"#\"", "\"[\"", "\")\"",
];
const LISTS: &[&str] = &["[]", "[kern(1pt)]", "[glue()]", "[chars(\"a\")]", "[foo()]", "[[]]", "[)", "(]", "[kern(1pt) kern(2)]"];
const PUNCT: &[&str] = &["(", ")", "[", "]", ",", "="];
// comments, odd blanks, junk
const JUNK: &[&str] = &[
    "#c\n", "# no end", "#\n", " ", "\n", "\t", "\r\n", "\u{a0}", "\u{2003}", "\u{feff}", "\u{200b}", "\u{85}", "\u{0}",
    "/", "*", "$", "\u{e9}", "\u{1f600}", "'", "\\", "{", "}", ";", ":", "!", "\u{301}", "_", "@", ".5pt", "+1", "1 pt",
];

fn from(r: &mut Rng, xs: &'static [&'static str]) -> &'static str {
    xs[r.below(xs.len() as u64) as usize]
}

fn pool(r: &mut Rng) -> &'static str {
    match r.below(12) {
        0 | 1 | 2 => from(r, IDENTS),
        3 | 4 | 5 => from(r, NUMS),
        6 | 7 => from(r, STRS),
        8 => from(r, LISTS),
        9 | 10 => from(r, PUNCT),
        _ => from(r, JUNK),
    }
}

/// a lexeme of the same class: the text stays (mostly) grammatical, the meaning changes
fn same_class(r: &mut Rng, lexeme: &str) -> &'static str {
    match lexeme.chars().next() {
        Some(c) if c.is_ascii_alphabetic() => from(r, IDENTS),
        Some(c) if c.is_ascii_digit() || c == '-' => {
            if r.chance(1, 5) {
                from(r, STRS)
            } else {
                from(r, NUMS)
            }
        }
        Some('"') => {
            if r.chance(1, 5) {
                from(r, NUMS)
            } else {
                from(r, STRS)
            }
        }
        _ => pool(r),
    }
}

fn g_text_char(r: &mut Rng) -> char {
    match r.below(4) {
        0 => g_char(r),
        1 => *r.pick(&['(', ')', '[', ']', ',', '=', '"', '\\', '#', '\n', ' ', '-', '.', 'u', '{', '}', '0', '9', 'p', 't', 'f', 'i', 'l']),
        _ => r.range(0x20, 0x7e) as u8 as char,
    }
}

fn mutate(r: &mut Rng, base: &str) -> String {
    let mut lx = lexemes(base);
    let k = 1 + r.below(4);
    for _ in 0..k {
        if lx.is_empty() {
            lx.push(pool(r).to_string());
            continue;
        }
        let i = r.below(lx.len() as u64) as usize;
        let pick = pool(r).to_string();
        match r.below(20) {
            12..=19 => {
                // stay at the call level: replace a name by a name, a value by a value
                let mut j = i;
                while j < lx.len() && (lx[j].trim().is_empty() || PUNCT.contains(&lx[j].as_str())) {
                    j += 1;
                }
                if j < lx.len() {
                    lx[j] = same_class(r, &lx[j]).to_string();
                }
            }
            0 | 1 | 2 => lx[i] = pick,
            3 => {
                lx.remove(i);
            }
            4 => lx.insert(i, pick),
            5 => {
                let d = lx[i].clone();
                lx.insert(i, d);
            }
            6 => {
                if i + 1 < lx.len() {
                    lx.swap(i, i + 1);
                }
            }
            7 => {
                // copy a run of lexemes elsewhere: duplicate keyword arguments, repeated calls
                let j = (i + 1 + r.below(6) as usize).min(lx.len());
                let run: Vec<String> = lx[i..j].to_vec();
                let at = r.below(lx.len() as u64 + 1) as usize;
                for (o, x) in run.into_iter().enumerate() {
                    let p = (at + o).min(lx.len());
                    lx.insert(p, x);
                }
            }
            8 if r.chance(1, 2) => {
                // a near miss: the case of one letter flipped, or a blank appended inside a string
                let mut cs: Vec<char> = lx[i].chars().collect();
                let letters: Vec<usize> = (0..cs.len()).filter(|p| cs[*p].is_ascii_alphabetic()).collect();
                if !letters.is_empty() && r.chance(3, 4) {
                    let p = letters[r.below(letters.len() as u64) as usize];
                    cs[p] = if cs[p].is_ascii_lowercase() { cs[p].to_ascii_uppercase() } else { cs[p].to_ascii_lowercase() };
                } else if cs.len() >= 2 && cs[0] == '"' {
                    let at = cs.len() - 1;
                    cs.insert(at, ' ');
                }
                lx[i] = cs.into_iter().collect();
            }
            8 => {
                // a character-level edit inside the lexeme
                let mut cs: Vec<char> = lx[i].chars().collect();
                if !cs.is_empty() {
                    let p = r.below(cs.len() as u64) as usize;
                    match r.below(3) {
                        0 => cs[p] = g_text_char(r),
                        1 => cs.insert(p, g_text_char(r)),
                        _ => {
                            cs.remove(p);
                        }
                    }
                }
                lx[i] = cs.into_iter().collect();
            }
            9 => {
                // drop everything from here on (truncation at a lexeme)
                lx.truncate(i);
            }
            10 => {
                // keyword form <-> positional form: drop or add `name =`
                if i + 1 < lx.len() && lx[i + 1] == "=" {
                    lx.remove(i);
                    lx.remove(i);
                } else {
                    lx.insert(i, "=".to_string());
                    lx.insert(i, pick);
                }
            }
            _ => {
                let c = *r.pick(&["(", ")", "[", "]", "\""]);
                lx.insert(i, c.to_string());
            }
        }
    }
    let mut s: String = lx.concat();
    if r.chance(1, 12) {
        // truncation anywhere (on a character boundary)
        let cut = r.below(s.chars().count() as u64 + 1) as usize;
        s = s.chars().take(cut).collect();
    }
    s
}

/// seed= n= base=<texts file from c18-lists> out= stats=
fn random_texts(args: &Args) -> i32 {
    quiet_panics();
    let n: u64 = args.num("n", 1000);
    let mut r = Rng::new(args.num("seed", 1));
    let mut out = Out::new(args.str("out"));
    let mut st = Stats::default();
    let mut bases: Vec<(String, String)> = vec![];
    if let Some(p) = args.str("base") {
        for line in std::fs::read_to_string(p).expect("base").lines() {
            let v: Value = serde_json::from_str(line).expect("base line");
            let t = v["text"].as_str().unwrap().to_string();
            if t.len() < 1500 {
                bases.push((v["m"].as_str().unwrap().to_string(), t));
            }
        }
    }
    // hand-written seeds: the documented examples and forms the printer never produces
    for t in [
        "chars(\"Box\")\nglue(1pt, 5fil, 0.075in)\nchars(\"A\")\nkern(-0.1pt)\nchars(\"V\")\n",
        "chars(font=2, content=\"B\") chars(\"C\", font=3)",
        "hbox(width=1pt, content=[chars(\"Hello\") glue()], glue_ratio=\"1.5\", glue_order=\"fill\")",
        "disc(pre_break=[chars(\"-\") kern(0.5pt)], replace_count=2)",
        "rule(1pt, \"running\")  rule(depth=\"running\")",
        "insertion(200, 1pt, 2pt, 3pt, 4fil, 5fill, 6, [glue() kern(1pt)])",
        "vbox(content=[hbox(content=[chars(\"AZ\", 33)])])",
        "lig(\"\u{fb01}\", \"fi\", 1, \"true\", includes_right_boundary=\"false\") math(\"after\") mark() adjust([penalty(5)])",
        "# a comment\nglue( # inside\n 1pt , # more\n 2pt #last\n)\n# trailing",
    ] {
        bases.push(("h".to_string(), t.to_string()));
    }
    // the repository's own statements of intent, unmutated: the examples of mod.rs (above) and the
    // sources of the error tests of lang/error.rs
    for t in [
        "glue(0plx)", "chars(1pc)", "chars(content=1pc)", "chars(\"Hello\", 3, \"Mundo\")",
        "chars(\"Hello\", font=3, \"Mundo\")", "chars(font=3, \"Hello\")", "chars(content=\"Hello\", content=\"World\")",
        "chars(\"Hello\", content=\"Mundo\")", "chars(random=\"Hello\")", "random()", "chars()]", "chars())", ",chars()",
        "chars,()", "()", "text", "chars[]()", "chars(]", "hbox(content=[))", "chars(\"Hello\"", "glue(,width=1pt)",
        "glue(width,=1pt)", "glue(width=,1pt)", "glue(,1pt)", "glue(width)", "glue(width=)", "glue(width=1.1.1pt)",
        "glue(width=1.1)", "/", "\u{e4}", "a(b=[c()])", "a(b=[],)", "a(b=[#X\n])",
        "lig(\"\\\"\")lig(\"\\\"\")lig(\"\\\\\")lig(\"\\\\\")chars()", "f(3,key=4,)", "f#X\n(3,key=4,)", "f(3#X\n,key=4,)",
        "f(3,key#X\n=4,)", "f(3,key=4,#X\n)", "f([#X\n],)", "f([],#X\n)", "f([]#X\n,)",
    ] {
        bases.push(("h".to_string(), t.to_string()));
    }
    for (m, t) in bases.iter().filter(|(_, t)| t.len() < 400).rev().take(51) {
        if !st.seen(&format!("{m}{t}")) {
            emit_parse(&mut out, &mut st, m, t);
            emit_format(&mut out, &mut st, t);
            st.inc("pinned_examples");
        }
    }
    for i in 0..n {
        let (m, text) = match i % 10 {
            // arbitrary text: characters, pool lexemes glued together, bytes read as lossy UTF-8
            0 => {
                let k = r.below(40);
                ("h".to_string(), (0..k).map(|_| g_text_char(&mut r)).collect::<String>())
            }
            1 | 2 => {
                let k = 1 + r.below(14);
                let sep = *r.pick(&["", " ", "", "\n"]);
                let m = if r.chance(1, 5) { "v" } else { "h" };
                (m.to_string(), (0..k).map(|_| pool(&mut r)).collect::<Vec<_>>().join(sep))
            }
            3 => {
                let k = r.below(48);
                let bytes: Vec<u8> = (0..k)
                    .map(|_| if r.chance(1, 3) { r.below(256) as u8 } else { *r.pick(b"()[],=\"\\#-.019ptfilcharsgue \n") })
                    .collect();
                ("h".to_string(), String::from_utf8_lossy(&bytes).into_owned())
            }
            // printed programs and hand-written forms, mutated
            _ => {
                let (m, b) = &bases[r.below(bases.len() as u64) as usize];
                let m = if r.chance(1, 10) {
                    if m == "h" {
                        "v"
                    } else {
                        "h"
                    }
                } else {
                    m.as_str()
                };
                (m.to_string(), mutate(&mut r, b))
            }
        };
        if st.seen(&format!("{m}{text}")) {
            st.inc("duplicate");
            continue;
        }
        emit_parse(&mut out, &mut st, &m, &text);
        emit_format(&mut out, &mut st, &text);
    }
    st.write(args, "texts");
    0
}

// ------------------------------------------------------------------------------------------
// replay of one recorded event; deep nesting
// ------------------------------------------------------------------------------------------
/// in=<file with one event> out=<file>: performs the recorded call again on the real code
fn one(args: &Args) -> i32 {
    quiet_panics();
    let src = std::fs::read_to_string(args.req("in")).expect("event");
    let e: Value = serde_json::from_str(src.lines().next().unwrap_or("{}")).expect("json");
    let mut out = Out::new(args.str("out"));
    let mut st = Stats::default();
    match e["ev"].as_str() {
        Some("rt") => {
            let l = L::from_abs(e["m"].as_str().unwrap(), &e["list"]);
            if let Some(text) = emit_rt(&mut out, &mut st, &l, e["how"].as_str().unwrap()) {
                eprintln!("printed text:\n{text}");
            }
        }
        Some("parse") => {
            let text = from_cps(&e["text"]);
            eprintln!("source text: {text:?}");
            let res = emit_parse(&mut out, &mut st, e["m"].as_str().unwrap(), &text);
            eprintln!("result: {res}");
        }
        Some("format") => {
            let text = from_cps(&e["text"]);
            eprintln!("source text: {text:?}");
            emit_format(&mut out, &mut st, &text);
            match catch(|| bwl::format(&text).map_err(|e| format!("{e:?}"))) {
                Ok(r) => eprintln!("format: {r:?}"),
                Err(p) => eprintln!("format panicked: {p:?}"),
            }
        }
        _ => {
            eprintln!("harness: not an event");
            return 2;
        }
    }
    0
}

/// depth=N what=parse|format|print [repeat=FRAGMENT]: one deeply nested program (or N copies of FRAGMENT); the process exits 0 when the real code
/// returned (whatever it returned).  A stack overflow kills the process -- the driver reads the signal.
fn deep(args: &Args) -> i32 {
    quiet_panics();
    let depth: usize = args.num("depth", 1000);
    let what = args.str("what").unwrap_or("parse");
    let mut s = String::new();
    if let Some(unit) = args.str("repeat") {
        // long rather than deep: `depth` copies of a fragment (recursion per token in error recovery)
        for _ in 0..depth {
            s.push_str(unit);
        }
    } else {
        for i in 0..depth {
            s.push_str(if i % 2 == 0 { "hbox(content=[" } else { "vbox(content=[" });
        }
        s.push_str("kern(1pt)");
        for _ in 0..depth {
            s.push_str("])");
        }
    }
    let r = match what {
        "format" => catch(|| bwl::format(&s).map(|t| t.len()).map_err(|e| e.len())).map(|r| format!("{r:?}")),
        "print" => match bwl::parse_horizontal_list(&s).map_err(|e| e.len()) {
            Ok(l) => {
                let r = print_list(&L::H(l.clone()), "vec").map(|t| format!("printed {} bytes", t.len()));
                std::mem::forget(l);
                r
            }
            Err(n) => Ok(format!("{n} errors")),
        },
        _ => catch(|| match bwl::parse_horizontal_list(&s) {
            Ok(l) => {
                let n = l.len();
                std::mem::forget(l); // dropping a deep list recurses too; not the operation under test
                format!("list of {n}")
            }
            Err(e) => format!("{} errors", e.len()),
        }),
    };
    println!("{}", json!({"depth":depth,"what":what,"result":format!("{r:?}")}));
    0
}
