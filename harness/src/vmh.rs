//! Shared VM harness: a Texlang state with every stdlib component plus fonts, an in-memory file
//! system and terminal, output-collecting handlers and a step budget.
//!
//! Observation of a run = the sequence of tokens that reach the handlers (characters with their
//! category code, undefined commands, unexpanded expansion commands), the result kind and the
//! number of recoverable errors.  Nothing here knows what the output *should* be.
use std::cell::RefCell;
use std::collections::HashMap;
use std::rc::Rc;
use texlang::command;
use texlang::prelude as txl;
use texlang::token;
use texlang::traits::*;
use texlang::types;
use texlang::types::CatCode;
use texlang::vm;
use texlang::vm::implement_has_component;
use texlang_font::{FontComponent, HasFontRepo, NoOpFontRepo};
use texlang_stdlib::*;

#[derive(Debug)]
pub struct MockFont;
#[derive(Debug)]
pub struct MockFontError;
impl std::error::Error for MockFontError {}
impl std::fmt::Display for MockFontError {
    fn fmt(&self, f: &mut std::fmt::Formatter<'_>) -> std::fmt::Result {
        write!(f, "invalid font file")
    }
}
impl common::FontFormat for MockFont {
    const DEFAULT_FILE_EXTENSION: &'static str = "mock";
    type Error = MockFontError;
    fn parse(b: &[u8]) -> Result<Self, Self::Error> {
        match b.first() {
            None => Err(MockFontError),
            Some(_) => Ok(MockFont),
        }
    }
}

#[derive(Default, serde::Serialize, serde::Deserialize)]
pub struct VS {
    pub alloc: alloc::Component,
    pub codes_cat_code: codes::Component<CatCode>,
    pub codes_math_code: codes::Component<types::MathCode>,
    pub conditional: conditional::Component,
    pub end_line_char: endlinechar::Component,
    pub error_mode: errormode::Component,
    pub input: input::Component<16>,
    pub job: job::Component,
    pub prefix: prefix::Component,
    pub registers_i32: registers::Component<i32, 32768>,
    pub registers_scaled: registers::Component<common::Scaled, 32768>,
    pub registers_glue: registers::Component<common::Glue, 32768>,
    pub registers_token_list: registers::Component<Vec<token::Token>, 256>,
    pub repl: repl::Component,
    pub script: script::Component,
    pub time: time::Component,
    pub tracing_macros: tracingmacros::Component,
    pub font: FontComponent,
    pub font_repo: NoOpFontRepo<MockFont>,
    #[serde(skip)]
    pub fs: Rc<RefCell<texlang_common::InMemoryFileSystem>>,
}

implement_has_component![VS{
    alloc: alloc::Component,
    codes_cat_code: codes::Component<CatCode>,
    codes_math_code: codes::Component<types::MathCode>,
    conditional: conditional::Component,
    end_line_char: endlinechar::Component,
    error_mode: errormode::Component,
    input: input::Component<16>,
    job: job::Component,
    prefix: prefix::Component,
    registers_i32: registers::Component<i32, 32768>,
    registers_scaled: registers::Component<common::Scaled, 32768>,
    registers_glue: registers::Component<common::Glue, 32768>,
    registers_token_list: registers::Component<Vec<token::Token>, 256>,
    repl: repl::Component,
    script: script::Component,
    time: time::Component,
    tracing_macros: tracingmacros::Component,
    font: FontComponent,
}];

/// A token value that survives outside the VM: (kind, char or name).
#[derive(Clone, Debug, PartialEq)]
pub enum TokV {
    Char(char, u8),
    Cs(String),
    Active(char),
}

pub fn tokv(t: token::Token, interner: &token::CsNameInterner) -> TokV {
    match t.value() {
        token::Value::CommandRef(token::CommandRef::ControlSequence(n)) => TokV::Cs(interner.resolve(n).unwrap_or("?").to_string()),
        token::Value::CommandRef(token::CommandRef::ActiveCharacter(c)) => TokV::Active(c),
        _ => TokV::Char(t.char().unwrap_or('?'), t.cat_code().map(|c| c as u8).unwrap_or(12)),
    }
}

#[derive(Clone, Debug)]
pub struct MacroCall {
    pub name: TokV,
    pub args: Vec<Vec<TokV>>,
    pub expansion: Vec<TokV>,
}

thread_local! {
    static CUR_MODE: std::cell::Cell<&'static str> = const { std::cell::Cell::new("ErrorStop") };
}

thread_local! {
    static RECOV: RefCell<Option<Vec<(String, bool, bool)>>> = const { RefCell::new(None) };
}

/// Start recording recoverable errors: (interaction mode, continued?, located?) per error.
pub fn recov_start() {
    CUR_MODE.with(|m| m.set("ErrorStop"));
    RECOV.with(|v| *v.borrow_mut() = Some(vec![]));
}
pub fn recov_take() -> Vec<(String, bool, bool)> {
    RECOV.with(|v| v.borrow_mut().take().unwrap_or_default())
}

thread_local! {
    static MACRO_REC: RefCell<Option<Vec<MacroCall>>> = const { RefCell::new(None) };
}

/// Start recording every macro call (arguments bound and expansion) seen by the expansion hook.
pub fn macro_rec_start() {
    MACRO_REC.with(|m| *m.borrow_mut() = Some(vec![]));
}
pub fn macro_rec_take() -> Vec<MacroCall> {
    MACRO_REC.with(|m| m.borrow_mut().take().unwrap_or_default())
}

/// Panic payload used to cut off programs that exceed the step budget (not a defect).
pub struct BudgetExceeded;

thread_local! {
    static OUT: RefCell<Vec<Tok>> = const { RefCell::new(Vec::new()) };
    static STEPS: std::cell::Cell<u64> = const { std::cell::Cell::new(0) };
    static BUDGET: std::cell::Cell<u64> = const { std::cell::Cell::new(u64::MAX) };
    static USE_SIMPLE_EXPANDAFTER: std::cell::Cell<bool> = const { std::cell::Cell::new(false) };
    static FIRST_ERR_AT: std::cell::Cell<i64> = const { std::cell::Cell::new(-1) };
}

/// Number of output tokens delivered when the first recoverable error of the current run was
/// reported (-1: none).  Reset by `run_src`.
pub fn first_err_at() -> i64 {
    FIRST_ERR_AT.with(|f| f.get())
}

fn step() {
    let n = STEPS.with(|s| {
        s.set(s.get() + 1);
        s.get()
    });
    if n > BUDGET.with(|b| b.get()) {
        std::panic::panic_any(BudgetExceeded);
    }
}

impl TexlangState for VS {
    #[inline]
    fn cat_code(&self, c: char) -> CatCode {
        codes::cat_code(self, c)
    }
    #[inline]
    fn end_line_char(&self) -> Option<char> {
        endlinechar::end_line_char(self)
    }
    fn post_macro_expansion_hook(
        token: token::Token,
        input: &vm::ExpansionInput<Self>,
        tex_macro: &texlang::texmacro::Macro,
        arguments: &[&[token::Token]],
        reversed_expansion: &[token::Token],
    ) {
        step();
        if MACRO_REC.with(|m| m.borrow().is_some()) {
            let interner = input.vm().cs_name_interner();
            let conv = |t: &token::Token| -> TokV { tokv(*t, interner) };
            let args: Vec<Vec<TokV>> = arguments.iter().map(|a| a.iter().map(conv).collect()).collect();
            let exp: Vec<TokV> = reversed_expansion.iter().rev().map(conv).collect();
            let name = tokv(token, interner);
            MACRO_REC.with(|m| m.borrow_mut().as_mut().unwrap().push(MacroCall { name, args, expansion: exp }));
        }
        tracingmacros::hook(token, input, tex_macro, arguments, reversed_expansion)
    }
    fn expansion_override_hook(
        token: token::Token,
        input: &mut vm::ExpansionInput<Self>,
        tag: Option<command::Tag>,
    ) -> txl::Result<Option<token::Token>> {
        step();
        expansion::noexpand_hook(token, input, tag)
    }
    fn variable_assignment_scope_hook(
        state: &mut Self,
    ) -> texcraft_stdext::collections::groupingmap::Scope {
        prefix::variable_assignment_scope_hook(state)
    }
    fn recoverable_error_hook(
        &self,
        recoverable_error: texlang::error::TracedTexError,
    ) -> Result<(), Box<dyn texlang::error::TexError>> {
        if FIRST_ERR_AT.with(|f| f.get()) < 0 {
            FIRST_ERR_AT.with(|f| f.set(OUT.with(|o| o.borrow().len()) as i64));
        }
        let located = is_located(&recoverable_error, &format!("{recoverable_error}"));
        let r = errormode::recoverable_error_hook(self, recoverable_error);
        if RECOV.with(|v| v.borrow().is_some()) {
            // the interaction mode at the time of the error (tracked by the mode-command wrappers)
            let mode = CUR_MODE.with(|m| m.get()).to_string();
            RECOV.with(|v| v.borrow_mut().as_mut().unwrap().push((mode, r.is_ok(), located)));
        }
        r
    }
    fn is_current_font_command(&self, tag: command::Tag) -> bool {
        FontComponent::is_current_font_command(self, tag)
    }
}

impl the::TheCompatible for VS {
    fn get_command_ref_for_font(&self, font: types::Font) -> Option<token::CommandRef> {
        FontComponent::get_command_ref_for_font(self, font)
    }
}
impl HasFontRepo for VS {
    type FontRepo = NoOpFontRepo<MockFont>;
    fn font_repo_mut(&mut self) -> &mut Self::FontRepo {
        &mut self.font_repo
    }
}
impl texlang_common::HasLogging for VS {
    fn terminal_out(&self) -> Rc<RefCell<dyn std::io::Write>> {
        Rc::new(RefCell::new(std::io::sink()))
    }
}
impl texlang_common::HasFileSystem for VS {
    fn file_system(&self) -> Rc<RefCell<dyn texlang_common::FileSystem>> {
        self.fs.clone()
    }
}
impl texlang_common::HasTerminalIn for VS {
    fn terminal_in(&self) -> Rc<RefCell<dyn texlang_common::TerminalIn>> {
        texlang_common::HasTerminalIn::terminal_in(&self.error_mode)
    }
}

pub fn built_ins() -> HashMap<&'static str, command::BuiltIn<VS>> {
    let mut m = texlang_stdlib::built_in_commands::<VS>();
    for k in ["sleep", "day", "month", "year", "time", "dumpFormat", "dumpValidate"] {
        m.remove(k);
    }
    if USE_SIMPLE_EXPANDAFTER.with(|b| b.get()) {
        m.insert("expandafter", expansion::get_expandafter_simple());
    }
    // the four interaction-mode commands are wrapped so that the harness knows the current mode
    macro_rules! wrap_mode {
        ($name:expr, $label:expr, $slot:ident) => {{
            static $slot: std::sync::OnceLock<usize> = std::sync::OnceLock::new();
            if let Some(b) = m.get($name) {
                if let command::Command::Execution(f, _) = b.cmd() {
                    let _ = $slot.set(*f as usize);
                }
            }
            fn wrapper(t: token::Token, input: &mut vm::ExecutionInput<VS>) -> txl::Result<()> {
                CUR_MODE.with(|m| m.set($label));
                let f: command::ExecutionFn<VS> = unsafe { std::mem::transmute(*$slot.get().unwrap()) };
                f(t, input)
            }
            m.insert($name, command::BuiltIn::new_execution(wrapper));
        }};
    }
    wrap_mode!("errorstopmode", "ErrorStop", F_ERRORSTOP);
    wrap_mode!("scrollmode", "Scroll", F_SCROLL);
    wrap_mode!("nonstopmode", "NonStop", F_NONSTOP);
    wrap_mode!("batchmode", "Batch", F_BATCH);
    m.insert("font", texlang_font::get_font());
    m.insert("fontname", texlang_font::get_fontname());
    m.insert("nullfont", texlang_font::get_nullfont());
    m
}

impl HasDefaultBuiltInCommands for VS {
    fn default_built_in_commands() -> HashMap<&'static str, command::BuiltIn<VS>> {
        built_ins()
    }
}

pub fn set_simple_expandafter(b: bool) {
    USE_SIMPLE_EXPANDAFTER.with(|x| x.set(b));
}

#[derive(Clone, Debug, PartialEq)]
pub enum Tok {
    Char(char, u8),
    Undef(String),
    Unexp(String),
}

fn cs_name_of(input: &vm::ExecutionInput<VS>, token: token::Token) -> String {
    match token.value() {
        token::Value::CommandRef(token::CommandRef::ControlSequence(name)) => input
            .vm()
            .cs_name_interner()
            .resolve(name)
            .unwrap_or("?")
            .to_string(),
        token::Value::CommandRef(token::CommandRef::ActiveCharacter(c)) => format!("~{c}"),
        _ => "?".to_string(),
    }
}

pub struct H;
impl vm::Handlers<VS> for H {
    fn character_handler(
        _: &mut vm::ExecutionInput<VS>,
        token: token::Token,
        c: char,
    ) -> txl::Result<()> {
        let cat = token.cat_code().map(|c| c as u8).unwrap_or(12);
        OUT.with(|o| o.borrow_mut().push(Tok::Char(c, cat)));
        Ok(())
    }
    fn math_character_handler(
        _: &mut vm::ExecutionInput<VS>,
        _: token::Token,
        m: types::MathCode,
    ) -> txl::Result<()> {
        OUT.with(|o| o.borrow_mut().push(Tok::Unexp(format!("mathchar:{m:?}"))));
        Ok(())
    }
    fn undefined_command_handler(
        input: &mut vm::ExecutionInput<VS>,
        token: token::Token,
    ) -> txl::Result<()> {
        let n = cs_name_of(input, token);
        OUT.with(|o| o.borrow_mut().push(Tok::Undef(n)));
        Ok(())
    }
    fn unexpanded_expansion_command(
        input: &mut vm::ExecutionInput<VS>,
        token: token::Token,
    ) -> txl::Result<()> {
        let n = cs_name_of(input, token);
        OUT.with(|o| o.borrow_mut().push(Tok::Unexp(n)));
        Ok(())
    }
}

/// Handlers with TeX's default for undefined commands (a located error).
pub struct HStrict;
impl vm::Handlers<VS> for HStrict {
    fn character_handler(
        i: &mut vm::ExecutionInput<VS>,
        token: token::Token,
        c: char,
    ) -> txl::Result<()> {
        H::character_handler(i, token, c)
    }
    fn unexpanded_expansion_command(
        input: &mut vm::ExecutionInput<VS>,
        token: token::Token,
    ) -> txl::Result<()> {
        H::unexpanded_expansion_command(input, token)
    }
}

pub const WD: &str = "/vh";

pub fn new_vm(files: &[(String, String)], terminal: &[String]) -> Box<vm::VM<VS>> {
    let mut vm = Box::new(vm::VM::<VS>::new_with_built_in_commands(built_ins()));
    init_vm(&mut vm, files, terminal);
    FontComponent::initialize(&mut *vm);
    vm
}

/// (Re)attach the parts that are not serialised: file system, terminal, font tag registration.
pub fn init_vm(vm: &mut vm::VM<VS>, files: &[(String, String)], terminal: &[String]) {
    vm.working_directory = Some(WD.into());
    let mut fs = texlang_common::InMemoryFileSystem::new(std::path::Path::new(WD));
    for (name, content) in files {
        fs.add_string_file(name, content);
    }
    fs.add_bytes_file("fa.mock", &[1]);
    fs.add_bytes_file("fb.mock", &[2]);
    vm.state.fs = Rc::new(RefCell::new(fs));
    let mut term = texlang_common::MockTerminalIn::default();
    for l in terminal {
        term.add_line(l.clone());
    }
    vm.state
        .error_mode
        .set_default_terminal(Rc::new(RefCell::new(term)));
    vm.state
        .prefix
        .register_globally_prefixable_command(texlang_font_tag());
}

fn texlang_font_tag() -> command::Tag {
    texlang_font::get_font::<VS>().cmd().tag().unwrap()
}

/// Does the error carry a source location?  Decided on the structure of the traced error (a trace for the
/// token at fault, for the end of the input, or a non-empty stack of commands being executed); the marker of
/// the present text layout is accepted as well.
pub fn is_located(e: &texlang::error::TracedTexError, rendered: &str) -> bool {
    !e.token_traces.is_empty() || e.end_of_input_trace.is_some() || !e.stack_trace.is_empty() || rendered.contains(">>>")
}

#[derive(Debug, Clone)]
pub enum Outcome {
    Ok,
    /// structured error: (rendered text is non-empty, kind)
    Err { rendered: String, title: String },
    Panic { site: String, msg: String },
    Budget,
}

pub struct RunResult {
    pub toks: Vec<Tok>,
    pub outcome: Outcome,
    pub steps: u64,
}

pub fn take_out() -> Vec<Tok> {
    OUT.with(|o| std::mem::take(&mut *o.borrow_mut()))
}

/// Push `src` as a new source and run the VM until its input is exhausted.
/// A writer the harness can read back after the script component has written to it.
#[derive(Clone, Default)]
pub struct SharedBuf(pub Rc<RefCell<Vec<u8>>>);
impl std::io::Write for SharedBuf {
    fn write(&mut self, b: &[u8]) -> std::io::Result<usize> {
        self.0.borrow_mut().extend_from_slice(b);
        Ok(b.len())
    }
    fn flush(&mut self) -> std::io::Result<()> {
        Ok(())
    }
}

/// Run `src` through texlang-stdlib's own output path (script::run: tokens are written as text, blanks and
/// newlines are owed to the next token); returns what was written.
pub fn run_script(vm: &mut vm::VM<VS>, name: &str, src: &str, budget: u64) -> (String, Outcome) {
    STEPS.with(|s| s.set(0));
    BUDGET.with(|b| b.set(budget));
    crate::util::reset_last_panic();
    let buf = SharedBuf::default();
    script::set_io_writer(vm, buf.clone());
    crate::util::call_begin();
    let r = std::panic::catch_unwind(std::panic::AssertUnwindSafe(|| {
        let _ = vm.push_source(name.to_string(), src.to_string());
        script::run(vm).map_err(|e| (format!("{e}"), e.error.title()))
    }));
    crate::util::call_end();
    BUDGET.with(|b| b.set(u64::MAX));
    let outcome = match r {
        Ok(Ok(())) => Outcome::Ok,
        Ok(Err((rendered, title))) => Outcome::Err { rendered, title },
        Err(payload) => {
            if payload.downcast_ref::<BudgetExceeded>().is_some() {
                Outcome::Budget
            } else {
                let (site, msg) = crate::util::last_panic().unwrap_or(("?".into(), "?".into()));
                Outcome::Panic { site, msg }
            }
        }
    };
    let text = String::from_utf8_lossy(&buf.0.borrow()).to_string();
    (text, outcome)
}

pub fn run_src<HH: vm::Handlers<VS>>(vm: &mut vm::VM<VS>, name: &str, src: &str, budget: u64) -> RunResult {
    OUT.with(|o| o.borrow_mut().clear());
    FIRST_ERR_AT.with(|f| f.set(-1));
    STEPS.with(|s| s.set(0));
    BUDGET.with(|b| b.set(budget));
    crate::util::reset_last_panic();
    // rendering the error is part of what must not panic, so it happens inside the catch
    crate::util::call_begin();
    let r = std::panic::catch_unwind(std::panic::AssertUnwindSafe(|| {
        let _ = vm.push_source(name.to_string(), src.to_string());
        vm.run::<HH>().map_err(|e| {
            let rendered = format!("{e}");
            // the location travels inside the rendered text as a marker line: how an error is laid out is the
            // repository's business, whether it carries a location is decided on the structure
            let mark = if is_located(&e, &rendered) && !rendered.contains(">>>") { "\n >>> (located)" } else { "" };
            (format!("{rendered}{mark}"), e.error.title())
        })
    }));
    crate::util::call_end();
    BUDGET.with(|b| b.set(u64::MAX));
    let outcome = match r {
        Ok(Ok(())) => Outcome::Ok,
        Ok(Err((rendered, title))) => Outcome::Err { rendered, title },
        Err(payload) => {
            if payload.downcast_ref::<BudgetExceeded>().is_some() {
                Outcome::Budget
            } else {
                let (site, msg) = crate::util::last_panic().unwrap_or(("?".into(), "?".into()));
                Outcome::Panic { site, msg }
            }
        }
    };
    RunResult { toks: take_out(), outcome, steps: STEPS.with(|s| s.get()) }
}

/// Render collected tokens as plain text: characters verbatim, others as `<UNDEF:name>` / `<UNEXP:name>`.
pub fn render(toks: &[Tok]) -> String {
    let mut s = String::new();
    for t in toks {
        match t {
            Tok::Char(c, _) => s.push(*c),
            Tok::Undef(n) => {
                s.push_str("<UNDEF:");
                s.push_str(n);
                s.push('>');
            }
            Tok::Unexp(n) => {
                s.push_str("<UNEXP:");
                s.push_str(n);
                s.push('>');
            }
        }
    }
    s
}

#[derive(Clone, Copy, Debug)]
pub enum Format {
    Json,
    MessagePack,
    Bincode,
}

/// Serialise and deserialise the VM (checkpoint).  Err = the round trip itself failed.
pub fn checkpoint(vm: &vm::VM<VS>, fmt: Format, files: &[(String, String)], terminal: &[String]) -> Result<Box<vm::VM<VS>>, String> {
    let mut out: Box<vm::VM<VS>> = match fmt {
        Format::Json => {
            let s = serde_json::to_string(vm).map_err(|e| format!("json ser: {e}"))?;
            let mut d = serde_json::Deserializer::from_str(&s);
            Box::new(vm::VM::deserialize_with_built_in_commands(&mut d, built_ins()).map_err(|e| format!("json de: {e}"))?)
        }
        Format::MessagePack => {
            let s = rmp_serde::to_vec(vm).map_err(|e| format!("msgpack ser: {e}"))?;
            let mut d = rmp_serde::decode::Deserializer::from_read_ref(&s);
            Box::new(vm::VM::deserialize_with_built_in_commands(&mut d, built_ins()).map_err(|e| format!("msgpack de: {e}"))?)
        }
        Format::Bincode => {
            let s = bincode::serde::encode_to_vec(vm, bincode::config::standard()).map_err(|e| format!("bincode ser: {e}"))?;
            let d: Box<vm::serde::DeserializedVM<VS>> = bincode::serde::decode_from_slice(&s, bincode::config::standard())
                .map_err(|e| format!("bincode de: {e}"))?
                .0;
            Box::new(vm::serde::finish_deserialization(d, built_ins()))
        }
    };
    init_vm(&mut out, files, terminal);
    Ok(out)
}
