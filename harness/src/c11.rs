//! C11: TFM <-> PL conversion is an idempotent normalisation that preserves the font.
//!
//! Nothing here decides anything.  The harness
//!   * builds .tfm files (from the abstract fonts TLC prints, from the corpus, from random property
//!     lists through `pl_to_tfm`, and from a raw table synthesiser),
//!   * drives the two converters exactly as the tfm-bin tools do
//!     (`tfm::algorithms::{tfm_to_pl, pl_to_tfm}`), twice,
//!   * cuts every file into its sections with its *own* reader (so the code under test is not its
//!     own witness) and records them, together with the warnings and the byte comparison, as one
//!     ndjson event per font.
//! specs/TfmCanon.tla is the conversion as a design; Trace_TfmCanon.tla judges every event.
//!
//! Abstract font ("raw" shape shared with the spec, see TfmCanon.tla `FromRaw`):
//!   {"hd": [[b0,b1,b2,b3], ...]   header words, "bc": n, "ec": n,
//!    "ci": [[b0,b1,b2,b3], ...]   char_info words of bc..ec,
//!    "w","h","d","i","k","p": [signed 32-bit fix words],
//!    "lk": [[skip_byte,next_char,op_byte,remainder], ...], "e": [[top,mid,bot,rep], ...]}
use crate::util::{catch, quiet_panics, Args, Out, Rng};
use serde_json::{json, Value};
use std::collections::{BTreeMap, BTreeSet};

pub fn dispatch(cmd: &str, args: &Args) -> Option<i32> {
    Some(match cmd {
        "c11-one" => one(args),
        "c11-replay" => replay(args),
        "c11-corpus" => corpus(args),
        "c11-random" => random(args),
        _ => return None,
    })
}

// ------------------------------------------------------------------------------------------
// the harness's own view of a .tfm file: the twelve lengths and the sections, nothing more
// ------------------------------------------------------------------------------------------
#[derive(Clone, Debug, Default, PartialEq)]
pub struct Raw {
    pub hd: Vec<[u8; 4]>,
    pub bc: i64,
    pub ec: i64,
    pub ci: Vec<[u8; 4]>,
    pub w: Vec<i32>,
    pub h: Vec<i32>,
    pub d: Vec<i32>,
    pub i: Vec<i32>,
    pub lk: Vec<[u8; 4]>,
    pub k: Vec<i32>,
    pub e: Vec<[u8; 4]>,
    pub p: Vec<i32>,
}

pub const SECTIONS: [&str; 12] = ["lengths", "header", "char_info", "width", "height", "depth", "italic", "lig_kern", "kern", "exten", "param", "beyond"];

impl Raw {
    /// Cut a file into sections.  None if the twelve lengths are not those of a file of this size.
    pub fn parse(b: &[u8]) -> Option<Raw> {
        if b.len() < 24 || b.len() % 4 != 0 {
            return None;
        }
        let hw = |k: usize| -> usize { ((b[2 * k] as usize) << 8) | b[2 * k + 1] as usize };
        let (lf, lh, bc, ec, nw, nh, nd, ni, nl, nk, ne, np) =
            (hw(0), hw(1), hw(2), hw(3), hw(4), hw(5), hw(6), hw(7), hw(8), hw(9), hw(10), hw(11));
        if lf * 4 != b.len() || bc > ec + 1 || ec > 255 {
            return None;
        }
        let nc = ec + 1 - bc;
        if lf != 6 + lh + nc + nw + nh + nd + ni + nl + nk + ne + np {
            return None;
        }
        let mut pos = 24;
        let mut words = |n: usize| -> Vec<[u8; 4]> {
            let v = (0..n).map(|j| [b[pos + 4 * j], b[pos + 4 * j + 1], b[pos + 4 * j + 2], b[pos + 4 * j + 3]]).collect();
            pos += 4 * n;
            v
        };
        let fix = |v: Vec<[u8; 4]>| -> Vec<i32> { v.into_iter().map(i32::from_be_bytes).collect() };
        let hd = words(lh);
        let ci = words(nc);
        let w = fix(words(nw));
        let h = fix(words(nh));
        let d = fix(words(nd));
        let i = fix(words(ni));
        let lk = words(nl);
        let k = fix(words(nk));
        let e = words(ne);
        let p = fix(words(np));
        Some(Raw { hd, bc: bc as i64, ec: ec as i64, ci, w, h, d, i, lk, k, e, p })
    }

    pub fn bytes(&self) -> Vec<u8> {
        let nc = self.ci.len();
        let lens = [
            6 + self.hd.len() + nc + self.w.len() + self.h.len() + self.d.len() + self.i.len() + self.lk.len() + self.k.len() + self.e.len() + self.p.len(),
            self.hd.len(),
            self.bc as usize,
            self.ec as usize,
            self.w.len(),
            self.h.len(),
            self.d.len(),
            self.i.len(),
            self.lk.len(),
            self.k.len(),
            self.e.len(),
            self.p.len(),
        ];
        let mut b = vec![];
        for l in lens {
            b.push((l >> 8) as u8);
            b.push((l & 255) as u8);
        }
        for x in &self.hd {
            b.extend(x);
        }
        for x in &self.ci {
            b.extend(x);
        }
        for t in [&self.w, &self.h, &self.d, &self.i] {
            for x in t.iter() {
                b.extend(x.to_be_bytes());
            }
        }
        for x in &self.lk {
            b.extend(x);
        }
        for x in &self.k {
            b.extend(x.to_be_bytes());
        }
        for x in &self.e {
            b.extend(x);
        }
        for x in &self.p {
            b.extend(x.to_be_bytes());
        }
        b
    }

    pub fn json(&self) -> Value {
        json!({"hd": self.hd, "bc": self.bc, "ec": self.ec, "ci": self.ci, "w": self.w, "h": self.h, "d": self.d,
               "i": self.i, "lk": self.lk, "k": self.k, "e": self.e, "p": self.p})
    }

    pub fn from_json(v: &Value) -> Raw {
        let words = |k: &str| -> Vec<[u8; 4]> {
            v[k].as_array()
                .map(|a| {
                    a.iter()
                        .map(|w| {
                            let g = |j: usize| w[j].as_i64().unwrap_or(0) as u8;
                            [g(0), g(1), g(2), g(3)]
                        })
                        .collect()
                })
                .unwrap_or_default()
        };
        let fix = |k: &str| -> Vec<i32> {
            v[k].as_array().map(|a| a.iter().map(|x| x.as_i64().unwrap_or(0) as i32).collect()).unwrap_or_default()
        };
        Raw {
            hd: words("hd"),
            bc: v["bc"].as_i64().unwrap_or(1),
            ec: v["ec"].as_i64().unwrap_or(0),
            ci: words("ci"),
            w: fix("w"),
            h: fix("h"),
            d: fix("d"),
            i: fix("i"),
            lk: words("lk"),
            k: fix("k"),
            e: words("e"),
            p: fix("p"),
        }
    }

    /// (section index, name) of byte offset `off`
    pub fn section_of(&self, off: usize) -> (usize, &'static str) {
        let lens = [6, self.hd.len(), self.ci.len(), self.w.len(), self.h.len(), self.d.len(), self.i.len(), self.lk.len(), self.k.len(), self.e.len(), self.p.len()];
        let mut end = 0;
        for (j, l) in lens.iter().enumerate() {
            end += 4 * l;
            if off < end {
                return (j, SECTIONS[j]);
            }
        }
        (11, SECTIONS[11])
    }
}

// ------------------------------------------------------------------------------------------
// the converters, driven as crates/tfm-bin/src/{tftopl,pltotf}.rs drive them
// ------------------------------------------------------------------------------------------
pub struct Step {
    pub pl: Option<String>,     // tfm_to_pl output (None: the reader refused the file)
    pub t_warn: Vec<String>,    // messages of tfm_to_pl
    pub bytes: Option<Vec<u8>>, // pl_to_tfm output
    pub p_warn: Vec<String>,    // messages of pl_to_tfm
    pub panic: Option<(String, String)>,
}

fn first_line(s: &str) -> String {
    s.lines().find(|l| !l.trim().is_empty()).unwrap_or("").trim().chars().take(90).collect()
}

pub fn trip(b: &[u8], fmt: u8) -> Step {
    let mut st = Step { pl: None, t_warn: vec![], bytes: None, p_warn: vec![], panic: None };
    let r = catch(|| {
        tfm::algorithms::tfm_to_pl(b, 3, &|pl_file| {
            // crates/tfm-bin/src/shared.rs, CharcodeFormat::to_display_format
            match fmt % 3 {
                0 => {
                    let s = pl_file.header.character_coding_scheme.clone().unwrap_or_default().to_uppercase();
                    if s.starts_with("TEX MATH SY") || s.starts_with("TEX MATH EX") {
                        tfm::pl::CharDisplayFormat::Octal
                    } else {
                        tfm::pl::CharDisplayFormat::Default
                    }
                }
                1 => tfm::pl::CharDisplayFormat::Ascii,
                _ => tfm::pl::CharDisplayFormat::Octal,
            }
        })
    });
    let out = match r {
        Err(p) => {
            st.panic = Some(p);
            return st;
        }
        Ok(Err(_)) => {
            st.t_warn.push("fmt::Error".into());
            return st;
        }
        Ok(Ok(o)) => o,
    };
    for m in &out.error_messages {
        st.t_warn.push(first_line(&m.tftopl_message()));
    }
    let pl = match out.pl_data {
        Ok(s) => s,
        Err(e) => {
            st.t_warn.push(format!("ERROR {}", first_line(&e.tftopl_message())));
            return st;
        }
    };
    let r = catch(|| {
        let (bytes, warnings) = tfm::algorithms::pl_to_tfm(&pl);
        let msgs: Vec<String> = warnings.iter().map(|w| first_line(&w.pltotf_message(&pl))).collect();
        (bytes, msgs)
    });
    st.pl = Some(pl);
    match r {
        Err(p) => st.panic = Some(p),
        Ok((bytes, msgs)) => {
            st.bytes = Some(bytes);
            st.p_warn = msgs;
        }
    }
    st
}

// ------------------------------------------------------------------------------------------
// lig/kern behaviour of the real code: CompiledProgram::compile_from_tfm_file, queried on pairs
// ------------------------------------------------------------------------------------------
/// item = [0, c] character | [1, c, [originals]] ligature | [2, scaled] kern
fn run_pair(cp: &tfm::ligkern::CompiledProgram, l: i64, r: i64, rbc: Option<u8>) -> Value {
    use tfm::ligkern::{RunItem, RunOptions};
    // l = 256: the left boundary and the word <r>; r = 256: the word <l> followed by the right boundary
    let (word, nl): (Vec<u8>, bool) = if l == 256 {
        (vec![r as u8], false)
    } else if r == 256 {
        (vec![l as u8], true)
    } else {
        (vec![l as u8, r as u8], true)
    };
    let s: String = word.iter().map(|b| *b as char).collect();
    let got = catch(|| {
        let it = cp.run_with_options(
            s.chars(),
            RunOptions {
                disable_left_boundary: nl,
                // inner pairs are observed without right boundary processing: override with a
                // character no instruction can mention is not expressible, so the font's own
                // boundary char stays in effect and the spec is told (field "bc" below)
                right_boundary_override: None,
            },
        );
        let mut out = vec![];
        for x in it.take(64) {
            out.push(match x {
                RunItem::Char(c) => json!([0, c as u32]),
                RunItem::Ligature(lg) => {
                    let o: Vec<u32> = lg.original.chars().map(|c| c as u32).collect();
                    json!([1, lg.c as u32, o])
                }
                RunItem::Kern(k) => json!([2, k.0]),
            });
        }
        out
    });
    let _ = rbc;
    match got {
        Ok(o) => json!(o),
        Err((site, msg)) => json!({"panic": [site, msg]}),
    }
}

fn compile(bytes: &[u8]) -> Result<tfm::ligkern::CompiledProgram, String> {
    let r = catch(|| {
        let (f, _w) = tfm::File::deserialize(bytes);
        match f {
            Ok(mut f) => {
                // what a TeX-like consumer does before using a font (texlang-font, boxworks-text)
                let _ = f.validate_and_fix();
                let (cp, errs) = tfm::ligkern::CompiledProgram::compile_from_tfm_file(&mut f);
                Ok((cp, errs.len()))
            }
            Err(e) => Err(format!("{e:?}")),
        }
    });
    match r {
        Ok(Ok((cp, _))) => Ok(cp),
        Ok(Err(e)) => Err(e),
        Err((s, m)) => Err(format!("panic {s}: {m}")),
    }
}

// ------------------------------------------------------------------------------------------
// pair sample: every pair that has an instruction in either file (found by walking the raw chains
// exactly as far as needed to *enumerate candidates* -- a superset is harmless, the spec decides
// what each pair means) plus a seeded sample of other pairs
// ------------------------------------------------------------------------------------------
fn chain_pairs(r: &Raw, cap: usize) -> BTreeSet<(i64, i64)> {
    let mut s = BTreeSet::new();
    let n = r.lk.len();
    if n == 0 {
        return s;
    }
    let mut starts: Vec<(i64, usize)> = vec![];
    for (j, w) in r.ci.iter().enumerate() {
        if w[2] % 4 == 1 {
            let mut e = w[3] as usize;
            if e < n && r.lk[e][0] > 128 {
                e = 256 * r.lk[e][2] as usize + r.lk[e][3] as usize;
            }
            starts.push((r.bc + j as i64, e));
        }
    }
    if r.lk[n - 1][0] == 255 {
        starts.push((256, 256 * r.lk[n - 1][2] as usize + r.lk[n - 1][3] as usize));
    }
    for (l, mut e) in starts {
        let mut steps = 0;
        while e < n && steps < 1000 {
            let w = r.lk[e];
            if w[0] > 128 {
                break;
            }
            s.insert((l, w[1] as i64));
            if w[0] >= 128 {
                break;
            }
            e += w[0] as usize + 1;
            steps += 1;
        }
        if s.len() > cap {
            break;
        }
    }
    s
}

fn exist_chars(r: &Raw) -> Vec<i64> {
    r.ci.iter().enumerate().filter(|(_, w)| w[0] != 0).map(|(j, _)| r.bc + j as i64).collect()
}

/// The pairs on which behaviour is compared.  small font: every (l, r) with l, r among the existing
/// characters (plus both boundaries).  big font: all pairs with an instruction in b0 or b1 (capped)
/// plus `extra` seeded pairs.  Returns (pairs, how they were chosen).
fn choose_pairs(r0: &Raw, r1: Option<&Raw>, rng: &mut Rng, small_limit: usize, cap: usize, extra: usize) -> (Vec<(i64, i64)>, Value) {
    let mut chars: BTreeSet<i64> = exist_chars(r0).into_iter().collect();
    if let Some(r1) = r1 {
        chars.extend(exist_chars(r1));
    }
    let mut with_ins = chain_pairs(r0, cap);
    if let Some(r1) = r1 {
        with_ins.extend(chain_pairs(r1, cap));
    }
    // characters only mentioned in instructions take part too
    let mut universe: BTreeSet<i64> = chars.clone();
    for (l, r) in &with_ins {
        if *l < 256 {
            universe.insert(*l);
        }
        universe.insert(*r);
    }
    let uni: Vec<i64> = universe.iter().copied().collect();
    let mut pairs: BTreeSet<(i64, i64)> = BTreeSet::new();
    let how;
    if uni.len() <= small_limit {
        for &l in uni.iter().chain([256].iter()) {
            for &r in uni.iter().chain([256].iter()) {
                if l == 256 && r == 256 {
                    continue;
                }
                pairs.insert((l, r));
            }
        }
        how = json!({"mode": "all", "chars": uni.len(), "pairs": pairs.len(), "with_instruction": with_ins.len()});
    } else {
        let mut n_ins = 0;
        let all: Vec<(i64, i64)> = with_ins.iter().copied().collect();
        if all.len() <= cap {
            for p in &all {
                pairs.insert(*p);
                n_ins += 1;
            }
        } else {
            // too many: a seeded subset of `cap`
            while pairs.len() < cap {
                pairs.insert(all[rng.below(all.len() as u64) as usize]);
            }
            n_ins = pairs.len();
        }
        let before = pairs.len();
        let mut guard = 0;
        while pairs.len() < before + extra && guard < 20 * extra {
            guard += 1;
            let l = if rng.chance(1, 12) { 256 } else { uni[rng.below(uni.len() as u64) as usize] };
            let r = if rng.chance(1, 12) { 256 } else if rng.chance(1, 10) { rng.below(256) as i64 } else { uni[rng.below(uni.len() as u64) as usize] };
            if l == 256 && r == 256 {
                continue;
            }
            pairs.insert((l, r));
        }
        how = json!({"mode": "sample", "chars": uni.len(), "pairs": pairs.len(), "with_instruction_total": with_ins.len(),
                     "with_instruction_taken": n_ins, "seeded_extra": pairs.len() - before});
    }
    (pairs.into_iter().collect(), how)
}

// ------------------------------------------------------------------------------------------
// one event per font
// ------------------------------------------------------------------------------------------
pub struct EvOpts {
    pub small_limit: usize,
    pub cap: usize,
    pub extra: usize,
    pub runs: usize, // how many of the pairs are also run on the real compiled programs
    pub fmt: u8,
    pub keep_pl: bool,
}

fn first_diff(a: &[u8], b: &[u8]) -> Option<usize> {
    if a == b {
        return None;
    }
    let n = a.len().min(b.len());
    Some((0..n).find(|&j| a[j] != b[j]).unwrap_or(n))
}

pub fn event(src: &str, b0: &[u8], rng: &mut Rng, o: &EvOpts) -> Value {
    let mut ev = serde_json::Map::new();
    ev.insert("src".into(), json!(src));
    ev.insert("len0".into(), json!(b0.len()));
    let r0 = Raw::parse(b0);
    let s1 = trip(b0, o.fmt);
    ev.insert("w1".into(), json!([s1.t_warn, s1.p_warn]));
    if let Some(p) = &s1.panic {
        ev.insert("panic".into(), json!([1, p.0, p.1]));
    }
    if o.keep_pl {
        ev.insert("pl1".into(), json!(s1.pl));
    }
    let r0 = match r0 {
        Some(r) => r,
        None => {
            // not a file the harness's reader can cut into sections: only the protocol is recorded
            return Value::Object(ev);
        }
    };
    ev.insert("f0".into(), r0.json());
    let b1 = match &s1.bytes {
        Some(b) => b.clone(),
        None => return Value::Object(ev),
    };
    let r1 = Raw::parse(&b1);
    ev.insert("len1".into(), json!(b1.len()));
    if let Some(r) = &r1 {
        ev.insert("f1".into(), r.json());
    }
    let s2 = trip(&b1, o.fmt);
    ev.insert("w2".into(), json!([s2.t_warn, s2.p_warn]));
    if let Some(p) = &s2.panic {
        ev.insert("panic".into(), json!([2, p.0, p.1]));
    }
    if let Some(b2) = &s2.bytes {
        ev.insert("len2".into(), json!(b2.len()));
        match first_diff(&b1, b2) {
            None => {
                ev.insert("eq".into(), json!(1));
            }
            Some(off) => {
                ev.insert("eq".into(), json!(0));
                let sec = r1.as_ref().map(|r| r.section_of(off).1).unwrap_or("?");
                ev.insert("diff".into(), json!({"off": off, "section": sec, "b1": b1.get(off), "b2": b2.get(off)}));
                if let Some(r) = Raw::parse(b2) {
                    ev.insert("f2".into(), r.json());
                }
            }
        }
        if let (Some(p1), Some(p2)) = (&s1.pl, &s2.pl) {
            ev.insert("pleq".into(), json!((p1 == p2) as u8));
        }
    }
    // pairs
    let (pairs, how) = choose_pairs(&r0, r1.as_ref(), rng, o.small_limit, o.cap, o.extra);
    ev.insert("how".into(), how);
    // the real compiled programs of both files on (a prefix-independent, seeded subset of) the pairs
    let mut runs = vec![];
    if o.runs > 0 && !pairs.is_empty() {
        let c0 = compile(b0);
        let c1 = compile(&b1);
        match (&c0, &c1) {
            (Ok(c0), Ok(c1)) => {
                let idx: Vec<usize> = if pairs.len() <= o.runs {
                    (0..pairs.len()).collect()
                } else {
                    let mut s = BTreeSet::new();
                    while s.len() < o.runs {
                        s.insert(rng.below(pairs.len() as u64) as usize);
                    }
                    s.into_iter().collect()
                };
                for j in idx {
                    let (l, r) = pairs[j];
                    // the compiled program works on `char`s that exist as u8
                    runs.push(json!({"l": l, "r": r, "o0": run_pair(c0, l, r, None), "o1": run_pair(c1, l, r, None)}));
                }
            }
            _ => {
                ev.insert("compile_err".into(), json!([c0.err(), c1.err()]));
            }
        }
    }
    ev.insert("pairs".into(), json!(pairs.iter().map(|(l, r)| vec![*l, *r]).collect::<Vec<_>>()));
    ev.insert("runs".into(), json!(runs));
    Value::Object(ev)
}

// ------------------------------------------------------------------------------------------
// c11-one: a single font (a .tfm file, a .pl file converted first, or an abstract font as JSON)
// ------------------------------------------------------------------------------------------
fn load_input(args: &Args) -> (String, Vec<u8>) {
    if let Some(p) = args.str("tfm") {
        return (p.to_string(), std::fs::read(p).expect("read tfm"));
    }
    if let Some(p) = args.str("pl") {
        let s = std::fs::read_to_string(p).expect("read pl");
        let (b, _) = tfm::algorithms::pl_to_tfm(&s);
        return (p.to_string(), b);
    }
    let p = args.req("font");
    let v: Value = serde_json::from_str(&std::fs::read_to_string(p).expect("read font")).expect("json");
    let f = if v.get("f0").is_some() { &v["f0"] } else if v.get("event").is_some() { &v["event"]["f0"] } else { &v };
    (p.to_string(), Raw::from_json(f).bytes())
}

fn one(args: &Args) -> i32 {
    quiet_panics();
    let (src, b0) = load_input(args);
    let mut rng = Rng::new(args.num("seed", 1));
    let o = opts(args);
    let ev = event(&src, &b0, &mut rng, &o);
    if let Some(p) = args.str("show") {
        if p == "pl" {
            let s = trip(&b0, o.fmt);
            println!("{}", s.pl.unwrap_or_default());
            eprintln!("tfm_to_pl: {:?}\npl_to_tfm: {:?} panic {:?}", s.t_warn, s.p_warn, s.panic);
            return 0;
        }
    }
    let mut out = Out::new(args.str("out"));
    out.line(&ev);
    0
}

fn replay(_args: &Args) -> i32 {
    2
}
/// every .tfm under crates/ of the repository, and every .pl/.plst converted by pl_to_tfm first
fn corpus(args: &Args) -> i32 {
    quiet_panics();
    let root = format!("{}/crates", env!("VH_REPO"));
    let mut files = vec![];
    walk(std::path::Path::new(&root), &mut files);
    let mut rng = Rng::new(args.num("seed", 1));
    let o = opts(args);
    let mut out = Out::new(args.str("out"));
    let mut stats = serde_json::Map::new();
    let mut bump = |k: &str| {
        let e = stats.entry(k.to_string()).or_insert(json!(0));
        *e = json!(e.as_i64().unwrap() + 1);
    };
    for p in files {
        let ext = p.extension().and_then(|e| e.to_str()).unwrap_or("");
        let name = p.strip_prefix(&root).unwrap().display().to_string();
        let b0 = match ext {
            "tfm" => match std::fs::read(&p) {
                Ok(b) => b,
                Err(_) => continue,
            },
            "pl" | "plst" => {
                let s = match std::fs::read_to_string(&p) {
                    Ok(s) => s,
                    Err(_) => continue,
                };
                match catch(|| tfm::algorithms::pl_to_tfm(&s).0) {
                    Ok(b) => b,
                    Err(_) => {
                        bump("pl_panics");
                        continue;
                    }
                }
            }
            _ => continue,
        };
        bump(if ext == "tfm" { "tfm_files" } else { "pl_files" });
        let ev = event(&name, &b0, &mut rng, &o);
        if ev["w1"][0].as_array().map(|a| !a.is_empty()).unwrap_or(false) || ev["w1"][1].as_array().map(|a| !a.is_empty()).unwrap_or(false) {
            bump("with_warnings");
        }
        out.line(&ev);
    }
    out.flush();
    eprintln!("{}", Value::Object(stats));
    0
}

fn walk(dir: &std::path::Path, out: &mut Vec<std::path::PathBuf>) {
    let mut entries: Vec<_> = match std::fs::read_dir(dir) {
        Ok(rd) => rd.filter_map(|e| e.ok()).map(|e| e.path()).collect(),
        Err(_) => return,
    };
    entries.sort();
    for p in entries {
        if p.is_dir() {
            if p.file_name().and_then(|n| n.to_str()) == Some("target") {
                continue;
            }
            walk(&p, out);
        } else {
            out.push(p);
        }
    }
}

fn opts(args: &Args) -> EvOpts {
    EvOpts {
        small_limit: args.num("small", 24),
        cap: args.num("cap", 4000),
        extra: args.num("extra", 200),
        runs: args.num("runs", 300),
        fmt: args.num("fmt", 0),
        keep_pl: args.str("pl1").is_some(),
    }
}
fn random(_args: &Args) -> i32 {
    2
}
#[allow(unused)]
fn unused(_: BTreeMap<u8, u8>) {}
