//! C11: TFM <-> PL conversion is an idempotent normalisation that preserves the font.
//!
//! Nothing here decides anything.  The harness
//!   * builds .tfm files (from the abstract fonts TLC prints, from the corpus, from random property
//!     lists through `pl_to_tfm`, and from a raw table synthesiser),
//!   * drives the two converters exactly as the tfm-bin tools do
//!     (`tfm::algorithms::{tfm_to_pl, pl_to_tfm}`), twice,
//!   * cuts every file into its sections with its *own* reader (so the code under test is not its
//!     own witness) and records them, together with the warnings and the byte comparison, as one
//!     ndjson event per font.
//! specs/TfmCanon.tla is the conversion as a design; Trace_TfmCanon.tla judges every event.
//!
//! Abstract font ("raw" shape shared with the spec, see TfmCanon.tla `FromRaw`):
//!   {"hd": [[b0,b1,b2,b3], ...]   header words, "bc": n, "ec": n,
//!    "ci": [[b0,b1,b2,b3], ...]   char_info words of bc..ec,
//!    "w","h","d","i","k","p": [signed 32-bit fix words],
//!    "lk": [[skip_byte,next_char,op_byte,remainder], ...], "e": [[top,mid,bot,rep], ...]}
use crate::util::{catch, quiet_panics, Args, Out, Rng};
use serde_json::{json, Value};
use std::collections::{BTreeMap, BTreeSet};

pub fn dispatch(cmd: &str, args: &Args) -> Option<i32> {
    Some(match cmd {
        "c11-one" => one(args),
        "c11-replay" => replay(args),
        "c11-corpus" => corpus(args),
        "c11-random" => random(args),
        _ => return None,
    })
}

// ------------------------------------------------------------------------------------------
// the harness's own view of a .tfm file: the twelve lengths and the sections, nothing more
// ------------------------------------------------------------------------------------------
#[derive(Clone, Debug, Default, PartialEq)]
pub struct Raw {
    pub hd: Vec<[u8; 4]>,
    pub bc: i64,
    pub ec: i64,
    pub ci: Vec<[u8; 4]>,
    pub w: Vec<i32>,
    pub h: Vec<i32>,
    pub d: Vec<i32>,
    pub i: Vec<i32>,
    pub lk: Vec<[u8; 4]>,
    pub k: Vec<i32>,
    pub e: Vec<[u8; 4]>,
    pub p: Vec<i32>,
}

pub const SECTIONS: [&str; 12] = ["lengths", "header", "char_info", "width", "height", "depth", "italic", "lig_kern", "kern", "exten", "param", "beyond"];

impl Raw {
    /// Cut a file into sections.  None if the twelve lengths are not those of a file of this size.
    pub fn parse(b: &[u8]) -> Option<Raw> {
        if b.len() < 24 || b.len() % 4 != 0 {
            return None;
        }
        let hw = |k: usize| -> usize { ((b[2 * k] as usize) << 8) | b[2 * k + 1] as usize };
        let (lf, lh, bc, ec, nw, nh, nd, ni, nl, nk, ne, np) =
            (hw(0), hw(1), hw(2), hw(3), hw(4), hw(5), hw(6), hw(7), hw(8), hw(9), hw(10), hw(11));
        if lf * 4 != b.len() || bc > ec + 1 || ec > 255 {
            return None;
        }
        let nc = ec + 1 - bc;
        if lf != 6 + lh + nc + nw + nh + nd + ni + nl + nk + ne + np {
            return None;
        }
        let mut pos = 24;
        let mut words = |n: usize| -> Vec<[u8; 4]> {
            let v = (0..n).map(|j| [b[pos + 4 * j], b[pos + 4 * j + 1], b[pos + 4 * j + 2], b[pos + 4 * j + 3]]).collect();
            pos += 4 * n;
            v
        };
        let fix = |v: Vec<[u8; 4]>| -> Vec<i32> { v.into_iter().map(i32::from_be_bytes).collect() };
        let hd = words(lh);
        let ci = words(nc);
        let w = fix(words(nw));
        let h = fix(words(nh));
        let d = fix(words(nd));
        let i = fix(words(ni));
        let lk = words(nl);
        let k = fix(words(nk));
        let e = words(ne);
        let p = fix(words(np));
        Some(Raw { hd, bc: bc as i64, ec: ec as i64, ci, w, h, d, i, lk, k, e, p })
    }

    pub fn bytes(&self) -> Vec<u8> {
        let nc = self.ci.len();
        let lens = [
            6 + self.hd.len() + nc + self.w.len() + self.h.len() + self.d.len() + self.i.len() + self.lk.len() + self.k.len() + self.e.len() + self.p.len(),
            self.hd.len(),
            self.bc as usize,
            self.ec as usize,
            self.w.len(),
            self.h.len(),
            self.d.len(),
            self.i.len(),
            self.lk.len(),
            self.k.len(),
            self.e.len(),
            self.p.len(),
        ];
        let mut b = vec![];
        for l in lens {
            b.push((l >> 8) as u8);
            b.push((l & 255) as u8);
        }
        for x in &self.hd {
            b.extend(x);
        }
        for x in &self.ci {
            b.extend(x);
        }
        for t in [&self.w, &self.h, &self.d, &self.i] {
            for x in t.iter() {
                b.extend(x.to_be_bytes());
            }
        }
        for x in &self.lk {
            b.extend(x);
        }
        for x in &self.k {
            b.extend(x.to_be_bytes());
        }
        for x in &self.e {
            b.extend(x);
        }
        for x in &self.p {
            b.extend(x.to_be_bytes());
        }
        b
    }

    pub fn json(&self) -> Value {
        json!({"hd": self.hd, "bc": self.bc, "ec": self.ec, "ci": self.ci, "w": self.w, "h": self.h, "d": self.d,
               "i": self.i, "lk": self.lk, "k": self.k, "e": self.e, "p": self.p})
    }

    pub fn from_json(v: &Value) -> Raw {
        let words = |k: &str| -> Vec<[u8; 4]> {
            v[k].as_array()
                .map(|a| {
                    a.iter()
                        .map(|w| {
                            let g = |j: usize| w[j].as_i64().unwrap_or(0) as u8;
                            [g(0), g(1), g(2), g(3)]
                        })
                        .collect()
                })
                .unwrap_or_default()
        };
        let fix = |k: &str| -> Vec<i32> {
            v[k].as_array().map(|a| a.iter().map(|x| x.as_i64().unwrap_or(0) as i32).collect()).unwrap_or_default()
        };
        Raw {
            hd: words("hd"),
            bc: v["bc"].as_i64().unwrap_or(1),
            ec: v["ec"].as_i64().unwrap_or(0),
            ci: words("ci"),
            w: fix("w"),
            h: fix("h"),
            d: fix("d"),
            i: fix("i"),
            lk: words("lk"),
            k: fix("k"),
            e: words("e"),
            p: fix("p"),
        }
    }

    /// (section index, name) of byte offset `off`
    pub fn section_of(&self, off: usize) -> (usize, &'static str) {
        let lens = [6, self.hd.len(), self.ci.len(), self.w.len(), self.h.len(), self.d.len(), self.i.len(), self.lk.len(), self.k.len(), self.e.len(), self.p.len()];
        let mut end = 0;
        for (j, l) in lens.iter().enumerate() {
            end += 4 * l;
            if off < end {
                return (j, SECTIONS[j]);
            }
        }
        (11, SECTIONS[11])
    }
}

// ------------------------------------------------------------------------------------------
// the converters, driven as crates/tfm-bin/src/{tftopl,pltotf}.rs drive them
// ------------------------------------------------------------------------------------------
pub struct Step {
    pub pl: Option<String>,     // tfm_to_pl output (None: the reader refused the file)
    pub t_warn: Vec<String>,    // messages of tfm_to_pl
    pub bytes: Option<Vec<u8>>, // pl_to_tfm output
    pub p_warn: Vec<String>,    // messages of pl_to_tfm
    pub panic: Option<(String, String)>,
}

fn first_line(s: &str) -> String {
    s.lines().find(|l| !l.trim().is_empty()).unwrap_or("").trim().chars().take(90).collect()
}

pub fn trip(b: &[u8], fmt: u8) -> Step {
    let mut st = Step { pl: None, t_warn: vec![], bytes: None, p_warn: vec![], panic: None };
    let r = catch(|| {
        tfm::algorithms::tfm_to_pl(b, 3, &|pl_file| {
            // crates/tfm-bin/src/shared.rs, CharcodeFormat::to_display_format
            match fmt % 3 {
                0 => {
                    let s = pl_file.header.character_coding_scheme.clone().unwrap_or_default().to_uppercase();
                    if s.starts_with("TEX MATH SY") || s.starts_with("TEX MATH EX") {
                        tfm::pl::CharDisplayFormat::Octal
                    } else {
                        tfm::pl::CharDisplayFormat::Default
                    }
                }
                1 => tfm::pl::CharDisplayFormat::Ascii,
                _ => tfm::pl::CharDisplayFormat::Octal,
            }
        })
    });
    let out = match r {
        Err(p) => {
            st.panic = Some(p);
            return st;
        }
        Ok(Err(_)) => {
            st.t_warn.push("fmt::Error".into());
            return st;
        }
        Ok(Ok(o)) => o,
    };
    for m in &out.error_messages {
        st.t_warn.push(first_line(&m.tftopl_message()));
    }
    let pl = match out.pl_data {
        Ok(s) => s,
        Err(e) => {
            st.t_warn.push(format!("ERROR {}", first_line(&e.tftopl_message())));
            return st;
        }
    };
    let r = catch(|| {
        let (bytes, warnings) = tfm::algorithms::pl_to_tfm(&pl);
        let msgs: Vec<String> = warnings.iter().map(|w| first_line(&w.pltotf_message(&pl))).collect();
        (bytes, msgs)
    });
    st.pl = Some(pl);
    match r {
        Err(p) => st.panic = Some(p),
        Ok((bytes, msgs)) => {
            st.bytes = Some(bytes);
            st.p_warn = msgs;
        }
    }
    st
}

// ------------------------------------------------------------------------------------------
// lig/kern behaviour of the real code: CompiledProgram::compile_from_tfm_file, queried on pairs
// ------------------------------------------------------------------------------------------
/// item = [0, c] character | [1, c, [originals]] ligature | [2, scaled] kern
fn run_pair(cp: &tfm::ligkern::CompiledProgram, l: i64, r: i64, rbc: Option<u8>) -> Value {
    use tfm::ligkern::{RunItem, RunOptions};
    // l = 256: the left boundary and the word <r>; r = 256: the word <l> followed by the right boundary
    let (word, nl): (Vec<u8>, bool) = if l == 256 {
        (vec![r as u8], false)
    } else if r == 256 {
        (vec![l as u8], true)
    } else {
        (vec![l as u8, r as u8], true)
    };
    let s: String = word.iter().map(|b| *b as char).collect();
    let got = catch(|| {
        let it = cp.run_with_options(
            s.chars(),
            RunOptions {
                disable_left_boundary: nl,
                // inner pairs are observed without right boundary processing: override with a
                // character no instruction can mention is not expressible, so the font's own
                // boundary char stays in effect and the spec is told (field "bc" below)
                right_boundary_override: None,
            },
        );
        let mut out = vec![];
        for x in it.take(64) {
            out.push(match x {
                RunItem::Char(c) => json!([0, c as u32]),
                RunItem::Ligature(lg) => {
                    let o: Vec<u32> = lg.original.chars().map(|c| c as u32).collect();
                    json!([1, lg.c as u32, o])
                }
                RunItem::Kern(k) => json!([2, k.0]),
            });
        }
        out
    });
    let _ = rbc;
    match got {
        Ok(o) => json!(o),
        Err((site, msg)) => json!({"panic": [site, msg]}),
    }
}

fn compile(bytes: &[u8]) -> Result<tfm::ligkern::CompiledProgram, String> {
    let r = catch(|| {
        let (f, _w) = tfm::File::deserialize(bytes);
        match f {
            Ok(mut f) => {
                // what a TeX-like consumer does before using a font (texlang-font, boxworks-text)
                let _ = f.validate_and_fix();
                let (cp, errs) = tfm::ligkern::CompiledProgram::compile_from_tfm_file(&mut f);
                Ok((cp, errs.len()))
            }
            Err(e) => Err(format!("{e:?}")),
        }
    });
    match r {
        Ok(Ok((cp, _))) => Ok(cp),
        Ok(Err(e)) => Err(e),
        Err((s, m)) => Err(format!("panic {s}: {m}")),
    }
}

// ------------------------------------------------------------------------------------------
// pair sample: every pair that has an instruction in either file (found by walking the raw chains
// exactly as far as needed to *enumerate candidates* -- a superset is harmless, the spec decides
// what each pair means) plus a seeded sample of other pairs
// ------------------------------------------------------------------------------------------
fn chain_pairs(r: &Raw, cap: usize) -> BTreeSet<(i64, i64)> {
    let mut s = BTreeSet::new();
    let n = r.lk.len();
    if n == 0 {
        return s;
    }
    let mut starts: Vec<(i64, usize)> = vec![];
    for (j, w) in r.ci.iter().enumerate() {
        if w[2] % 4 == 1 {
            let mut e = w[3] as usize;
            if e < n && r.lk[e][0] > 128 {
                e = 256 * r.lk[e][2] as usize + r.lk[e][3] as usize;
            }
            starts.push((r.bc + j as i64, e));
        }
    }
    if r.lk[n - 1][0] == 255 {
        starts.push((256, 256 * r.lk[n - 1][2] as usize + r.lk[n - 1][3] as usize));
    }
    for (l, mut e) in starts {
        let mut steps = 0;
        while e < n && steps < 1000 {
            let w = r.lk[e];
            if w[0] > 128 {
                break;
            }
            s.insert((l, w[1] as i64));
            if w[0] >= 128 {
                break;
            }
            e += w[0] as usize + 1;
            steps += 1;
        }
        if s.len() > cap {
            break;
        }
    }
    s
}

fn exist_chars(r: &Raw) -> Vec<i64> {
    r.ci.iter().enumerate().filter(|(_, w)| w[0] != 0).map(|(j, _)| r.bc + j as i64).collect()
}

/// The pairs on which behaviour is compared.  small font: every (l, r) with l, r among the existing
/// characters (plus both boundaries).  big font: all pairs with an instruction in b0 or b1 (capped)
/// plus `extra` seeded pairs.  Returns (pairs, how they were chosen).
fn choose_pairs(r0: &Raw, r1: Option<&Raw>, rng: &mut Rng, small_limit: usize, cap: usize, extra: usize) -> (Vec<(i64, i64)>, Value) {
    let mut chars: BTreeSet<i64> = exist_chars(r0).into_iter().collect();
    if let Some(r1) = r1 {
        chars.extend(exist_chars(r1));
    }
    let mut with_ins = chain_pairs(r0, cap);
    if let Some(r1) = r1 {
        with_ins.extend(chain_pairs(r1, cap));
    }
    // characters only mentioned in instructions take part too
    let mut universe: BTreeSet<i64> = chars.clone();
    for (l, r) in &with_ins {
        if *l < 256 {
            universe.insert(*l);
        }
        universe.insert(*r);
    }
    let uni: Vec<i64> = universe.iter().copied().collect();
    let mut pairs: BTreeSet<(i64, i64)> = BTreeSet::new();
    let how;
    if uni.len() <= small_limit {
        for &l in uni.iter().chain([256].iter()) {
            for &r in uni.iter().chain([256].iter()) {
                if l == 256 && r == 256 {
                    continue;
                }
                pairs.insert((l, r));
            }
        }
        how = json!({"mode": "all", "chars": uni.len(), "pairs": pairs.len(), "with_instruction": with_ins.len()});
    } else {
        let mut n_ins = 0;
        let all: Vec<(i64, i64)> = with_ins.iter().copied().collect();
        if all.len() <= cap {
            for p in &all {
                pairs.insert(*p);
                n_ins += 1;
            }
        } else {
            // too many: a seeded subset of `cap`
            while pairs.len() < cap {
                pairs.insert(all[rng.below(all.len() as u64) as usize]);
            }
            n_ins = pairs.len();
        }
        let before = pairs.len();
        let mut guard = 0;
        while pairs.len() < before + extra && guard < 20 * extra {
            guard += 1;
            let l = if rng.chance(1, 12) { 256 } else { uni[rng.below(uni.len() as u64) as usize] };
            let r = if rng.chance(1, 12) { 256 } else if rng.chance(1, 10) { rng.below(256) as i64 } else { uni[rng.below(uni.len() as u64) as usize] };
            if l == 256 && r == 256 {
                continue;
            }
            pairs.insert((l, r));
        }
        how = json!({"mode": "sample", "chars": uni.len(), "pairs": pairs.len(), "with_instruction_total": with_ins.len(),
                     "with_instruction_taken": n_ins, "seeded_extra": pairs.len() - before});
    }
    (pairs.into_iter().collect(), how)
}

// ------------------------------------------------------------------------------------------
// one event per font
// ------------------------------------------------------------------------------------------
pub struct EvOpts {
    pub small_limit: usize,
    pub cap: usize,
    pub extra: usize,
    pub runs: usize, // how many of the pairs are also run on the real compiled programs
    pub fmt: u8,
    pub keep_pl: bool,
}

fn first_diff(a: &[u8], b: &[u8]) -> Option<usize> {
    if a == b {
        return None;
    }
    let n = a.len().min(b.len());
    Some((0..n).find(|&j| a[j] != b[j]).unwrap_or(n))
}

pub fn event(src: &str, b0: &[u8], rng: &mut Rng, o: &EvOpts) -> Value {
    let mut ev = serde_json::Map::new();
    ev.insert("src".into(), json!(src));
    ev.insert("len0".into(), json!(b0.len()));
    let r0 = Raw::parse(b0);
    let s1 = trip(b0, o.fmt);
    ev.insert("w1".into(), json!([s1.t_warn, s1.p_warn]));
    if let Some(p) = &s1.panic {
        ev.insert("panic".into(), json!([1, p.0, p.1]));
    }
    if o.keep_pl {
        ev.insert("pl1".into(), json!(s1.pl));
    }
    let r0 = match r0 {
        Some(r) => r,
        None => {
            // not a file the harness's reader can cut into sections: only the protocol is recorded
            return Value::Object(ev);
        }
    };
    ev.insert("f0".into(), r0.json());
    let b1 = match &s1.bytes {
        Some(b) => b.clone(),
        None => return Value::Object(ev),
    };
    let r1 = Raw::parse(&b1);
    ev.insert("len1".into(), json!(b1.len()));
    if let Some(r) = &r1 {
        ev.insert("f1".into(), r.json());
    }
    let s2 = trip(&b1, o.fmt);
    ev.insert("w2".into(), json!([s2.t_warn, s2.p_warn]));
    if let Some(p) = &s2.panic {
        ev.insert("panic".into(), json!([2, p.0, p.1]));
    }
    if let Some(b2) = &s2.bytes {
        ev.insert("len2".into(), json!(b2.len()));
        match first_diff(&b1, b2) {
            None => {
                ev.insert("eq".into(), json!(1));
            }
            Some(off) => {
                ev.insert("eq".into(), json!(0));
                let sec = r1.as_ref().map(|r| r.section_of(off).1).unwrap_or("?");
                ev.insert("diff".into(), json!({"off": off, "section": sec, "b1": b1.get(off), "b2": b2.get(off)}));
                if let Some(r) = Raw::parse(b2) {
                    ev.insert("f2".into(), r.json());
                }
            }
        }
        if let (Some(p1), Some(p2)) = (&s1.pl, &s2.pl) {
            ev.insert("pleq".into(), json!((p1 == p2) as u8));
        }
    }
    // pairs
    let (pairs, how) = choose_pairs(&r0, r1.as_ref(), rng, o.small_limit, o.cap, o.extra);
    ev.insert("how".into(), how);
    // the real compiled programs of both files on (a prefix-independent, seeded subset of) the pairs
    let mut runs = vec![];
    if o.runs > 0 && !pairs.is_empty() {
        let c0 = compile(b0);
        let c1 = compile(&b1);
        match (&c0, &c1) {
            (Ok(c0), Ok(c1)) => {
                let idx: Vec<usize> = if pairs.len() <= o.runs {
                    (0..pairs.len()).collect()
                } else {
                    let mut s = BTreeSet::new();
                    while s.len() < o.runs {
                        s.insert(rng.below(pairs.len() as u64) as usize);
                    }
                    s.into_iter().collect()
                };
                // TeX only typesets characters that exist: the observation is restricted to them
                let ex0: BTreeSet<i64> = exist_chars(&r0).into_iter().collect();
                for j in idx {
                    let (l, r) = pairs[j];
                    if (l != 256 && !ex0.contains(&l)) || (r != 256 && !ex0.contains(&r)) {
                        continue;
                    }
                    // the compiled program works on `char`s that exist as u8
                    runs.push(json!({"l": l, "r": r, "o0": run_pair(c0, l, r, None), "o1": run_pair(c1, l, r, None)}));
                }
            }
            _ => {
                ev.insert("compile_err".into(), json!([c0.err(), c1.err()]));
            }
        }
    }
    ev.insert("pairs".into(), json!(pairs.iter().map(|(l, r)| vec![*l, *r]).collect::<Vec<_>>()));
    ev.insert("runs".into(), json!(runs));
    Value::Object(ev)
}

// ------------------------------------------------------------------------------------------
// c11-one: a single font (a .tfm file, a .pl file converted first, or an abstract font as JSON)
// ------------------------------------------------------------------------------------------
fn load_input(args: &Args) -> (String, Vec<u8>) {
    if let Some(p) = args.str("tfm") {
        return (p.to_string(), std::fs::read(p).expect("read tfm"));
    }
    if let Some(p) = args.str("pl") {
        let s = std::fs::read_to_string(p).expect("read pl");
        let (b, _) = tfm::algorithms::pl_to_tfm(&s);
        return (p.to_string(), b);
    }
    let p = args.req("font");
    let v: Value = serde_json::from_str(&std::fs::read_to_string(p).expect("read font")).expect("json");
    let f = if v.get("f0").is_some() { &v["f0"] } else if v.get("event").is_some() { &v["event"]["f0"] } else { &v };
    (p.to_string(), Raw::from_json(f).bytes())
}

fn one(args: &Args) -> i32 {
    quiet_panics();
    let (src, b0) = load_input(args);
    let mut rng = Rng::new(args.num("seed", 1));
    let o = opts(args);
    let ev = event(&src, &b0, &mut rng, &o);
    if let Some(p) = args.str("show") {
        if p == "pl" {
            let s = trip(&b0, o.fmt);
            println!("{}", s.pl.unwrap_or_default());
            eprintln!("tfm_to_pl: {:?}\npl_to_tfm: {:?} panic {:?}", s.t_warn, s.p_warn, s.panic);
            return 0;
        }
    }
    let mut out = Out::new(args.str("out"));
    out.line(&ev);
    0
}

/// every .tfm under crates/ of the repository, and every .pl/.plst converted by pl_to_tfm first
fn corpus(args: &Args) -> i32 {
    quiet_panics();
    let root = format!("{}/crates", env!("VH_REPO"));
    let mut files = vec![];
    walk(std::path::Path::new(&root), &mut files);
    let mut rng = Rng::new(args.num("seed", 1));
    let o = opts(args);
    let mut out = Out::new(args.str("out"));
    let mut stats = serde_json::Map::new();
    let mut bump = |k: &str| {
        let e = stats.entry(k.to_string()).or_insert(json!(0));
        *e = json!(e.as_i64().unwrap() + 1);
    };
    for p in files {
        let ext = p.extension().and_then(|e| e.to_str()).unwrap_or("");
        let name = p.strip_prefix(&root).unwrap().display().to_string();
        let b0 = match ext {
            "tfm" => match std::fs::read(&p) {
                Ok(b) => b,
                Err(_) => continue,
            },
            "pl" | "plst" => {
                let s = match std::fs::read_to_string(&p) {
                    Ok(s) => s,
                    Err(_) => continue,
                };
                match catch(|| tfm::algorithms::pl_to_tfm(&s).0) {
                    Ok(b) => b,
                    Err(_) => {
                        bump("pl_panics");
                        continue;
                    }
                }
            }
            _ => continue,
        };
        bump(if ext == "tfm" { "tfm_files" } else { "pl_files" });
        let ev = event(&name, &b0, &mut rng, &o);
        if ev["w1"][0].as_array().map(|a| !a.is_empty()).unwrap_or(false) || ev["w1"][1].as_array().map(|a| !a.is_empty()).unwrap_or(false) {
            bump("with_warnings");
        }
        out.line(&ev);
    }
    out.flush();
    eprintln!("{}", Value::Object(stats));
    0
}

fn walk(dir: &std::path::Path, out: &mut Vec<std::path::PathBuf>) {
    let mut entries: Vec<_> = match std::fs::read_dir(dir) {
        Ok(rd) => rd.filter_map(|e| e.ok()).map(|e| e.path()).collect(),
        Err(_) => return,
    };
    entries.sort();
    for p in entries {
        if p.is_dir() {
            if p.file_name().and_then(|n| n.to_str()) == Some("target") {
                continue;
            }
            walk(&p, out);
        } else {
            out.push(p);
        }
    }
}

fn opts(args: &Args) -> EvOpts {
    EvOpts {
        small_limit: args.num("small", 24),
        cap: args.num("cap", 4000),
        extra: args.num("extra", 200),
        runs: args.num("runs", 300),
        fmt: args.num("fmt", 0),
        keep_pl: args.str("pl1").is_some(),
    }
}

// ------------------------------------------------------------------------------------------
// c11-replay (binding R): the cases TLC printed -- a font of the model's domain and the file the
// design says the two conversions make of it.  Runs of equal lig/kern words come as
// [-1, count, b0, b1, b2, b3] (a notation of the dump) and are written out again here.
// ------------------------------------------------------------------------------------------
fn expand_rle(v: &Value) -> Value {
    let mut f = v.clone();
    if let Some(a) = v["lk"].as_array() {
        let mut out = vec![];
        for w in a {
            if w[0].as_i64() == Some(-1) {
                let n = w[1].as_i64().unwrap_or(0);
                for _ in 0..n {
                    out.push(json!([w[2], w[3], w[4], w[5]]));
                }
            } else {
                out.push(w.clone());
            }
        }
        f["lk"] = json!(out);
    }
    f
}

fn replay(args: &Args) -> i32 {
    quiet_panics();
    let input = std::fs::read_to_string(args.req("in")).expect("read cases");
    let mut out = Out::new(args.str("out"));
    let (mut n, mut bad, mut redirected, mut max_lk) = (0u64, 0u64, 0u64, 0usize);
    for line in input.lines() {
        if line.trim().is_empty() {
            continue;
        }
        let case: Value = serde_json::from_str(line).expect("case json");
        let f = Raw::from_json(&expand_rle(&case["f"]));
        let want = Raw::from_json(&expand_rle(&case["want"]));
        n += 1;
        max_lk = max_lk.max(f.lk.len());
        // redirect words: stop words in front of the last word that point somewhere (the boundary carrier
        // points at 0, the left boundary pointer is the last word)
        let nlk = want.lk.len();
        if want.lk.iter().take(nlk.saturating_sub(1)).take(256).any(|w| w[0] >= 254 && (w[2] != 0 || w[3] != 0)) {
            redirected += 1;
        }
        let b0 = f.bytes();
        let s1 = trip(&b0, 0);
        let mut why = vec![];
        if let Some(p) = &s1.panic {
            why.push(format!("panic {}: {}", p.0, p.1));
        }
        if !s1.t_warn.is_empty() || !s1.p_warn.is_empty() {
            why.push(format!("warnings {:?} {:?}", s1.t_warn, s1.p_warn));
        }
        let mut got = None;
        match &s1.bytes {
            None => why.push("no output".into()),
            Some(b1) => {
                got = Raw::parse(b1);
                match &got {
                    None => why.push("output is not a well-formed file".into()),
                    Some(g) => {
                        if *g != want {
                            let j0 = g.json();
                            let j1 = want.json();
                            let fields: Vec<&str> = ["hd", "bc", "ec", "ci", "w", "h", "d", "i", "lk", "k", "e", "p"]
                                .into_iter()
                                .filter(|k| j0[*k] != j1[*k])
                                .collect();
                            why.push(format!("differs from the design in {fields:?}"));
                        }
                    }
                }
                let s2 = trip(b1, 0);
                if s2.bytes.as_ref() != Some(b1) || !s2.t_warn.is_empty() || !s2.p_warn.is_empty() {
                    why.push("second trip is not the identity".into());
                }
            }
        }
        if !why.is_empty() {
            bad += 1;
            if bad <= 40 {
                out.line(&json!({"case": n, "why": why, "f": case["f"], "want": case["want"],
                                 "got": got.map(|g| g.json())}));
            }
        }
    }
    out.line(&json!({"summary": {"cases": n, "mismatches": bad, "with_redirects": redirected, "longest_program": max_lk}}));
    0
}

// ------------------------------------------------------------------------------------------
// c11-random: fonts generated from random property lists (through pl_to_tfm) and from a raw
// table synthesiser (non-canonical layouts of the same kind of font)
// ------------------------------------------------------------------------------------------
#[derive(Clone, Debug)]
enum GOp {
    Kern(i32),
    Lig(u8, u8), // op_byte, inserted character
}
#[derive(Clone, Debug)]
struct GIns {
    rc: u8,
    op: GOp,
    next: i32, // -1 STOP, 0 fall through, n SKIP n
}
#[derive(Clone, Debug, Default)]
struct GChar {
    wd: i32,
    ht: i32,
    dp: i32,
    ic: i32,
    list: Option<u8>,
    ext: Option<[u8; 4]>,
}
#[derive(Clone, Debug, Default)]
struct GFont {
    chars: BTreeMap<u8, GChar>,
    prog: Vec<GIns>,
    labels: Vec<(i32, usize)>, // (left char | 256 = boundary, index of the step)
    rbc: Option<u8>,
    scheme: String,
    family: String,
    face: u8,
    ds: i32,
    checksum: Option<u32>,
    sbs_claim: bool,
    extra: Vec<u32>,
    params: Vec<i32>,
}

const LIG_OPS: [u8; 8] = [0, 1, 2, 3, 5, 6, 7, 11];
const UNITY: i32 = 1 << 20;

fn fix_pool(rng: &mut Rng, n: usize, nonzero: bool) -> Vec<i32> {
    // pairwise distinct fix words with |x| < 16, some of them close to each other or to the limits
    let mut s = BTreeSet::new();
    let mut guard = 0;
    while s.len() < n && guard < 100 * n + 100 {
        guard += 1;
        let v: i32 = match rng.below(8) {
            0 => rng.range(-(16 * UNITY as i64) + 1, 16 * UNITY as i64 - 1) as i32,
            1 => rng.range(1, 40) as i32,
            2 => (16 * UNITY - 1) - rng.below(30) as i32,
            3 => -(16 * UNITY - 1) + rng.below(30) as i32,
            4 => (rng.range(-3000, 3000) as i32) * 1049,
            _ => rng.range(0, 2 * UNITY as i64) as i32,
        };
        if nonzero && v == 0 {
            continue;
        }
        s.insert(v);
    }
    let mut v: Vec<i32> = s.into_iter().collect();
    // shuffle
    for j in (1..v.len()).rev() {
        v.swap(j, rng.below(j as u64 + 1) as usize);
    }
    v
}

fn rand_string(rng: &mut Rng, max: usize, raw: bool) -> String {
    let n = rng.below(max as u64 + 1) as usize;
    let mut s = String::new();
    for j in 0..n {
        let c = match rng.below(10) {
            0 | 1 => b' ',
            2 if raw => b'a' + rng.below(26) as u8,
            3 => b'0' + rng.below(10) as u8,
            4 => *rng.pick(b"-+./:;=*#!"),
            _ => b'A' + rng.below(26) as u8,
        };
        // a property list cannot begin a string with a blank; the raw synthesiser may
        if !raw && j == 0 && c == b' ' {
            s.push('X');
        } else {
            s.push(c as char);
        }
    }
    if !raw {
        while s.ends_with(' ') {
            s.pop();
        }
    }
    s
}

struct GenOpts {
    nchars: usize,
    nh: usize,
    nd: usize,
    ni: usize,
    nw: usize,
    ninstr: usize,
    nkern: usize,
    bchar: u8, // 0 none, 1 right, 2 left, 3 both
    lists: bool,
    exts: bool,
}

fn pick_opts(rng: &mut Rng, size: u8) -> GenOpts {
    let nchars = match size {
        0 => *rng.pick(&[0usize, 1, 2, 3, 4, 5, 6, 8]),
        1 => rng.range(9, 60) as usize,
        _ => *rng.pick(&[100usize, 128, 200, 254, 255, 256, 256]),
    };
    let lim = |rng: &mut Rng, m: usize| -> usize {
        match rng.below(6) {
            0 => 0,
            1 => m,
            2 => m - 1,
            3 => m + 1 + rng.below(3) as usize, // beyond the limit: pl_to_tfm has to merge values
            _ => rng.below(m as u64 + 1) as usize,
        }
    };
    let ninstr = match size {
        0 => rng.below(13) as usize,
        1 => rng.range(5, 120) as usize,
        _ => *rng.pick(&[40usize, 200, 250, 254, 255, 256, 257, 300, 510, 511, 512, 600, 800]),
    };
    GenOpts {
        nchars,
        nh: lim(rng, 15),
        nd: lim(rng, 15),
        ni: lim(rng, 63),
        nw: if rng.chance(1, 4) { 256 } else { rng.range(1, 40) as usize },
        ninstr,
        nkern: *rng.pick(&[1usize, 2, 3, 10, 100, 300, 600]),
        bchar: rng.below(4) as u8,
        lists: rng.chance(2, 3),
        exts: rng.chance(1, 2),
    }
}

/// A font in which every character a step mentions exists, no pair re-enters itself (ligatures
/// insert `sink` characters that have no program and are never looked at), chains carry several
/// labels, some in the middle, and SKIPs stay inside the program.
fn gen_font(rng: &mut Rng, o: &GenOpts) -> GFont {
    let mut f = GFont::default();
    // characters
    let mut codes: Vec<u8> = (0..=255u8).collect();
    for j in (1..codes.len()).rev() {
        codes.swap(j, rng.below(j as u64 + 1) as usize);
    }
    codes.truncate(o.nchars);
    codes.sort();
    let wpool = fix_pool(rng, o.nw.clamp(1, 300), false);
    let hpool = fix_pool(rng, o.nh, true);
    let dpool = fix_pool(rng, o.nd, true);
    let ipool = fix_pool(rng, o.ni, true);
    let pick0 = |rng: &mut Rng, pool: &[i32]| -> i32 {
        if pool.is_empty() || rng.chance(1, 5) {
            0
        } else {
            pool[rng.below(pool.len() as u64) as usize]
        }
    };
    for (j, c) in codes.iter().enumerate() {
        // the first characters walk through the pools so that all values occur
        let take = |pool: &[i32], rng: &mut Rng| -> i32 {
            if j < pool.len() { pool[j] } else { pick0(rng, pool) }
        };
        let wd = if j < wpool.len() { wpool[j] } else if rng.chance(1, 10) { 0 } else { wpool[rng.below(wpool.len() as u64) as usize] };
        let ch = GChar { wd, ht: take(&hpool, rng), dp: take(&dpool, rng), ic: take(&ipool, rng), list: None, ext: None };
        f.chars.insert(*c, ch);
    }
    // roles: sinks (inserted by ligatures; no program, never a right character), lefts, rights
    let n = codes.len();
    let nsink = if n >= 4 { (n / 5).clamp(1, 12) } else { 0 };
    let sinks: Vec<u8> = codes.iter().rev().take(nsink).copied().collect();
    let actors: Vec<u8> = codes.iter().copied().filter(|c| !sinks.contains(c)).collect();
    // lig/kern program
    if !actors.is_empty() && o.ninstr > 0 {
        let kpool = fix_pool(rng, o.nkern, false);
        if o.bchar & 1 == 1 {
            // the boundary character may be a character of the font or a code without a glyph
            f.rbc = Some(if rng.chance(1, 3) { (0..=255u8).find(|c| !sinks.contains(c) && rng.chance(1, 50)).unwrap_or(actors[0]) } else { *rng.pick(&actors) });
        }
        let mut rights: Vec<u8> = actors.clone();
        if let Some(b) = f.rbc {
            if f.chars.contains_key(&b) && !sinks.contains(&b) && !rights.contains(&b) {
                rights.push(b);
            }
        }
        let mut starts: Vec<usize> = vec![]; // first step of every chain
        while f.prog.len() < o.ninstr {
            let len = (1 + rng.below(if o.ninstr > 100 { 14 } else { 5 }) as usize).min(o.ninstr - f.prog.len());
            let base = f.prog.len();
            starts.push(base);
            for j in 0..len {
                let rc = if f.rbc.is_some() && rng.chance(1, 8) { f.rbc.unwrap() } else { *rng.pick(&rights) };
                let op = if !sinks.is_empty() && rng.chance(1, 3) {
                    GOp::Lig(*rng.pick(&LIG_OPS), *rng.pick(&sinks))
                } else {
                    GOp::Kern(kpool[(base + j) % kpool.len()])
                };
                let last = j + 1 == len;
                let next = if last {
                    -1
                } else if rng.chance(1, 6) {
                    // SKIP over k steps of this chain (they stay reachable only through labels)
                    let room = len - j - 2;
                    rng.below(room as u64 + 1).min(3) as i32
                } else {
                    0
                };
                // a right character that does not exist in the font would be a warning, except the boundary char
                f.prog.push(GIns { rc, op, next });
            }
        }
        // labels: every chain start gets one or more; some steps in the middle get one too;
        // a few chains stay unlabelled (unreachable steps)
        let mut free: Vec<u8> = actors.clone();
        for j in (1..free.len()).rev() {
            free.swap(j, rng.below(j as u64 + 1) as usize);
        }
        let mut boundary_done = o.bchar & 2 == 0;
        let mut spots: Vec<usize> = starts.clone();
        for s in &starts {
            if rng.chance(1, 3) && s + 1 < f.prog.len() && f.prog[*s].next != -1 {
                spots.push(s + 1);
            }
        }
        for j in (1..spots.len()).rev() {
            spots.swap(j, rng.below(j as u64 + 1) as usize);
        }
        for s in spots {
            if rng.chance(1, 12) {
                continue;
            }
            if !boundary_done && rng.chance(1, 3) {
                f.labels.push((256, s));
                boundary_done = true;
            }
            let k = 1 + if rng.chance(1, 4) { rng.below(3) } else { 0 };
            for _ in 0..k {
                if let Some(c) = free.pop() {
                    f.labels.push((c as i32, s));
                }
            }
            if free.is_empty() && boundary_done {
                break;
            }
        }
        if !boundary_done && !f.prog.is_empty() {
            f.labels.push((256, rng.below(f.prog.len() as u64) as usize));
        }
        // remaining characters: next-larger chains and extensible recipes
        let labelled: BTreeSet<u8> = f.labels.iter().filter(|(c, _)| *c < 256).map(|(c, _)| *c as u8).collect();
        let mut rest: Vec<u8> = codes.iter().copied().filter(|c| !labelled.contains(c)).collect();
        rest.sort();
        tag_rest(rng, &mut f, &rest, &codes, o);
    } else {
        let rest = codes.clone();
        tag_rest(rng, &mut f, &rest, &codes, o);
    }
    // header, parameters
    f.scheme = if rng.chance(1, 8) { "TEX MATH SYMBOLS".into() } else if rng.chance(1, 8) { "TEX MATH EXTENSION".into() } else { rand_string(rng, 39, false) };
    f.family = rand_string(rng, 19, false);
    f.face = if rng.chance(1, 2) { rng.below(18) as u8 } else { rng.below(256) as u8 };
    f.ds = match rng.below(4) {
        0 => UNITY,
        1 => 10 * UNITY,
        _ => rng.range(UNITY as i64, 2047 * UNITY as i64) as i32,
    };
    f.checksum = if rng.chance(1, 2) { Some(rng.next() as u32) } else { None };
    f.sbs_claim = rng.chance(1, 6);
    let nx = match rng.below(6) {
        0 => rng.range(1, 6) as usize,
        1 => 30,
        _ => 0,
    };
    f.extra = (0..nx).map(|_| if rng.chance(1, 4) { 0 } else { rng.next() as u32 }).collect();
    let np = if f.scheme.starts_with("TEX MATH SY") { 22 } else if f.scheme.starts_with("TEX MATH EX") { 13 } else { *rng.pick(&[0usize, 0, 1, 6, 7, 8, 16, 30]) };
    let ppool = fix_pool(rng, np.max(1), false);
    f.params = (0..np).map(|j| if rng.chance(1, 5) { 0 } else { ppool[j % ppool.len()] }).collect();
    if np > 0 && rng.chance(1, 3) {
        // the slant is a pure number, not bound by 16
        f.params[0] = rng.range(-(2047 * UNITY as i64), 2047 * UNITY as i64) as i32;
    }
    f
}

fn tag_rest(rng: &mut Rng, f: &mut GFont, rest: &[u8], all: &[u8], o: &GenOpts) {
    if rest.is_empty() {
        return;
    }
    let mut j = 0;
    while j < rest.len() {
        match rng.below(6) {
            0 | 1 if o.lists && j + 1 < rest.len() => {
                // an ascending chain c1 -> c2 -> ... (no cycle possible)
                let len = 1 + rng.below(5) as usize;
                let mut k = j;
                while k + 1 < rest.len() && k - j < len {
                    f.chars.get_mut(&rest[k]).unwrap().list = Some(rest[k + 1]);
                    k += 1;
                }
                j = k + 1;
            }
            2 if o.exts => {
                let mut r = [0u8; 4];
                for p in r.iter_mut().take(3) {
                    if rng.chance(1, 2) {
                        let c = *rng.pick(all);
                        // a piece 0 means "absent": character 0 cannot be a piece
                        *p = c;
                    }
                }
                r[3] = *rng.pick(all);
                f.chars.get_mut(&rest[j]).unwrap().ext = Some(r);
                j += 1;
            }
            _ => j += 1,
        }
    }
}

fn fix_text(v: i32) -> String {
    // enough digits for get_fix to land on v or next to it; which one does not matter here
    let neg = v < 0;
    let a = (v as i64).abs();
    let int = a >> 20;
    let frac = a & ((1 << 20) - 1);
    let digits = (frac * 10_000_000 + (1 << 19)) >> 20;
    format!("R {}{}.{:07}", if neg { "-" } else { "" }, int, digits)
}

fn render_pl(f: &GFont, rng: &mut Rng) -> String {
    let mut s = String::new();
    let ch = |c: u8| -> String { format!("O {:o}", c) };
    if !f.family.is_empty() || rng.chance(1, 2) {
        s.push_str(&format!("(FAMILY {})\n", f.family));
    }
    s.push_str(&format!("(FACE O {:o})\n", f.face));
    for (j, w) in f.extra.iter().enumerate() {
        s.push_str(&format!("(HEADER D {} O {:o})\n", 18 + j, w));
    }
    if !f.scheme.is_empty() || rng.chance(1, 2) {
        s.push_str(&format!("(CODINGSCHEME {})\n", f.scheme));
    }
    s.push_str(&format!("(DESIGNSIZE {})\n", fix_text(f.ds)));
    if let Some(c) = f.checksum {
        s.push_str(&format!("(CHECKSUM O {:o})\n", c));
    }
    if f.sbs_claim {
        s.push_str("(SEVENBITSAFEFLAG TRUE)\n");
    }
    if !f.params.is_empty() {
        s.push_str("(FONTDIMEN\n");
        for (j, p) in f.params.iter().enumerate() {
            s.push_str(&format!("   (PARAMETER D {} {})\n", j + 1, fix_text(*p)));
        }
        s.push_str("   )\n");
    }
    if let Some(b) = f.rbc {
        s.push_str(&format!("(BOUNDARYCHAR {})\n", ch(b)));
    }
    if !f.prog.is_empty() {
        s.push_str("(LIGTABLE\n");
        let mut by_idx: BTreeMap<usize, Vec<i32>> = BTreeMap::new();
        for (c, j) in &f.labels {
            by_idx.entry(*j).or_default().push(*c);
        }
        for (j, ins) in f.prog.iter().enumerate() {
            if let Some(ls) = by_idx.get(&j) {
                for c in ls {
                    if *c == 256 {
                        s.push_str("   (LABEL BOUNDARYCHAR)\n");
                    } else {
                        s.push_str(&format!("   (LABEL {})\n", ch(*c as u8)));
                    }
                }
            }
            match &ins.op {
                GOp::Kern(k) => s.push_str(&format!("   (KRN {} {})\n", ch(ins.rc), fix_text(*k))),
                GOp::Lig(op, z) => {
                    let name = match op {
                        0 => "LIG",
                        1 => "LIG/",
                        2 => "/LIG",
                        3 => "/LIG/",
                        5 => "LIG/>",
                        6 => "/LIG>",
                        7 => "/LIG/>",
                        _ => "/LIG/>>",
                    };
                    s.push_str(&format!("   ({} {} {})\n", name, ch(ins.rc), ch(*z)));
                }
            }
            match ins.next {
                -1 => s.push_str("   (STOP)\n"),
                0 => {}
                n => s.push_str(&format!("   (SKIP D {})\n", n)),
            }
        }
        s.push_str("   )\n");
    }
    for (c, g) in &f.chars {
        s.push_str(&format!("(CHARACTER {}\n   (CHARWD {})\n", ch(*c), fix_text(g.wd)));
        if g.ht != 0 || rng.chance(1, 20) {
            s.push_str(&format!("   (CHARHT {})\n", fix_text(g.ht)));
        }
        if g.dp != 0 {
            s.push_str(&format!("   (CHARDP {})\n", fix_text(g.dp)));
        }
        if g.ic != 0 {
            s.push_str(&format!("   (CHARIC {})\n", fix_text(g.ic)));
        }
        if let Some(l) = g.list {
            s.push_str(&format!("   (NEXTLARGER {})\n", ch(l)));
        }
        if let Some(r) = g.ext {
            s.push_str("   (VARCHAR\n");
            for (k, name) in ["TOP", "MID", "BOT"].iter().enumerate() {
                if r[k] != 0 {
                    s.push_str(&format!("      ({} {})\n", name, ch(r[k])));
                }
            }
            s.push_str(&format!("      (REP {})\n      )\n", ch(r[3])));
        }
        s.push_str("   )\n");
    }
    s
}

/// What the raw synthesiser may add on purpose (each is the subject of a recorded finding or of a
/// scope clause): see the driver's plan.
#[derive(Clone, Copy, PartialEq, Debug)]
enum Twist {
    None,
    OrphanInRange,
    OrphanOutside,
    StopInChain,
    LongHeader,
    AllRedirected,
}

/// A .tfm file for the font in a layout no converter would write: tables unsorted, with repeated
/// and unused values; kern table likewise; redirect words for entry points that would fit a byte,
/// shared or unused redirect words, unreachable steps; short or long headers; small letters.
fn render_raw(f: &GFont, rng: &mut Rng, twist: Twist) -> Option<Raw> {
    let mut r = Raw::default();
    // header
    let lh = match rng.below(8) {
        0 => 2,
        1 => 12,
        2 => 17,
        3 => *rng.pick(&[3usize, 11, 13, 16]),
        _ => 18 + f.extra.len(),
    };
    let mut bytes: Vec<u8> = vec![];
    bytes.extend(f.checksum.unwrap_or(0x01020304).to_be_bytes());
    bytes.extend(f.ds.to_be_bytes());
    let field = |s: &str, n: usize, rng: &mut Rng| -> Vec<u8> {
        let mut t: String = s.chars().map(|c| if rng.chance(1, 3) { c.to_ascii_lowercase() } else { c }).collect();
        if rng.chance(1, 6) && t.len() + 2 < n {
            t = format!("  {t}");
        }
        let mut v = vec![t.len() as u8];
        v.extend(t.bytes());
        // what follows the string inside the field is not part of it
        while v.len() < n {
            v.push(if rng.chance(1, 10) { b'z' } else { 0 });
        }
        v
    };
    bytes.extend(field(&f.scheme, 40, rng));
    bytes.extend(field(&f.family, 20, rng));
    bytes.extend([if f.sbs_claim { 128 + rng.below(128) as u8 } else { rng.below(128) as u8 }, rng.below(256) as u8, rng.below(256) as u8, f.face]);
    for w in &f.extra {
        bytes.extend(w.to_be_bytes());
    }
    if twist == Twist::LongHeader {
        for j in 0..(240 - f.extra.len().min(200) + rng.below(4) as usize) {
            bytes.extend((j as u32 + 1).to_be_bytes());
        }
    }
    let lh = if twist == Twist::LongHeader { bytes.len() / 4 } else { lh };
    r.hd = bytes.chunks(4).take(lh).map(|c| [c[0], c[1], c[2], c[3]]).collect();
    // dimension tables
    let mut table = |vals: Vec<i32>, limit: usize, zero_is_none: bool, rng: &mut Rng| -> Option<(Vec<i32>, BTreeMap<i32, Vec<u8>>)> {
        let mut distinct: Vec<i32> = vals.iter().copied().filter(|v| !(zero_is_none && *v == 0)).collect::<BTreeSet<_>>().into_iter().collect();
        if distinct.len() > limit {
            return None;
        }
        let mut t: Vec<i32> = distinct.clone();
        // repeated and unused values while there is room
        let room = limit - t.len();
        let extra = if room > 0 { rng.below(room.min(6) as u64 + 1) as usize } else { 0 };
        for _ in 0..extra {
            let v = if !distinct.is_empty() && rng.chance(2, 3) { *rng.pick(&distinct) } else if rng.chance(1, 3) { 0 } else { rng.range(-5 * UNITY as i64, 5 * UNITY as i64) as i32 };
            t.push(v);
        }
        for j in (1..t.len()).rev() {
            t.swap(j, rng.below(j as u64 + 1) as usize);
        }
        t.insert(0, 0);
        let mut idx: BTreeMap<i32, Vec<u8>> = BTreeMap::new();
        for (j, v) in t.iter().enumerate().skip(1) {
            idx.entry(*v).or_default().push(j as u8);
        }
        distinct.clear();
        Some((t, idx))
    };
    let cs: Vec<&GChar> = f.chars.values().collect();
    let (wt, wi) = table(cs.iter().map(|c| c.wd).collect(), 255, false, rng)?;
    let (ht, hi) = table(cs.iter().map(|c| c.ht).collect(), 15, true, rng)?;
    let (dt, di) = table(cs.iter().map(|c| c.dp).collect(), 15, true, rng)?;
    let (it, ii) = table(cs.iter().map(|c| c.ic).collect(), 63, true, rng)?;
    r.w = wt;
    r.h = ht;
    r.d = dt;
    r.i = it;
    // lig/kern words
    let n = f.prog.len();
    let mut kvals: Vec<i32> = f.prog.iter().filter_map(|i| if let GOp::Kern(k) = i.op { Some(k) } else { None }).collect::<BTreeSet<_>>().into_iter().collect();
    let nk_extra = rng.below(4) as usize;
    for _ in 0..nk_extra {
        let v = if !kvals.is_empty() && rng.chance(1, 2) { *rng.pick(&kvals) } else { rng.range(-UNITY as i64, UNITY as i64) as i32 };
        kvals.push(v);
    }
    for j in (1..kvals.len()).rev() {
        kvals.swap(j, rng.below(j as u64 + 1) as usize);
    }
    let kidx = |k: i32, rng: &mut Rng| -> usize {
        let all: Vec<usize> = kvals.iter().enumerate().filter(|(_, v)| **v == k).map(|(j, _)| j).collect();
        *rng.pick(&all)
    };
    // which labelled characters go through a redirect word
    let char_labels: Vec<(u8, usize)> = f.labels.iter().filter(|(c, _)| *c < 256).map(|(c, j)| (*c as u8, *j)).collect();
    let lbe: Option<usize> = f.labels.iter().find(|(c, _)| *c == 256).map(|(_, j)| *j);
    let mut targets: Vec<usize> = vec![]; // redirect word j -> body index
    let mut entry: BTreeMap<u8, (bool, usize)> = BTreeMap::new(); // char -> (through redirect?, redirect no | body index)
    let all_red = twist == Twist::AllRedirected;
    // first decide the number of redirect words, then everything shifts by it
    let mut want_redirect: Vec<bool> = char_labels.iter().map(|_| all_red || rng.chance(1, 5)).collect();
    let carrier = f.rbc.is_some();
    loop {
        targets.clear();
        entry.clear();
        let mut tmap: BTreeMap<usize, usize> = BTreeMap::new();
        for ((c, j), wr) in char_labels.iter().zip(&want_redirect) {
            if *wr {
                let no = if !all_red && rng.chance(1, 2) { *tmap.entry(*j).or_insert_with(|| { targets.push(*j); targets.len() - 1 }) } else { targets.push(*j); targets.len() - 1 };
                entry.insert(*c, (true, no));
            } else {
                entry.insert(*c, (false, *j));
            }
        }
        let unused = if all_red { 0 } else { rng.below(2) as usize };
        for _ in 0..unused {
            if n > 0 {
                targets.push(rng.below(n as u64) as usize);
            }
        }
        let pre = targets.len() + if targets.is_empty() && carrier { 1 } else { 0 };
        if pre > 256 {
            return None;
        }
        // direct entries must fit a byte after the shift
        let mut again = false;
        for (k, ((_, j), wr)) in char_labels.iter().zip(want_redirect.clone()).enumerate() {
            if !wr && j + pre > 255 {
                want_redirect[k] = true;
                again = true;
            }
        }
        if !again {
            break;
        }
    }
    let pre = targets.len() + if targets.is_empty() && carrier { 1 } else { 0 };
    if targets.len() > 256 || targets.iter().enumerate().any(|(no, _)| no > 255) {
        return None;
    }
    let (sb0, nc0) = match f.rbc {
        Some(b) => (255u8, b),
        None => (254u8, 0u8),
    };
    for t in &targets {
        let x = t + pre;
        r.lk.push([sb0, nc0, (x >> 8) as u8, (x & 255) as u8]);
    }
    if targets.is_empty() && carrier {
        r.lk.push([255, nc0, 0, 0]);
    }
    let mut stop_done = twist != Twist::StopInChain;
    for (j, ins) in f.prog.iter().enumerate() {
        let sb: u8 = match ins.next {
            -1 => 128,
            k => k as u8,
        };
        if !stop_done && ins.next > 0 && j + (ins.next as usize) + 1 < n {
            // the step this SKIP lands on becomes an unconditional stop
            stop_done = true;
        }
        match &ins.op {
            GOp::Kern(k) => {
                let x = kidx(*k, rng);
                r.lk.push([sb, ins.rc, 128 + (x >> 8) as u8, (x & 255) as u8]);
            }
            GOp::Lig(op, z) => r.lk.push([sb, ins.rc, *op, *z]),
        }
    }
    if twist == Twist::StopInChain {
        // turn the landing step of the first SKIP n (n > 0) into an unconditional stop word
        let mut done = false;
        for (j, ins) in f.prog.iter().enumerate() {
            if ins.next > 0 && j + ins.next as usize + 1 < n {
                let t = pre + j + ins.next as usize + 1;
                r.lk[t] = [200, 0, 0, 0];
                done = true;
                break;
            }
        }
        if !done {
            return None;
        }
    }
    if let Some(j) = lbe {
        let x = j + pre;
        r.lk.push([255, 0, (x >> 8) as u8, (x & 255) as u8]);
    } else if r.lk.last().map(|w| w[0] == 255).unwrap_or(false) {
        // the last word would be read as the left boundary pointer
        return None;
    }
    r.k = kvals;
    // characters, extensible recipes
    let mut recipes: Vec<[u8; 4]> = vec![];
    let (bc, ec) = match (f.chars.keys().next(), f.chars.keys().last()) {
        (Some(a), Some(b)) => (*a as i64, *b as i64),
        _ => (1, 0),
    };
    let (mut bc, mut ec) = (bc, ec);
    if !f.chars.is_empty() && rng.chance(1, 3) {
        // room for codes without a character in front of / behind the existing ones
        bc = (bc - rng.below(4) as i64).max(0);
        ec = (ec + rng.below(4) as i64).min(255);
    }
    r.bc = bc;
    r.ec = ec;
    let pick_idx = |m: &BTreeMap<i32, Vec<u8>>, v: i32, rng: &mut Rng| -> u8 {
        match m.get(&v) {
            Some(a) => *rng.pick(a),
            None => 0,
        }
    };
    for c in bc..=ec {
        let c = c as u8;
        let g = match f.chars.get(&c) {
            None => {
                r.ci.push([0, 0, 0, 0]);
                continue;
            }
            Some(g) => g,
        };
        let w = pick_idx(&wi, g.wd, rng);
        let h = if g.ht == 0 && rng.chance(2, 3) { 0 } else { pick_idx(&hi, g.ht, rng) };
        let d = if g.dp == 0 && rng.chance(2, 3) { 0 } else { pick_idx(&di, g.dp, rng) };
        let i = if g.ic == 0 && rng.chance(2, 3) { 0 } else { pick_idx(&ii, g.ic, rng) };
        let (tag, rem): (u8, u8) = if let Some((red, x)) = entry.get(&c) {
            (1, if *red { *x as u8 } else { (*x + pre) as u8 })
        } else if let Some(l) = g.list {
            (2, l)
        } else if let Some(rc) = g.ext {
            let known: Vec<usize> = recipes.iter().enumerate().filter(|(_, x)| **x == rc).map(|(j, _)| j).collect();
            let j = if !known.is_empty() && rng.chance(1, 2) {
                known[0]
            } else {
                recipes.push(rc);
                recipes.len() - 1
            };
            (3, j as u8)
        } else {
            (0, 0)
        };
        r.ci.push([w, h * 16 + d, i * 4 + tag, rem]);
    }
    if rng.chance(1, 4) && !f.chars.is_empty() {
        // an unused recipe made of existing characters
        let c = *f.chars.keys().next().unwrap();
        recipes.push([0, 0, 0, c]);
    }
    r.e = recipes;
    r.p = f.params.clone();
    // tags on codes that carry no character
    let holes: Vec<usize> = r.ci.iter().enumerate().filter(|(_, w)| w[0] == 0).map(|(j, _)| j).collect();
    match twist {
        Twist::OrphanInRange => {
            let inner: Vec<usize> = holes.iter().copied().filter(|j| (*j as i64 + bc) > *f.chars.keys().next().unwrap_or(&0) as i64 && (*j as i64 + bc) < *f.chars.keys().last().unwrap_or(&0) as i64).collect();
            if inner.is_empty() || n == 0 {
                return None;
            }
            let j = *rng.pick(&inner);
            let e = rng.below(n.min(255 - pre.min(255)) as u64) as usize + pre;
            r.ci[j] = [0, 0, 1, e.min(255) as u8];
        }
        Twist::OrphanOutside => {
            if n == 0 || f.chars.is_empty() {
                return None;
            }
            // a code behind the last existing character
            let last = *f.chars.keys().last().unwrap() as i64;
            if last >= 255 {
                return None;
            }
            while r.ec <= last {
                r.ec += 1;
                r.ci.push([0, 0, 0, 0]);
            }
            let e = rng.below(n.min(255 - pre.min(255)) as u64) as usize + pre;
            let k = r.ci.len() - 1;
            r.ci[k] = [0, 0, 1, e.min(255) as u8];
        }
        _ => {}
    }
    Some(r)
}

/// The one layout in which all 256 characters are reached through redirect words although every
/// step is in use: a left boundary chain of 256 steps in front, one step per character behind.
fn all_redirected_font(rng: &mut Rng) -> GFont {
    let mut f = GFont::default();
    for c in 0..=255u8 {
        f.chars.insert(c, GChar { wd: UNITY / 2 + (c % 100) as i32, ..Default::default() });
    }
    let lead = 256 + rng.below(6) as usize;
    for j in 0..lead {
        f.prog.push(GIns { rc: (j % 256) as u8, op: GOp::Kern(1000 + (j % 7) as i32), next: if j + 1 == lead { -1 } else { 0 } });
    }
    f.labels.push((256, 0));
    for c in 0..=255u8 {
        f.labels.push((c as i32, f.prog.len()));
        f.prog.push(GIns { rc: c, op: GOp::Kern(-2000 - (c % 5) as i32), next: -1 });
    }
    if rng.chance(1, 2) {
        f.rbc = Some(rng.below(256) as u8);
    }
    f.scheme = "ALL REDIRECTED".into();
    f.family = "X".into();
    f.ds = 10 * UNITY;
    f.checksum = Some(7);
    f
}

/// One chain whose first step skips `skip` steps (125..127: the largest SKIP a word can hold is 127): the steps
/// in between are reachable through labels of other characters, the landing step is reachable only through
/// the skip and ends the chain.
fn long_skip_font(rng: &mut Rng, skip: usize) -> GFont {
    let mut f = GFont::default();
    for c in 0..40u8 {
        f.chars.insert(60 + c, GChar { wd: UNITY / 2 + c as i32, ..Default::default() });
    }
    // step 0: (KRN 61) SKIP skip ; steps 1..=skip: kerns against 62.. in chains of a few steps ; landing: KRN 99 STOP
    f.prog.push(GIns { rc: 61, op: GOp::Kern(1111), next: skip as i32 });
    f.labels.push((60, 0));
    let mut j = 1;
    let mut owner = 62u8;
    while j <= skip {
        let len = (1 + rng.below(5) as usize).min(skip + 1 - j);
        if owner < 95 && rng.chance(3, 4) {
            f.labels.push((owner as i32, j));
            owner += 1;
        }
        for k in 0..len {
            f.prog.push(GIns { rc: 62 + ((j + k) % 30) as u8, op: GOp::Kern(2000 + (j + k) as i32), next: if k + 1 == len { -1 } else { 0 } });
        }
        j += len;
    }
    f.prog.push(GIns { rc: 99, op: GOp::Kern(-3333), next: -1 });
    f.scheme = "LONG SKIP".into();
    f.family = "X".into();
    f.ds = 10 * UNITY;
    f.checksum = Some(11);
    f
}

fn random(args: &Args) -> i32 {
    quiet_panics();
    let seed: u64 = args.num("seed", 1);
    let n_small: usize = args.num("small_fonts", 300);
    let n_mid: usize = args.num("mid_fonts", 60);
    let n_big: usize = args.num("big_fonts", 20);
    let n_twist: usize = args.num("twists", 3);
    let o = opts(args);
    let mut out = Out::new(args.str("out"));
    let mut rng = Rng::new(seed ^ 0xC11);
    let mut stats: BTreeMap<String, i64> = BTreeMap::new();
    let mut emit = |name: String, b0: Vec<u8>, clean: bool, rng: &mut Rng, out: &mut Out, stats: &mut BTreeMap<String, i64>| {
        let mut ev = event(&name, &b0, rng, &o);
        ev["clean"] = json!(clean as u8);
        let warned = ev["w1"][0].as_array().map(|a| !a.is_empty()).unwrap_or(true) || ev["w1"][1].as_array().map(|a| !a.is_empty()).unwrap_or(true);
        *stats.entry(if warned { "with_warnings".into() } else { "warning_free".into() }).or_default() += 1;
        if warned && clean {
            *stats.entry("clean_with_warnings".into()).or_default() += 1;
        }
        if clean {
            *stats.entry("clean".into()).or_default() += 1;
        }
        out.line(&ev);
    };
    let mut serial = 0;
    for (size, count) in [(0u8, n_small), (1, n_mid), (2, n_big)] {
        for _ in 0..count {
            serial += 1;
            let go = pick_opts(&mut rng, size);
            let f = gen_font(&mut rng, &go);
            // (a) through a property list
            let pl = render_pl(&f, &mut rng);
            match catch(|| tfm::algorithms::pl_to_tfm(&pl)) {
                Ok((b0, w)) => {
                    if !w.is_empty() {
                        *stats.entry("pl_with_warnings".into()).or_default() += 1;
                    }
                    // a claim of seven-bit safety may be wrong: such a font is not "clean" by design
                    emit(format!("pl:{serial}:size{size}"), b0, !f.sbs_claim, &mut rng, &mut out, &mut stats);
                }
                Err((site, msg)) => {
                    out.line(&json!({"src": format!("pl:{serial}"), "panic": [0, site, msg], "w1": [[], []], "pl": pl}));
                }
            }
            // (b) the same font in a raw layout (when its tables fit without merging values)
            if let Some(r) = render_raw(&f, &mut rng, Twist::None) {
                emit(format!("raw:{serial}:size{size}"), r.bytes(), !f.sbs_claim, &mut rng, &mut out, &mut stats);
            } else {
                *stats.entry("raw_not_representable".into()).or_default() += 1;
            }
            if size == 0 && serial % 7 == 0 {
                if let Some(r) = render_raw(&f, &mut rng, Twist::OrphanInRange) {
                    emit(format!("raw-orphan-in-range:{serial}"), r.bytes(), false, &mut rng, &mut out, &mut stats);
                }
            }
        }
    }
    // the layouts that recorded findings are about (few, so that the findings stay visible)
    let mut made: BTreeMap<&str, usize> = BTreeMap::new();
    let mut guard = 0;
    while guard < 400 && (made.values().sum::<usize>() < 3 * n_twist) {
        guard += 1;
        let go = pick_opts(&mut rng, if guard % 3 == 0 { 1 } else { 0 });
        let f = gen_font(&mut rng, &go);
        for (name, tw) in [("raw-orphan-outside", Twist::OrphanOutside), ("raw-stop-in-chain", Twist::StopInChain), ("raw-long-header", Twist::LongHeader)] {
            if *made.get(name).unwrap_or(&0) >= n_twist {
                continue;
            }
            if let Some(r) = render_raw(&f, &mut rng, tw) {
                *made.entry(name).or_default() += 1;
                emit(format!("{name}:{guard}"), r.bytes(), false, &mut rng, &mut out, &mut stats);
            }
        }
    }
    for skip in [125usize, 126, 127] {
        let f = long_skip_font(&mut rng, skip);
        if let Some(r) = render_raw(&f, &mut rng, Twist::None) {
            emit(format!("raw-long-skip:{skip}"), r.bytes(), true, &mut rng, &mut out, &mut stats);
        }
        let pl = render_pl(&f, &mut rng);
        if let Ok((b0, _)) = catch(|| tfm::algorithms::pl_to_tfm(&pl)) {
            emit(format!("pl-long-skip:{skip}"), b0, true, &mut rng, &mut out, &mut stats);
        }
    }
    for k in 0..n_twist.min(2) {
        let f = all_redirected_font(&mut rng);
        if let Some(r) = render_raw(&f, &mut rng, Twist::AllRedirected) {
            emit(format!("raw-all-redirected:{k}"), r.bytes(), false, &mut rng, &mut out, &mut stats);
        }
        let pl = render_pl(&f, &mut rng);
        if let Ok((b0, _)) = catch(|| tfm::algorithms::pl_to_tfm(&pl)) {
            emit(format!("pl-all-redirected:{k}"), b0, false, &mut rng, &mut out, &mut stats);
        }
    }
    out.flush();
    eprintln!("{}", json!(stats));
    0
}
