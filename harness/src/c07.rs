//! C07 -- conditionals and \expandafter / \noexpand on the real VM.
//!
//! R: token lists printed by TLC (every well-formed list up to a length bound, with the delivery the
//! spec expects) are rendered to TeX, run, and the delivered tokens compared with `want`.
//! F: random larger trees / streams are run and recorded as call events for TLC.
//! The harness never evaluates a condition or an expansion: it only spells tokens and reads output.
use crate::util::{quiet_panics, Args, Out, Rng};
use crate::vmh;
use serde_json::{json, Value};
use std::io::BufRead;

pub fn dispatch(cmd: &str, args: &Args) -> Option<i32> {
    Some(match cmd {
        "c07-cond-replay" => cond_replay(args),
        "c07-cond-events" => cond_events(args),
        "c07-exp-replay" => exp_replay(args),
        "c07-exp-events" => exp_events(args),
        _ => return None,
    })
}

const COND_PRELUDE: &str = "\\let\\Aiftrue=\\iftrue \\let\\Aiffalse=\\iffalse \\let\\Aifodd=\\ifodd \\let\\Aifnum=\\ifnum \\let\\Aifcase=\\ifcase \\let\\Aor=\\or \\let\\Aelse=\\else \\let\\Afi=\\fi \\catcode`\\!=13 \\catcode`\\?=13 \\catcode`\\|=13 \\catcode`\\@=13 \\catcode`\\;=13 \\catcode`\\:=13 \\catcode`\\*=13 \\let~=\\else \\let!=\\fi \\let?=\\or \\let|=\\iftrue \\let@=\\iffalse \\let;=\\ifodd \\let:=\\ifnum \\let*=\\ifcase ";

/// Spell one conditional-language token.  `alias`: 0 = the primitive, 1 = a \let-alias on a control
/// sequence, 2 = a \let-alias on an active character (no space is skipped after those).
fn render_cond_tok(t: &Value, alias: u64) -> String {
    let name = |prim: &str, act: &str, arg: String| -> String {
        match alias {
            0 => format!("\\{prim} {arg}"),
            1 => format!("\\A{prim} {arg}"),
            _ => format!("{act}{arg}"),
        }
    };
    match t["t"].as_str().unwrap() {
        "x" => ["?", "a", "b", "c"][t["c"].as_u64().unwrap() as usize].to_string(),
        "lb" => "{".to_string(),
        "rb" => "}".to_string(),
        "or" => name("or", "?", String::new()),
        "else" => name("else", "~", String::new()),
        "fi" => name("fi", "!", String::new()),
        "case" => name("ifcase", "*", format!("{} ", t["a"].as_i64().unwrap())),
        "if" => match t["kind"].as_str().unwrap() {
            "iftrue" => name("iftrue", "|", String::new()),
            "iffalse" => name("iffalse", "@", String::new()),
            "ifodd" => name("ifodd", ";", format!("{} ", t["a"].as_i64().unwrap())),
            "ifnum" => name("ifnum", ":", format!("{}{}{} ", t["a"].as_i64().unwrap(), t["rel"].as_str().unwrap(), t["b"].as_i64().unwrap())),
            k => panic!("unknown condition {k}"),
        },
        k => panic!("unknown token {k}"),
    }
}

/// alias_bits: two bits per token position (mod 30): 0/3 primitive, 1 control-sequence alias, 2 active alias
fn render_cond(toks: &[Value], alias_bits: u64) -> String {
    let mut s = String::from(COND_PRELUDE);
    for (i, t) in toks.iter().enumerate() {
        let a = (alias_bits >> (2 * (i % 30))) & 3;
        s.push_str(&render_cond_tok(t, if a == 3 { 0 } else { a }));
    }
    s
}

fn outcome_str(o: &vmh::Outcome) -> String {
    match o {
        vmh::Outcome::Ok => String::new(),
        vmh::Outcome::Err { title, .. } => format!("error: {title}"),
        vmh::Outcome::Panic { site, msg } => format!("panic at {site}: {msg}"),
        vmh::Outcome::Budget => "budget".to_string(),
    }
}

/// Run and return (ids of delivered plain tokens, error string).
fn run_cond(src: &str) -> (Vec<i64>, String) {
    let mut vm = vmh::new_vm(&[], &[]);
    let r = vmh::run_src::<vmh::H>(&mut vm, "main.tex", src, 200_000);
    let mut ids = vec![];
    for t in &r.toks {
        match t {
            vmh::Tok::Char('a', _) => ids.push(1),
            vmh::Tok::Char('b', _) => ids.push(2),
            vmh::Tok::Char('c', _) => ids.push(3),
            vmh::Tok::Char(' ', _) | vmh::Tok::Char('\r', _) => {} // the end-of-line space
            vmh::Tok::Char(_, _) => ids.push(-1),
            _ => ids.push(-2),
        }
    }
    (ids, outcome_str(&r.outcome))
}

fn read_lines(path: &str) -> Vec<Value> {
    let f = std::fs::File::open(path).unwrap_or_else(|e| {
        eprintln!("cannot open {path}: {e}");
        std::process::exit(2)
    });
    std::io::BufReader::new(f).lines().map(|l| serde_json::from_str(&l.unwrap()).unwrap()).collect()
}

fn par_map<T: Sync, R: Send>(items: &[T], f: impl Fn(usize, &T) -> R + Sync) -> Vec<R> {
    let n = items.len();
    let nthreads = std::thread::available_parallelism().map(|n| n.get()).unwrap_or(4);
    let next = std::sync::atomic::AtomicUsize::new(0);
    let out: std::sync::Mutex<Vec<(usize, R)>> = std::sync::Mutex::new(Vec::with_capacity(n));
    std::thread::scope(|s| {
        for _ in 0..nthreads {
            s.spawn(|| {
                let mut local = vec![];
                loop {
                    let i = next.fetch_add(1, std::sync::atomic::Ordering::SeqCst);
                    if i >= n {
                        break;
                    }
                    local.push((i, f(i, &items[i])));
                }
                out.lock().unwrap().extend(local);
            });
        }
    });
    let mut v = out.into_inner().unwrap();
    v.sort_by_key(|x| x.0);
    v.into_iter().map(|x| x.1).collect()
}

pub fn cond_replay(args: &Args) -> i32 {
    quiet_panics();
    let cases = read_lines(args.req("in"));
    let seed: u64 = args.num("seed", 1);
    let res = par_map(&cases, |i, c| {
        let toks = c["toks"].as_array().unwrap();
        let want: Vec<i64> = c["want"].as_array().unwrap().iter().map(|v| v.as_i64().unwrap()).collect();
        // each case three ways: primitives only, aliases only, mixed
        let mut bad = vec![];
        let mut rng = Rng::new(seed ^ (i as u64) << 8);
        // primitives only, control-sequence aliases only, active-character aliases only, mixed
        for bits in [0u64, 0x5555_5555_5555_5555, 0xAAAA_AAAA_AAAA_AAAA, rng.next()] {
            let src = render_cond(toks, bits);
            let (got, err) = run_cond(&src);
            if got != want || !err.is_empty() {
                bad.push(json!({"kind":"violation","part":"cond-replay","program":src,"toks":toks,"want":want,"got":got,"err":err}));
                break;
            }
        }
        bad
    });
    let mut out = Out::new(args.str("out"));
    let mut nv = 0;
    for b in res.iter().flatten() {
        nv += 1;
        if nv <= 30 {
            out.line(b);
        }
    }
    let sample = cases.get(cases.len() / 2).map(|c| render_cond(c["toks"].as_array().unwrap(), 0));
    out.line(&json!({"kind":"summary","part":"cond-replay","cases":cases.len(),"runs":cases.len()*4,"violations":nv,"sample":sample}));
    0
}

// ---- random well-formed trees -------------------------------------------------------------

fn tok(t: &str) -> Value {
    json!({"t":t,"kind":"","a":0,"rel":"","b":0,"c":0})
}

fn gen_body(rng: &mut Rng, depth: u32, out: &mut Vec<Value>, budget: &mut i32) {
    let n = rng.below(4);
    // 30% of bodies get unbalanced braces (legal only where the body ends up skipped; the spec
    // decides and counts the instance as skipped otherwise)
    let unbalanced = rng.chance(3, 20);
    let mut open = 0;
    for _ in 0..n {
        if *budget <= 0 {
            break;
        }
        *budget -= 1;
        match rng.below(10) {
            0..=3 => {
                let mut t = tok("x");
                t["c"] = json!(1 + rng.below(3));
                out.push(t);
            }
            4 => {
                out.push(tok("lb"));
                open += 1;
            }
            5 => {
                if open > 0 || unbalanced {
                    out.push(tok("rb"));
                    open -= 1;
                }
            }
            _ => {
                if depth > 0 {
                    gen_cond(rng, depth - 1, out, budget);
                }
            }
        }
    }
    if !unbalanced {
        while open > 0 {
            out.push(tok("rb"));
            open -= 1;
        }
    }
}

const BOUNDARY: [i64; 13] = [0, 1, -1, 2, -2, 3, -3, 7, -7, 2147483647, -2147483647, 1000000, -999999];

fn gen_cond(rng: &mut Rng, depth: u32, out: &mut Vec<Value>, budget: &mut i32) {
    if rng.chance(1, 3) {
        // \ifcase
        let mut t = tok("case");
        let nor = rng.below(4) as i64;
        t["a"] = json!(*rng.pick(&[-2i64, -1, 0, 0, 1, 1, 2, 2, 3, 4, 5, 2147483647, -2147483647]));
        out.push(t);
        gen_body(rng, depth, out, budget);
        for _ in 0..nor {
            out.push(tok("or"));
            gen_body(rng, depth, out, budget);
        }
        if rng.chance(1, 2) {
            out.push(tok("else"));
            gen_body(rng, depth, out, budget);
        }
        out.push(tok("fi"));
    } else {
        let mut t = tok("if");
        match rng.below(4) {
            0 => t["kind"] = json!("iftrue"),
            1 => t["kind"] = json!("iffalse"),
            2 => {
                t["kind"] = json!("ifodd");
                t["a"] = json!(*rng.pick(&BOUNDARY));
            }
            _ => {
                t["kind"] = json!("ifnum");
                t["a"] = json!(*rng.pick(&BOUNDARY));
                t["b"] = json!(if rng.chance(1, 4) { t["a"].as_i64().unwrap() } else { *rng.pick(&BOUNDARY) });
                t["rel"] = json!(*rng.pick(&["<", "=", ">"]));
            }
        }
        out.push(t);
        gen_body(rng, depth, out, budget);
        if rng.chance(1, 2) {
            out.push(tok("else"));
            gen_body(rng, depth, out, budget);
        }
        out.push(tok("fi"));
    }
}

pub fn cond_events(args: &Args) -> i32 {
    quiet_panics();
    let seed: u64 = args.num("seed", 1);
    let n: usize = args.num("n", 1000);
    let maxdepth: u32 = args.num("depth", 6);
    let mut rng = Rng::new(seed);
    let mut cases: Vec<(Vec<Value>, u64)> = vec![];
    for i in 0..n {
        let mut toks = vec![];
        let mut budget = 40;
        let d = (i as u32) % (maxdepth + 1);
        // top level: a body that contains at least one conditional
        gen_body(&mut rng, d, &mut toks, &mut budget);
        gen_cond(&mut rng, d, &mut toks, &mut budget);
        gen_body(&mut rng, d, &mut toks, &mut budget);
        cases.push((toks, rng.next()));
    }
    let res = par_map(&cases, |_, (toks, bits)| {
        let src = render_cond(toks, *bits);
        let (got, err) = run_cond(&src);
        json!({"toks":toks,"out":got,"err":err,"program":src})
    });
    let mut out = Out::new(args.str("out"));
    for r in &res {
        out.line(r);
    }
    0
}

// ---- \expandafter / \noexpand ---------------------------------------------------------------

const EXP_PRELUDE: &str = "\\def\\mone{c}\\def\\mtwo{\\mone d}\\def\\mthree#1{e#1f}\\def\\mfour{}";

fn render_exp(toks: &[Value]) -> String {
    let mut s = String::from(EXP_PRELUDE);
    for t in toks {
        let c = t["c"].as_u64().unwrap_or(0);
        match t["t"].as_str().unwrap() {
            "x" => s.push(['?', 'a', 'b', 'c', 'd', 'e', 'f'][c as usize]),
            "m" => s.push_str(["", "\\mone ", "\\mtwo ", "\\mthree ", "\\mfour "][c as usize]),
            "xa" => s.push_str("\\expandafter "),
            "nx" => s.push_str("\\noexpand "),
            k => panic!("unknown token {k}"),
        }
    }
    s
}

fn run_exp(src: &str, simple: bool) -> (Vec<Value>, String) {
    vmh::set_simple_expandafter(simple);
    let mut vm = vmh::new_vm(&[], &[]);
    let r = vmh::run_src::<vmh::H>(&mut vm, "main.tex", src, 200_000);
    vmh::set_simple_expandafter(false);
    let mut v = vec![];
    for t in &r.toks {
        match t {
            vmh::Tok::Char(' ', _) | vmh::Tok::Char('\r', _) => {}
            vmh::Tok::Char(c, _) => v.push(json!({"t":"x","c":"?abcdef".find(*c).map(|i| i as i64).unwrap_or(-1)})),
            vmh::Tok::Unexp(n) => v.push(json!({"t":"u","c":match n.as_str() {
                "mone" => 1, "mtwo" => 2, "mthree" => 3, "mfour" => 4, "expandafter" => 100, "noexpand" => 101, _ => -1 }})),
            vmh::Tok::Undef(_) => v.push(json!({"t":"undef","c":-1})),
        }
    }
    (v, outcome_str(&r.outcome))
}

pub fn exp_replay(args: &Args) -> i32 {
    quiet_panics();
    let cases = read_lines(args.req("in"));
    let res = par_map(&cases, |_, c| {
        let toks = c["toks"].as_array().unwrap();
        let want = c["want"].as_array().unwrap();
        let src = render_exp(toks);
        let (s, se) = run_exp(&src, true);
        let (o, oe) = run_exp(&src, false);
        let ok_s = &s == want && se.is_empty();
        let ok_o = &o == want && oe.is_empty();
        if ok_s && ok_o {
            None
        } else {
            Some(json!({"toks":toks,"program":src,"want":want,"simple":{"out":s,"err":se},"optimized":{"out":o,"err":oe},
                "builtins_agree": s == o && se == oe}))
        }
    });
    let mut out = Out::new(args.str("out"));
    for r in res.iter().flatten() {
        out.line(r);
    }
    let sample = cases.get(cases.len() / 2).map(|c| render_exp(c["toks"].as_array().unwrap()));
    eprintln!("{}", json!({"cases":cases.len(),"sample":sample}));
    0
}

pub fn exp_events(args: &Args) -> i32 {
    quiet_panics();
    let seed: u64 = args.num("seed", 1);
    let n: usize = args.num("n", 1000);
    let maxlen: u64 = args.num("len", 14);
    let mut rng = Rng::new(seed);
    let mut cases: Vec<Vec<Value>> = vec![];
    for _ in 0..n {
        let len = 2 + rng.below(maxlen - 1);
        let mut toks = vec![];
        for _ in 0..len {
            toks.push(match rng.below(12) {
                0..=1 => json!({"t":"x","c":1 + rng.below(2)}),
                2..=4 => json!({"t":"m","c":1 + rng.below(4)}),
                5..=8 => json!({"t":"xa","c":0}),
                _ => json!({"t":"nx","c":0}),
            });
        }
        // a few trailing plain tokens so that most streams do not run out of input
        for _ in 0..rng.below(4) {
            toks.push(json!({"t":"x","c":1 + rng.below(2)}));
        }
        cases.push(toks);
    }
    let res = par_map(&cases, |_, toks| {
        let src = render_exp(toks);
        let (s, se) = run_exp(&src, true);
        let (o, oe) = run_exp(&src, false);
        json!({"toks":toks,"program":src,"simple":{"out":s,"err":se},"optimized":{"out":o,"err":oe}})
    });
    let mut out = Out::new(args.str("out"));
    for r in &res {
        out.line(r);
    }
    0
}
