//! C19 -- \input, \endinput, \read on the real VM with an in-memory file system.
//!
//! Part A (F): file trees over the item alphabet of TexInput.tla are rendered to TeX files and run;
//! the delivered tokens are recorded for TLC.  Part B (R): every history of \openin / \read /
//! \ifeof / \closein over the TLC-dumped stream automaton is run as one program and each
//! operation's observation is looked up in the table.
use crate::lts::Lts;
use crate::util::{quiet_panics, Args, Out, Rng};
use crate::vmh::{self, TokV};
use serde_json::{json, Value};

pub fn dispatch(cmd: &str, args: &Args) -> Option<i32> {
    Some(match cmd {
        "c19-files" => files_events(args),
        "c19-streams" => streams_walk(args),
        _ => return None,
    })
}

fn fname(i: usize) -> String {
    // a file name ends at the first space or non-character token (TeX.2021.526): characters of every other
    // category belong to it, so some names carry a subscript, alignment or math-shift character
    let mut s = String::from(["f", "f", "f_", "f&", "f", "f$", "f_x"][i % 7]);
    let mut n = i;
    loop {
        s.push((b'a' + (n % 26) as u8) as char);
        n /= 26;
        if n == 0 {
            break;
        }
    }
    s
}

const XC: [char; 8] = ['?', 'A', 'B', 'C', 'D', 'E', 'F', 'G'];

/// Name of the macro for a body (letters only), and its definition text.
fn macro_name(body: &Value) -> String {
    let mut n = String::from("m");
    for it in body.as_array().unwrap() {
        n.push(match it["t"].as_str().unwrap() { "x" => 'x', "in" => 'i', "ei" => 'e', _ => 'q' });
        n.push((b'a' + (it["c"].as_u64().unwrap() % 26) as u8) as char);
    }
    n
}

fn render_items(items: &[Value], s: &mut String, defs: &mut Vec<(String, String)>) {
    for it in items {
        let c = it["c"].as_u64().unwrap() as usize;
        match it["t"].as_str().unwrap() {
            "x" => s.push(XC[c]),
            "in" => {
                s.push_str("\\input ");
                s.push_str(&fname(c));
                s.push(' ');
            }
            "ei" => s.push_str("\\endinput "),
            "lb" => s.push('{'),
            "rb" => s.push('}'),
            "m" => {
                let name = macro_name(&it["body"]);
                if !defs.iter().any(|d| d.0 == name) {
                    let mut b = String::new();
                    render_items(it["body"].as_array().unwrap(), &mut b, defs);
                    defs.push((name.clone(), b));
                }
                s.push('\\');
                s.push_str(&name);
                s.push(' ');
            }
            k => panic!("unknown item {k}"),
        }
    }
}

fn render_file_defs(lines: &[Value], final_newline: bool, defs: &mut Vec<(String, String)>) -> String {
    let mut s = String::new();
    for (li, line) in lines.iter().enumerate() {
        render_items(line.as_array().unwrap(), &mut s, defs);
        if li + 1 < lines.len() || final_newline {
            s.push('\n');
        }
    }
    s
}

fn render_file(lines: &[Value], final_newline: bool) -> String {
    let mut s = String::new();
    for (li, line) in lines.iter().enumerate() {
        for it in line.as_array().unwrap() {
            let c = it["c"].as_u64().unwrap() as usize;
            match it["t"].as_str().unwrap() {
                "x" => s.push(XC[c]),
                "in" => {
                    s.push_str("\\input ");
                    s.push_str(&fname(c));
                    s.push(' ');
                }
                "ei" => s.push_str("\\endinput "),
                "lb" => s.push('{'),
                "rb" => s.push('}'),
                "cm" => s.push_str("% end"),
                k => panic!("unknown item {k}"),
            }
        }
        if li + 1 < lines.len() || final_newline {
            s.push('\n');
        }
    }
    s
}

fn delivered(toks: &[vmh::Tok]) -> Vec<Value> {
    toks.iter()
        .map(|t| match t {
            vmh::Tok::Char(' ', _) => json!({"t":"sp","c":0}),
            vmh::Tok::Char(c, _) => json!({"t":"x","c":XC.iter().position(|x| x == c).map(|i| i as i64).unwrap_or(-1)}),
            vmh::Tok::Undef(n) if n == "par" => json!({"t":"par","c":0}),
            _ => json!({"t":"other","c":-1}),
        })
        .collect()
}

fn err_of(o: &vmh::Outcome) -> String {
    match o {
        vmh::Outcome::Ok => String::new(),
        vmh::Outcome::Err { title, rendered } => {
            // a structured error must carry a location and render
            if rendered.contains(">>>") { format!("error: {title}") } else { format!("unlocated error: {title}") }
        }
        vmh::Outcome::Panic { site, msg } => format!("panic at {site}: {msg}"),
        vmh::Outcome::Budget => "budget".to_string(),
    }
}

/// Run a file tree: files[0] is the main program, files[i] is \input-able as fname(i+1).
fn run_tree(files: &[Value], final_newline_bits: u64) -> Value {
    let mut fs: Vec<(String, String)> = vec![];
    let mut main = String::new();
    let mut defs: Vec<(String, String)> = vec![];
    for (i, f) in files.iter().enumerate() {
        let lines = f.as_array().unwrap();
        // a file whose last line is empty cannot be written without the final newline
        let last_empty = lines.last().map(|l| l.as_array().unwrap().is_empty()).unwrap_or(false);
        let text = render_file_defs(lines, last_empty || (final_newline_bits >> (i % 60)) & 1 == 1, &mut defs);
        if i == 0 {
            main = text;
        } else {
            fs.push((format!("{}.tex", fname(i + 1)), text));
        }
    }
    let mut vm = vmh::new_vm(&fs, &[]);
    // macro definitions are made by a prelude source that is read completely before the main file
    let mut prelude = String::from("\\endlinechar=-1 ");
    for (n, b) in &defs {
        prelude.push_str(&format!("\\def\\{n}{{{b}}}"));
    }
    prelude.push_str("\\endlinechar=13 ");
    let _ = vmh::run_src::<vmh::H>(&mut vm, "prelude.tex", &prelude, 100_000);
    let r = vmh::run_src::<vmh::H>(&mut vm, "main.tex", &main, 500_000);
    json!({"files":files,"out":delivered(&r.toks),"err":err_of(&r.outcome),"main":main,"prelude":prelude})
}

fn it(t: &str, c: u64) -> Value {
    json!({"t":t,"c":c})
}

pub fn files_events(args: &Args) -> i32 {
    quiet_panics();
    let seed: u64 = args.num("seed", 1);
    let n: usize = args.num("n", 2000);
    let mut rng = Rng::new(seed);
    let mut out = Out::new(args.str("out"));
    for i in 0..n {
        // a tree of up to 6 files; file k may input files with a larger number (depth up to 5),
        // occasionally itself or a smaller one (recursion -> the input-level limit)
        let nf = 1 + rng.below(6) as usize;
        let cyclic = rng.chance(1, 25);
        let mut files: Vec<Value> = vec![];
        for k in 1..=nf {
            let nl = rng.below(4) as usize;
            let mut lines = vec![];
            for _ in 0..nl {
                let ni = rng.below(5) as usize;
                let mut line = vec![];
                for _ in 0..ni {
                    match rng.below(11) {
                        10 => {
                            // a macro whose body reads a file and/or ends the input with text pending behind
                            let mut body = vec![];
                            for _ in 0..(1 + rng.below(3)) {
                                match rng.below(5) {
                                    0 => body.push(it("ei", 0)),
                                    1 | 2 if k < nf => body.push(it("in", (k as u64 + 1) + rng.below((nf - k) as u64))),
                                    _ => body.push(it("x", 1 + rng.below(7))),
                                }
                            }
                            line.push(json!({"t":"m","c":0,"body":body}));
                        }
                        0..=4 => line.push(it("x", 1 + rng.below(7))),
                        5 => line.push(it("ei", 0)),
                        _ => {
                            if cyclic && rng.chance(1, 2) {
                                line.push(it("in", 1 + rng.below(nf as u64).max(1)));
                            } else if k < nf {
                                line.push(it("in", (k as u64 + 1) + rng.below((nf - k) as u64)));
                            } else {
                                line.push(it("x", 1 + rng.below(7)));
                            }
                        }
                    }
                }
                lines.push(Value::Array(line));
            }
            files.push(Value::Array(lines));
        }
        // file 1 is the main program and cannot be \input by name in this encoding: map "in 1" to 2
        for f in files.iter_mut() {
            for line in f.as_array_mut().unwrap() {
                for item in line.as_array_mut().unwrap() {
                    if item["t"] == "in" && item["c"] == 1 {
                        item["c"] = json!(if nf >= 2 { 2 } else { 1 });
                    }
                }
            }
        }
        if nf < 2 {
            // no file to input: drop "in" items
            for f in files.iter_mut() {
                for line in f.as_array_mut().unwrap() {
                    line.as_array_mut().unwrap().retain(|x| x["t"] != "in");
                    for x in line.as_array_mut().unwrap() {
                        if x["t"] == "m" {
                            x["body"].as_array_mut().unwrap().retain(|y| y["t"] != "in");
                        }
                    }
                }
            }
        }
        out.line(&run_tree(&files, rng.next() | (i as u64 & 1)));
    }
    // chains: depth 5, 50, 90 and 99 (100 files open at once, the documented limit: must work) and 150 (must fail);
    // one more than 99 is where the two readings of "100" part and is not probed
    for depth in [5usize, 50, 90, 99, 150] {
        let mut files: Vec<Value> = vec![];
        for k in 1..=(depth + 1) {
            if k <= depth {
                files.push(json!([[it("x", 1), it("in", k as u64 + 1), it("x", 2)]]));
            } else {
                files.push(json!([[it("x", 3)]]));
            }
        }
        out.line(&run_tree(&files, u64::MAX));
    }
    0
}

// ---- part B: stream automaton walk ------------------------------------------------------------

fn tokv_json(t: &TokV) -> Value {
    match t {
        TokV::Char(' ', 10) => json!({"t":"sp","c":0}),
        TokV::Char(_, 1) => json!({"t":"lb","c":0}),
        TokV::Char(_, 2) => json!({"t":"rb","c":0}),
        TokV::Char(c, _) => json!({"t":"x","c":XC.iter().position(|x| x == c).map(|i| i as i64).unwrap_or(-1)}),
        TokV::Cs(n) if n == "par" => json!({"t":"par","c":0}),
        _ => json!({"t":"other","c":-1}),
    }
}

/// The three read files of MC_TexInputB (TheFiles), rendered from the same token description.
fn read_files(variant: u64) -> Vec<(String, String)> {
    let f1 = json!([[it("x", 1)], [it("x", 2), it("cm", 0)], [it("cm", 0)]]);
    let f2 = json!([[it("x", 1), it("lb", 0)], [it("x", 2), it("rb", 0), it("x", 3)], [it("x", 1), it("rb", 0), it("x", 2)], []]);
    let f3 = json!([]);
    let f4 = json!([[it("x", 3)], [it("x", 1), it("lb", 0), it("x", 2), it("rb", 0), it("rb", 0), it("x", 3)]]);
    vec![
        ("rd.tex".to_string(), render_file(f4.as_array().unwrap(), variant & 4 == 4)),
        ("ra.tex".to_string(), render_file(f1.as_array().unwrap(), variant & 1 == 1)),
        ("rb.tex".to_string(), render_file(f2.as_array().unwrap(), true)),
        ("rc.tex".to_string(), render_file(f3.as_array().unwrap(), variant & 2 == 2)),
    ]
}

fn op_source(o: &Value) -> String {
    let n = o["n"].as_u64().unwrap();
    // TLC's stream numbers 1,2 are bound to TeX streams 0 and 15 (both ends of the range)
    let sn = if n == 1 { 0 } else { 15 };
    match o["k"].as_str().unwrap() {
        "open" => format!("\\openin {sn}={} ", ["nosuchfile", "ra", "rb", "rc", "rd"][o["f"].as_u64().unwrap() as usize]),
        "close" => format!("\\closein {sn} "),
        "ifeof" => format!("[\\ifeof {sn} T\\else F\\fi]"),
        "read" => format!("\\read {sn} to \\rl \\rl |"),
        k => panic!("unknown op {k}"),
    }
}

/// Run a history; returns per-op observations.
fn run_history(lts: &Lts, hist: &[usize], variant: u64) -> (Vec<Value>, String) {
    let mut src = String::from("\\endlinechar=13 ");
    for h in hist {
        src.push_str(&op_source(&lts.ops[*h]));
        src.push('\n');
    }
    let mut vm = vmh::new_vm(&read_files(variant), &[]);
    vmh::macro_rec_start();
    let r = vmh::run_src::<vmh::H>(&mut vm, "main.tex", &src, 200_000);
    let calls = vmh::macro_rec_take();
    // observations in order: each \rl expansion, each [T]/[F]
    let mut reads = calls.iter().filter(|c| c.name == TokV::Cs("rl".to_string()));
    let text = vmh::render(&r.toks);
    let mut eofs = text.match_indices('[').map(|(i, _)| text[i + 1..].chars().next().unwrap_or('?'));
    let mut obs = vec![];
    let err = err_of(&r.outcome);
    for h in hist {
        let o = &lts.ops[*h];
        obs.push(match o["k"].as_str().unwrap() {
            "read" => match reads.next() {
                Some(c) => json!({"toks": c.expansion.iter().map(tokv_json).collect::<Vec<_>>(), "err": ""}),
                None => json!({"toks": [], "err": if err.is_empty() { "missing".to_string() } else { err.clone() }}),
            },
            "ifeof" => match eofs.next() {
                Some('T') => json!(true),
                Some('F') => json!(false),
                _ => json!("missing"),
            },
            _ => json!(true),
        });
    }
    (obs, src)
}

fn obs_matches(want: &Value, got: &Value) -> bool {
    // a read that the spec says fails ("terminal" = the closed stream falls back to the harness's
    // empty terminal; "file ended within read") must fail with a located error; the text is free
    if let Some(e) = want.get("err").and_then(|e| e.as_str()) {
        if !e.is_empty() {
            let ge = got["err"].as_str().unwrap_or("");
            return ge.starts_with("error:");
        }
    }
    want == got
}

pub fn streams_walk(args: &Args) -> i32 {
    quiet_panics();
    let lts = Lts::load(args.req("lts"));
    let dev: Option<Lts> = args.str("devlts").map(Lts::load);
    let maxlen: usize = args.num("maxlen", 4);
    // enumerate histories (DFS over the strict table); a history ends after a failing read
    let mut hists: Vec<Vec<usize>> = vec![];
    fn rec(lts: &Lts, st: usize, hist: &mut Vec<usize>, left: usize, out: &mut Vec<Vec<usize>>) {
        let mut extended = false;
        if left > 0 {
            for oi in 0..lts.ops.len() {
                if let Some((t, _)) = &lts.edges[st][oi] {
                    extended = true;
                    hist.push(oi);
                    rec(lts, *t as usize, hist, left - 1, out);
                    hist.pop();
                }
            }
        }
        if !extended && !hist.is_empty() {
            out.push(hist.clone());
        }
    }
    rec(&lts, lts.init, &mut vec![], maxlen, &mut hists);
    let nthreads = std::thread::available_parallelism().map(|n| n.get()).unwrap_or(4);
    let next = std::sync::atomic::AtomicUsize::new(0);
    let acc = std::sync::Mutex::new((0u64, Vec::<Value>::new(), None::<Value>));
    std::thread::scope(|sc| {
        for _ in 0..nthreads {
            sc.spawn(|| {
                let mut runs = 0u64;
                let mut viol = vec![];
                let mut sample = None;
                loop {
                    let i = next.fetch_add(1, std::sync::atomic::Ordering::SeqCst);
                    if i >= hists.len() {
                        break;
                    }
                    let hist = &hists[i];
                    let (obs, src) = run_history(&lts, hist, i as u64);
                    runs += 1;
                    // expected per op from the strict table
                    // (expected results, whether the table has an edge for every op of the history)
                    let expect = |l: &Lts| -> (Vec<Value>, bool) {
                        let mut st = l.init;
                        let mut v = vec![];
                        for h in hist {
                            let mut o = lts.ops[*h].clone();
                            o.as_object_mut().unwrap().remove("res");
                            let Some(&oi) = l.op_index.get(&serde_json::to_string(&o).unwrap()) else { return (v, false) };
                            let Some((t, res)) = l.edges[st][oi].as_ref() else { return (v, false) };
                            v.push(res.clone());
                            st = *t as usize;
                        }
                        (v, true)
                    };
                    let (want, complete) = expect(&lts);
                    assert!(complete, "histories are paths of the strict table");
                    let ok = want.iter().zip(obs.iter()).all(|(w, g)| obs_matches(w, g));
                    if !ok {
                        // In the table with the deviations a read may fail earlier than in the strict one;
                        // a failed read ends a history in both (what follows an error is not specified),
                        // so the deviant table explains the run if it predicts every observation up to
                        // and including its own failing read.
                        let explained = dev
                            .as_ref()
                            .map(|d| {
                                let (w, complete) = expect(d);
                                let ends_in_error =
                                    w.last().and_then(|r| r.get("err")).and_then(|e| e.as_str()).map(|e| !e.is_empty()).unwrap_or(false);
                                !w.is_empty() && (complete || ends_in_error) && w.iter().zip(obs.iter()).all(|(w, g)| obs_matches(w, g))
                            })
                            .unwrap_or(false);
                        if viol.len() < 200 {
                            viol.push(json!({"kind":"violation","part":"streams","program":src,"want":want,"got":obs,
                                "explained_by_deviations":explained,"len":hist.len()}));
                        }
                    } else if sample.is_none() && hist.len() >= 3 {
                        sample = Some(json!({"program":src,"observations":obs}));
                    }
                }
                let mut a = acc.lock().unwrap();
                a.0 += runs;
                a.1.extend(viol);
                if a.2.is_none() {
                    a.2 = sample;
                }
            });
        }
    });
    let a = acc.into_inner().unwrap();
    let mut out = Out::new(args.str("out"));
    let mut v = a.1;
    v.sort_by_key(|x| x["len"].as_u64().unwrap_or(0));
    for x in v.iter().take(400) {
        out.line(x);
    }
    out.line(&json!({"kind":"summary","part":"streams","histories":hists.len(),"runs":a.0,"lts_states":lts.states.len(),"lts_edges":lts.n_edges,"sample":a.2}));
    0
}
