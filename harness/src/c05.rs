//! C05 -- (stub; see DESIGN.md section 5)
use crate::util::Args;

pub fn dispatch(_cmd: &str, _args: &Args) -> Option<i32> {
    None
}
