//! C05: compiled lig/kern programs (tfm::ligkern) -- binding F.
//!
//! Every subcommand builds raw `lang::Program` values (or loads them from corpus fonts), compiles
//! them with the real `CompiledProgram::compile*`, runs the compiled program on words and records
//! one ndjson event per program:
//!
//!   {"p": {"ins": [[skip, right_char, op, rem], ...],   skip: -1 = STOP, n = SKIP n
//!                                                        op: TeX op_byte (0,1,2,3,5,6,7,11), 128 = kern,
//!                                                            255 = skip_byte > 128 (EntrypointRedirect)
//!                                                        rem: inserted char | kern as Scaled | redirect
//!          "ep": [[char, index], ...], "packed": 0|1,    entry points (packed = raw TFM remainders)
//!          "lbe": index | -1, "rbc": char | 256},
//!    "errs": [[left | 256, right], ...]                  starting pairs of the reported loop errors
//!    "runs": [{"w": [chars], "nl": 0|1, "ro": char | 256, "out": [item, ...]} ...]}
//!   item = [0, c] plain character | [1, c, [originals], lb, rb] ligature | [2, scaled] kern
//!
//! No expectation is computed here: Trace_LigKern.tla re-interprets the raw instructions with TeX's
//! cursor semantics and decides every run and the loop report.
use crate::util::{catch, quiet_panics, Args, Out, Rng};
use serde_json::{json, Value};
use std::collections::{BTreeMap, BTreeSet, HashMap};
use tfm::ligkern::lang::{Instruction, Operation, PostLigOperation, Program};
use tfm::ligkern::{CompiledProgram, InfiniteLoopError, RunItem, RunOptions};
use tfm::{Char, FixWord};

pub fn dispatch(cmd: &str, args: &Args) -> Option<i32> {
    Some(match cmd {
        "c05-small" => small(args),
        "c05-random" => random(args),
        "c05-corpus" => corpus(args),
        "c05-redirect" => redirect(args),
        "c05-convert" => convert(args),
        "c05-one" => one(args),
        "c05-long" => long_word(args),
        "c05-text" => text_words(args),
        _ => return None,
    })
}

// ------------------------------------------------------------------------------------------
// c05-text: boxworks-text's add_word (the way a font's program reaches a horizontal list).  Small random
// fonts with and without a boundary character go the road fonts take in practice (property list ->
// .tfm bytes -> loaded -> compile_from_tfm_file); every word up to three letters is run directly
// (`run`) and through TextPreprocessorImpl::add_word.  The list add_word builds is projected to run
// items - node kinds, characters, ligature originals and flags; its kern amounts are scaled by the
// font size (C17's function), so when the list has the same shape as `run`'s output the amounts shown
// to TLC are `run`'s, otherwise the list is shown as it is (and cannot be accepted).
// ------------------------------------------------------------------------------------------
/// One word run directly and through add_word with font number `font` active.
fn one_word(tp: &mut boxworks_text::TextPreprocessorImpl, cp: &CompiledProgram, w: &[u8], font: u32) -> (Value, Value) {
    use boxworks::ds;
    use boxworks::TextPreprocessor;
    let spec = RunSpec { w: w.to_vec(), nl: false, ro: None };
    let direct = run_json(cp, &spec);
    let word: String = w.iter().map(|b| *b as char).collect();
    let listed = catch(|| {
        let mut list: Vec<ds::Horizontal> = vec![];
        tp.add_word(&word, &mut list);
        list
    });
    let mut via = json!({"w": w, "nl": 0, "ro": 256, "via": "add_word"});
    match listed {
        Err((site, msg)) => via["panic"] = json!([site, msg]),
        Ok(list) => {
            // a node that names another font than the active one is shown as such (kind 8)
            let items: Vec<Value> = list
                .iter()
                .map(|n| match n {
                    ds::Horizontal::Char(c) if c.font != font => json!([8, c.font]),
                    ds::Horizontal::Ligature(l) if l.font != font => json!([8, l.font]),
                    ds::Horizontal::Char(c) => json!([0, c.char as u32]),
                    ds::Horizontal::Ligature(l) => json!([1, l.char as u32,
                        l.original_chars.chars().map(|c| c as u32).collect::<Vec<_>>(),
                        l.includes_left_boundary as u8, l.includes_right_boundary as u8]),
                    ds::Horizontal::Kern(k) => json!([2, k.width.0]),
                    _ => json!([9, 0]),
                })
                .collect();
            let same_shape = direct["out"].as_array().map(|d| d.len() == items.len() && d.iter().zip(items.iter()).all(|(a, b)| a == b));
            via["out"] = if same_shape == Some(true) { direct["out"].clone() } else { Value::Array(items) };
        }
    }
    (direct, via)
}

fn text_words(args: &Args) -> i32 {
    use boxworks::TextPreprocessor;
    quiet_panics();
    let seed: u64 = args.num("seed", 1);
    let nfonts: usize = args.num("fonts", 60);
    let mut rng = Rng::new(seed ^ 0x7E87);
    let mut out = Out::new(args.str("out"));
    const LETTERS: &[u8] = b"abs";
    const RESULTS: &[u8] = b"xyz";
    const FORM_NAMES: [&str; 8] = ["LIG", "LIG/", "/LIG", "/LIG/", "LIG/>", "/LIG>", "/LIG/>", "/LIG/>>"];
    let words = words_upto(LETTERS, 3);
    let mut made = 0;
    let mut guard = 0;
    let mut group: Vec<(Value, tfm::File, CompiledProgram)> = vec![];
    while made < nfonts && guard < nfonts * 20 {
        guard += 1;
        let bc: Option<u8> = match rng.below(3) {
            0 => None,
            _ => Some(b'|'),
        };
        // one to three rules; with a boundary character most fonts have a rule against it, and a third
        // of the fonts have *only* rules against the boundaries
        let mut pl = String::from(
            "(DESIGNSIZE R 10.0)\n(FONTDIMEN\n (SLANT R 0.0)\n (SPACE R 0.3)\n (STRETCH R 0.15)\n (SHRINK R 0.1)\n (XHEIGHT R 0.4)\n (QUAD R 1.0)\n (EXTRASPACE R 0.1)\n )\n",
        );
        if let Some(b) = bc {
            pl.push_str(&format!("(BOUNDARYCHAR O {:o})\n", b));
        }
        for c in LETTERS.iter().chain(RESULTS).chain(b"|") {
            pl.push_str(&format!("(CHARACTER O {:o} (CHARWD R 0.5))\n", c));
        }
        pl.push_str("(LIGTABLE\n");
        let only_boundary = bc.is_some() && rng.chance(1, 3);
        let nlabels = 1 + rng.below(2);
        let mut used: Vec<u8> = vec![];
        for _ in 0..nlabels {
            let l = *rng.pick(LETTERS);
            if used.contains(&l) {
                continue;
            }
            used.push(l);
            pl.push_str(&format!(" (LABEL O {:o})\n", l));
            for _ in 0..1 + rng.below(2) {
                let r = match bc {
                    Some(b) if only_boundary || rng.chance(1, 2) => b,
                    _ => *rng.pick(LETTERS),
                };
                if rng.chance(1, 3) {
                    pl.push_str(&format!(" (KRN O {:o} R 0.{})\n", r, 1 + rng.below(8)));
                } else {
                    pl.push_str(&format!(" ({} O {:o} O {:o})\n", FORM_NAMES[rng.below(8) as usize], r, rng.pick(RESULTS)));
                }
            }
            pl.push_str(" (STOP)\n");
        }
        if bc.is_some() && !only_boundary && rng.chance(1, 4) {
            pl.push_str(&format!(" (LABEL BOUNDARYCHAR)\n (KRN O {:o} R 0.2)\n (STOP)\n", rng.pick(LETTERS)));
        }
        pl.push_str(" )\n");
        let loaded = catch(|| -> Option<(Value, tfm::File, CompiledProgram, Vec<InfiniteLoopError>)> {
            let (plf, warnings) = tfm::pl::File::from_pl_source_code(&pl);
            if !warnings.is_empty() {
                return None;
            }
            let t: tfm::File = plf.into();
            let bytes = t.serialize();
            let mut file = tfm::File::deserialize(&bytes).0.ok()?;
            let packed: BTreeMap<u8, u8> = file.lig_kern_entrypoints().into_iter().map(|(c, e)| (c.0, e)).collect();
            let pj = program_json(&file.lig_kern_program, &file.kerns, file.header.design_size, &packed, true);
            let (cp, errs) = CompiledProgram::compile_from_tfm_file(&mut file);
            Some((pj, file, cp, errs))
        });
        let Ok(Some((pj, file, cp, errs))) = loaded else { continue };
        if !errs.is_empty() {
            continue; // a looping program is not run (the other generators report loops)
        }
        made += 1;
        let mut tp = boxworks_text::TextPreprocessorImpl::new(boxworks_text::Params::plain_tex_defaults());
        tp.register_font(0, &file, cp.clone());
        tp.activate_font(0);
        let mut rs: Vec<Value> = vec![];
        for w in &words {
            let (direct, via) = one_word(&mut tp, &cp, w, 0);
            rs.push(direct);
            rs.push(via);
        }
        out.line(&json!({"p": pj, "tag": "text-font", "errs": errs_json(&errs), "runs": rs}));
        group.push((pj, file, cp));
        // one preprocessor, three fonts: the same words come back after every change of font (and in the
        // same font again), so anything a call leaves behind for the next one is seen
        if group.len() == 3 {
            let mut tp = boxworks_text::TextPreprocessorImpl::new(boxworks_text::Params::plain_tex_defaults());
            let nums = [0u32, 1, 2];
            for (i, (_, file, cp)) in group.iter().enumerate() {
                tp.register_font(nums[i], file, cp.clone());
            }
            let mut per: Vec<Vec<Value>> = vec![vec![], vec![], vec![]];
            let some: Vec<&Vec<u8>> = (0..12).map(|_| &words[rng.below(words.len() as u64) as usize]).collect();
            for round in 0..4 {
                for step in 0..3 {
                    let i = (round + step * (1 + round % 2)) % 3;
                    tp.activate_font(nums[i]);
                    for w in &some {
                        let (direct, via) = one_word(&mut tp, &group[i].2, w, nums[i]);
                        per[i].push(direct);
                        per[i].push(via);
                        if rng.chance(1, 3) {
                            let (direct, via) = one_word(&mut tp, &group[i].2, w, nums[i]);
                            per[i].push(direct);
                            per[i].push(via);
                        }
                    }
                }
            }
            for (i, (pj, _, _)) in group.iter().enumerate() {
                out.line(&json!({"p": pj, "tag": "text-shared", "errs": [], "runs": per[i]}));
            }
            group.clear();
        }
    }
    out.flush();
    eprintln!("c05-text: {made} fonts x {} words x 2 roads", words.len());
    0
}

// ------------------------------------------------------------------------------------------
// long words (run in a child process by the driver: a stack overflow cannot be caught)
// ------------------------------------------------------------------------------------------
/// Words of `n` characters under three one-rule programs in which every character is absorbed
/// (AA -> LIG A), kerned (AA -> KRN) or left alone; prints the number of items and originals.
fn long_word(args: &Args) -> i32 {
    let n: usize = args.num("n", 300_000);
    let mut out = Out::new(args.str("out"));
    for (name, rule) in [("absorbed", "(LIG C A C A)"), ("kerned", "(KRN C A R 0.5)"), ("plain", "(KRN C B R 0.5)")] {
        let src = format!("(CHARACTER C A (CHARWD R 1.0))\n(CHARACTER C B (CHARWD R 1.0))\n(LIGTABLE (LABEL C A) {rule} (STOP))\n");
        let (file, _) = tfm::pl::File::from_pl_source_code(&src);
        let (cp, _) = CompiledProgram::compile_from_pl_file(&file);
        let word: String = "A".repeat(n);
        let (mut items, mut originals) = (0u64, 0u64);
        for it in cp.run(&word) {
            items += 1;
            originals += match it {
                tfm::ligkern::RunItem::Char(_) => 1,
                tfm::ligkern::RunItem::Ligature(l) => l.original.chars().count() as u64,
                tfm::ligkern::RunItem::Kern(_) => 0,
            };
        }
        out.line(&json!({"ev":"long","program":name,"n":n,"items":items,"originals":originals}));
    }
    out.flush();
    0
}

// ------------------------------------------------------------------------------------------
// projection of programs and outputs
// ------------------------------------------------------------------------------------------

const FORMS: [PostLigOperation; 8] = [
    PostLigOperation::RetainNeitherMoveToInserted, // LIG      =:      0
    PostLigOperation::RetainRightMoveToInserted,   // LIG/     =:|     1
    PostLigOperation::RetainLeftMoveNowhere,       // /LIG     |=:     2
    PostLigOperation::RetainBothMoveNowhere,       // /LIG/    |=:|    3
    PostLigOperation::RetainRightMoveToRight,      // LIG/>    =:|>    5
    PostLigOperation::RetainLeftMoveToInserted,    // /LIG>    |=:>    6
    PostLigOperation::RetainBothMoveToInserted,    // /LIG/>   |=:|>   7
    PostLigOperation::RetainBothMoveToRight,       // /LIG/>>  |=:|>> 11
];

/// The op_byte of the TFM format (TeX82 section 545) for a ligature form.
fn op_byte(p: PostLigOperation) -> i64 {
    use PostLigOperation::*;
    match p {
        RetainNeitherMoveToInserted => 0,
        RetainRightMoveToInserted => 1,
        RetainLeftMoveNowhere => 2,
        RetainBothMoveNowhere => 3,
        RetainRightMoveToRight => 5,
        RetainLeftMoveToInserted => 6,
        RetainBothMoveToInserted => 7,
        RetainBothMoveToRight => 11,
    }
}

fn form_of_byte(b: i64) -> PostLigOperation {
    *FORMS.iter().find(|f| op_byte(**f) == b).expect("valid op byte")
}

fn ins_json(i: &Instruction, kerns: &[FixWord], ds: FixWord) -> Value {
    let skip: i64 = match i.next_instruction {
        None => -1,
        Some(n) => n as i64,
    };
    let (op, rem): (i64, i64) = match i.operation {
        // The kern is shown to the specification as the Scaled value that the font-metric
        // conversion yields for it (the conversion itself is property C17's subject).
        Operation::Kern(fw) => (128, fw.to_scaled(ds).0 as i64),
        Operation::KernAtIndex(k) => (
            128,
            kerns.get(k as usize).copied().unwrap_or_default().to_scaled(ds).0 as i64,
        ),
        Operation::Ligature { char_to_insert, post_lig_operation, .. } => {
            (op_byte(post_lig_operation), char_to_insert.0 as i64)
        }
        Operation::EntrypointRedirect(u, _) => (255, u as i64),
    };
    json!([skip, i.right_char.0, op, rem])
}

fn program_json<E: Into<i64> + Copy>(
    p: &Program,
    kerns: &[FixWord],
    ds: FixWord,
    ep: &BTreeMap<u8, E>,
    packed: bool,
) -> Value {
    let ins: Vec<Value> = p.instructions.iter().map(|i| ins_json(i, kerns, ds)).collect();
    let ep: Vec<Value> = ep.iter().map(|(c, e)| json!([*c, (*e).into()])).collect();
    json!({
        "ins": ins,
        "ep": ep,
        "packed": packed as u8,
        "lbe": p.left_boundary_char_entrypoint.map(|e| e as i64).unwrap_or(-1),
        "rbc": p.right_boundary_char.map(|c| c.0 as i64).unwrap_or(256),
    })
}

fn item_json(it: &RunItem) -> Value {
    match it {
        RunItem::Char(c) => json!([0, *c as u32]),
        RunItem::Ligature(l) => {
            let o: Vec<u32> = l.original.chars().map(|c| c as u32).collect();
            json!([1, l.c as u32, o, l.includes_left_boundary as u8, l.includes_right_boundary as u8])
        }
        RunItem::Kern(k) => json!([2, k.0]),
    }
}

#[derive(Clone, Debug)]
struct RunSpec {
    w: Vec<u8>,
    nl: bool,
    ro: Option<u8>,
}

const ITEM_CAP: usize = 4096;

fn run_json(cp: &CompiledProgram, r: &RunSpec) -> Value {
    let s: String = r.w.iter().map(|b| *b as char).collect();
    let got = catch(|| {
        let it = cp.run_with_options(
            s.chars(),
            RunOptions {
                disable_left_boundary: r.nl,
                right_boundary_override: r.ro.map(|b| b as char),
            },
        );
        it.take(ITEM_CAP + 1).map(|i| item_json(&i)).collect::<Vec<Value>>()
    });
    let mut v = json!({"w": r.w, "nl": r.nl as u8, "ro": r.ro.map(|b| b as i64).unwrap_or(256)});
    match got {
        Ok(items) if items.len() > ITEM_CAP => {
            v["panic"] = json!(["harness", format!("run yields more than {ITEM_CAP} items")]);
        }
        Ok(items) => {
            v["out"] = Value::Array(items);
        }
        Err((site, msg)) => {
            v["panic"] = json!([site, msg]);
        }
    }
    v
}

fn errs_json(errs: &[InfiniteLoopError]) -> Value {
    Value::Array(
        errs.iter()
            .map(|e| json!([e.starting_pair.0.map(|c| c.0 as i64).unwrap_or(256), e.starting_pair.1 .0]))
            .collect(),
    )
}

/// Compile with the real compiler and run every requested word; one event.
fn event(
    p: &Program,
    kerns: &[FixWord],
    ds: FixWord,
    ep: &BTreeMap<u8, u16>,
    runs: &[RunSpec],
    tag: &str,
) -> Value {
    let pj = program_json(p, kerns, ds, ep, false);
    let entry: HashMap<Char, u16> = ep.iter().map(|(c, e)| (Char(*c), *e)).collect();
    let compiled = catch(|| CompiledProgram::compile(p, ds, kerns, entry));
    match compiled {
        Err((site, msg)) => json!({"p": pj, "tag": tag, "panic": [site, msg], "errs": [], "runs": []}),
        Ok((cp, errs)) => {
            let rs: Vec<Value> = runs.iter().map(|r| run_json(&cp, r)).collect();
            json!({"p": pj, "tag": tag, "errs": errs_json(&errs), "runs": rs})
        }
    }
}

// ------------------------------------------------------------------------------------------
// builders
// ------------------------------------------------------------------------------------------

#[derive(Clone, Copy, Debug, PartialEq, Eq)]
enum Act {
    Kern,
    Lig(usize, u8), // index into FORMS, inserted char
}

fn mk_ins(skip: Option<u8>, rc: u8, act: Act, kern: FixWord) -> Instruction {
    Instruction {
        next_instruction: skip,
        right_char: Char(rc),
        operation: match act {
            Act::Kern => Operation::Kern(kern),
            Act::Lig(f, c) => Operation::Ligature {
                char_to_insert: Char(c),
                post_lig_operation: FORMS[f],
                post_lig_tag_invalid: false,
            },
        },
    }
}

fn words_upto(letters: &[u8], maxlen: usize) -> Vec<Vec<u8>> {
    let mut out: Vec<Vec<u8>> = vec![];
    let mut layer: Vec<Vec<u8>> = vec![vec![]];
    for _ in 0..maxlen {
        let mut next = vec![];
        for w in &layer {
            for l in letters {
                let mut x = w.clone();
                x.push(*l);
                next.push(x);
            }
        }
        out.extend(next.iter().cloned());
        layer = next;
    }
    out
}

// ------------------------------------------------------------------------------------------
// c05-small: the exhaustive small space (the same space MC_LigKern.tla explores)
// ------------------------------------------------------------------------------------------
//
// letters = the first `letters` characters from 'a'; a rule is (left in {boundary} + letters,
// right in letters, kern | one of the 8 forms inserting a letter); a program is a set of at most
// `rules` rules on distinct pairs, laid out per left character as one SKIP-0 chain closed by STOP;
// with and without the last letter doubling as right boundary character; every word of length
// 1..=maxlen, with and without left boundary processing.  `stride`/`offset` take every stride-th
// program (thorough tier, large spaces).
fn small(args: &Args) -> i32 {
    quiet_panics();
    let k: usize = args.num("letters", 2);
    let maxr: usize = args.num("rules", 2);
    let maxlen: usize = args.num("maxlen", 3);
    let stride: u64 = args.num("stride", 1);
    let offset: u64 = args.num("offset", 0);
    let mut out = Out::new(args.str("out"));
    let letters: Vec<u8> = (0..k).map(|i| b'a' + i as u8).collect();
    let mut lefts: Vec<Option<u8>> = letters.iter().map(|l| Some(*l)).collect();
    lefts.push(None);
    let pairs: Vec<(Option<u8>, u8)> =
        lefts.iter().flat_map(|l| letters.iter().map(move |r| (*l, *r))).collect();
    let mut acts = vec![Act::Kern];
    for f in 0..8 {
        for c in &letters {
            acts.push(Act::Lig(f, *c));
        }
    }
    let words = words_upto(&letters, maxlen);
    let mut runs: Vec<RunSpec> = vec![];
    for w in &words {
        for nl in [false, true] {
            runs.push(RunSpec { w: w.clone(), nl, ro: None });
        }
    }
    let ds = FixWord::ONE;
    let mut counter: u64 = 0;
    let mut nprog: u64 = 0;
    // recursive enumeration of rule sets: pair indices strictly increasing
    fn rec(
        start: usize,
        left: usize,
        cur: &mut Vec<(usize, usize)>,
        pairs: &[(Option<u8>, u8)],
        nacts: usize,
        f: &mut dyn FnMut(&[(usize, usize)]),
    ) {
        f(cur);
        if left == 0 {
            return;
        }
        for pi in start..pairs.len() {
            for ai in 0..nacts {
                cur.push((pi, ai));
                rec(pi + 1, left - 1, cur, pairs, nacts, f);
                cur.pop();
            }
        }
    }
    let mut cur = vec![];
    let nacts = acts.len();
    rec(0, maxr, &mut cur, &pairs, nacts, &mut |rules: &[(usize, usize)]| {
        let idx = counter;
        counter += 1;
        if idx % stride != offset % stride {
            return;
        }
        // layout
        let mut p = Program::default();
        let mut ep: BTreeMap<u8, u16> = BTreeMap::new();
        let mut by_left: BTreeMap<Option<u8>, Vec<(u8, Act)>> = BTreeMap::new();
        for (pi, ai) in rules {
            by_left.entry(pairs[*pi].0).or_default().push((pairs[*pi].1, acts[*ai]));
        }
        let mut kn = 0;
        for (left, rs) in &by_left {
            let start = p.instructions.len() as u16;
            match left {
                None => p.left_boundary_char_entrypoint = Some(start),
                Some(l) => {
                    ep.insert(*l, start);
                }
            }
            for (j, (rc, act)) in rs.iter().enumerate() {
                kn += 1;
                let skip = if j + 1 == rs.len() { None } else { Some(0) };
                p.instructions.push(mk_ins(skip, *rc, *act, FixWord(16 * kn)));
            }
        }
        for rbc in [None, Some(*letters.last().unwrap())] {
            p.right_boundary_char = rbc.map(Char);
            out.line(&event(&p, &[], ds, &ep, &runs, "small"));
        }
        nprog += 1;
    });
    out.flush();
    eprintln!("c05-small: {nprog} programs of {counter}, {} events, {} runs each", out.lines, runs.len());
    0
}

// ------------------------------------------------------------------------------------------
// c05-random: seeded random programs with chains, shared tails, several labels per chain
// ------------------------------------------------------------------------------------------

struct Gen {
    rng: Rng,
}

impl Gen {
    fn program(&mut self, with_redirect: bool) -> (Program, Vec<FixWord>, BTreeMap<u8, u16>, Vec<u8>) {
        let rng = &mut self.rng;
        let m = rng.range(2, 5) as usize;
        let letters: Vec<u8> = (0..m).map(|i| b'a' + i as u8).collect();
        let n = rng.range(3, 9) as usize;
        let rbc: Option<u8> = match rng.below(4) {
            0 | 1 => None,
            2 => Some(*rng.pick(&letters)),
            _ => Some(b'z'),
        };
        let mut kerns: Vec<FixWord> = vec![];
        let mut ins = vec![];
        for i in 0..n {
            let mut rcs = letters.clone();
            if let Some(b) = rbc {
                rcs.push(b);
                rcs.push(b);
            }
            let rc = *rng.pick(&rcs);
            let skip = if i + 1 == n {
                None
            } else {
                match rng.below(10) {
                    0..=2 => None,
                    3..=7 => Some(0u8),
                    _ => {
                        let s = rng.range(1, 2) as usize;
                        if i + s + 1 < n {
                            Some(s as u8)
                        } else {
                            Some(0)
                        }
                    }
                }
            };
            let operation = if with_redirect && rng.chance(1, 4) {
                // an instruction with skip_byte > 128 in the middle of the program
                let forms = [0u8, 1, 2, 3, 5, 6, 7, 11];
                Operation::EntrypointRedirect(
                    u16::from_be_bytes([*rng.pick(&forms), *rng.pick(&letters)]),
                    true,
                )
            } else if rng.chance(1, 4) {
                let amount = FixWord(16 * (i as i32 + 1) * if rng.chance(1, 3) { -1 } else { 1 });
                if rng.chance(1, 2) {
                    kerns.push(amount);
                    Operation::KernAtIndex(kerns.len() as u16 - 1)
                } else {
                    Operation::Kern(amount)
                }
            } else {
                let mut cs = letters.clone();
                if rbc == Some(b'z') && rng.chance(1, 6) {
                    cs.push(b'z');
                }
                Operation::Ligature {
                    char_to_insert: Char(*rng.pick(&cs)),
                    post_lig_operation: FORMS[rng.below(8) as usize],
                    post_lig_tag_invalid: false,
                }
            };
            let skip = if matches!(operation, Operation::EntrypointRedirect(..)) { None } else { skip };
            ins.push(Instruction { next_instruction: skip, right_char: Char(rc), operation });
        }
        let mut ep = BTreeMap::new();
        for l in &letters {
            if rng.chance(7, 10) {
                ep.insert(*l, rng.below(n as u64) as u16);
            }
        }
        if rbc == Some(b'z') && rng.chance(1, 3) {
            ep.insert(b'z', rng.below(n as u64) as u16);
        }
        let lbe = if rng.chance(1, 2) { Some(rng.below(n as u64) as u16) } else { None };
        let p = Program {
            instructions: ins,
            left_boundary_char_entrypoint: lbe,
            right_boundary_char: rbc.map(Char),
            passthrough: Default::default(),
        };
        (p, kerns, ep, letters)
    }

    fn runs(&mut self, letters: &[u8], rbc: Option<u8>, nrand: usize) -> Vec<RunSpec> {
        let rng = &mut self.rng;
        let mut runs = vec![];
        for w in words_upto(letters, 2) {
            let nl = rng.chance(1, 3);
            runs.push(RunSpec { w, nl, ro: None });
        }
        for _ in 0..nrand {
            let len = rng.range(3, 6) as usize;
            let mut alphabet = letters.to_vec();
            if let Some(b) = rbc {
                if rng.chance(1, 4) {
                    alphabet.push(b);
                }
            }
            let w: Vec<u8> = (0..len).map(|_| *rng.pick(&alphabet)).collect();
            let ro = if rng.chance(1, 6) { Some(*rng.pick(letters)) } else { None };
            runs.push(RunSpec { w, nl: rng.chance(1, 3), ro });
        }
        runs
    }
}

fn random(args: &Args) -> i32 {
    quiet_panics();
    let seed: u64 = args.num("seed", 1);
    let n: usize = args.num("n", 1000);
    let nrand: usize = args.num("words", 10);
    let mut out = Out::new(args.str("out"));
    let mut g = Gen { rng: Rng::new(seed ^ 0xC05) };
    for _ in 0..n {
        let (p, kerns, ep, letters) = g.program(false);
        let runs = g.runs(&letters, p.right_boundary_char.map(|c| c.0), nrand);
        out.line(&event(&p, &kerns, FixWord::ONE, &ep, &runs, "random"));
    }
    out.flush();
    0
}

/// Programs in which an instruction with skip_byte > 128 (`EntrypointRedirect`) can be reached
/// through a chain.  Outside the quantifier of C05 as written; kept as a separate driver.
fn redirect(args: &Args) -> i32 {
    quiet_panics();
    let seed: u64 = args.num("seed", 1);
    let n: usize = args.num("n", 300);
    let mut out = Out::new(args.str("out"));
    let mut g = Gen { rng: Rng::new(seed ^ 0x5EC7) };
    let mut made = 0;
    while made < n {
        let (p, kerns, ep, letters) = g.program(true);
        if !p.instructions.iter().any(|i| matches!(i.operation, Operation::EntrypointRedirect(..))) {
            continue;
        }
        let runs = g.runs(&letters, p.right_boundary_char.map(|c| c.0), 6);
        out.line(&event(&p, &kerns, FixWord::ONE, &ep, &runs, "redirect"));
        made += 1;
    }
    out.flush();
    0
}

// ------------------------------------------------------------------------------------------
// c05-corpus: the lig/kern programs of the fonts shipped in the repository
// ------------------------------------------------------------------------------------------

/// Words over the font's own alphabet, biased towards pairs that have an instruction.  The chain
/// walk uses the crate's own iterator only to *choose inputs*; nothing here is an expectation.
fn corpus_runs(
    rng: &mut Rng,
    p: &Program,
    ep: &BTreeMap<u8, u16>,
    exists: &BTreeSet<u8>,
    npairs: usize,
    nwalks: usize,
) -> Vec<RunSpec> {
    let mut succ: BTreeMap<u8, Vec<(u8, Option<u8>)>> = BTreeMap::new();
    for (c, e) in ep {
        if !exists.contains(c) {
            continue;
        }
        for (_, i) in p.instructions_for_entrypoint(*e).take(512) {
            let ins = match i.operation {
                Operation::Ligature { char_to_insert, .. } if exists.contains(&char_to_insert.0) => {
                    Some(char_to_insert.0)
                }
                _ => None,
            };
            if exists.contains(&i.right_char.0) {
                succ.entry(*c).or_default().push((i.right_char.0, ins));
            }
        }
    }
    let lefts: Vec<u8> = succ.keys().copied().collect();
    let all: Vec<u8> = exists.iter().copied().collect();
    let mut runs = vec![];
    if lefts.is_empty() || all.is_empty() {
        return runs;
    }
    let mut pairs: Vec<(u8, u8)> =
        succ.iter().flat_map(|(l, v)| v.iter().map(move |(r, _)| (*l, *r))).collect();
    pairs.sort();
    pairs.dedup();
    // a deterministic sample of the pairs that have an instruction
    let step = (pairs.len() / npairs.max(1)).max(1);
    for (i, (l, r)) in pairs.iter().enumerate() {
        if i % step == 0 {
            runs.push(RunSpec { w: vec![*l, *r], nl: false, ro: None });
        }
    }
    for _ in 0..nwalks {
        let len = rng.range(2, 7) as usize;
        let mut w = vec![*rng.pick(&lefts)];
        while w.len() < len {
            let last = *w.last().unwrap();
            match succ.get(&last) {
                Some(v) if !rng.chance(1, 5) => {
                    let (r, ins) = *rng.pick(v);
                    w.push(r);
                    // continue from the inserted character's point of view now and then
                    if let Some(z) = ins {
                        if succ.contains_key(&z) && rng.chance(1, 2) {
                            let r2 = rng.pick(&succ[&z]).0;
                            w.push(r2);
                        }
                    }
                }
                _ => w.push(*rng.pick(&all)),
            };
        }
        let ro = if rng.chance(1, 10) { Some(*rng.pick(&all)) } else { None };
        runs.push(RunSpec { w, nl: rng.chance(1, 4), ro });
    }
    runs
}

fn corpus(args: &Args) -> i32 {
    quiet_panics();
    let dir = args.req("dir");
    let seed: u64 = args.num("seed", 1);
    let npairs: usize = args.num("pairs", 60);
    let nwalks: usize = args.num("walks", 60);
    let batch: usize = args.num("batch", 24);
    let mut out = Out::new(args.str("out"));
    let mut files: Vec<std::path::PathBuf> = vec![];
    let subs = args.str("subdirs").unwrap_or("computer-modern,ctan,originals,fuzz").to_string();
    for sub in subs.split(',') {
        if let Ok(rd) = std::fs::read_dir(std::path::Path::new(dir).join(sub)) {
            for e in rd.flatten() {
                let p = e.path();
                if matches!(p.extension().and_then(|s| s.to_str()), Some("tfm") | Some("plst") | Some("pl")) {
                    files.push(p);
                }
            }
        }
    }
    files.sort();
    let mut rng = Rng::new(seed ^ 0xC0FF);
    let (mut used, mut skipped) = (0, 0);
    for f in &files {
        let name = f.file_name().unwrap().to_string_lossy().to_string();
        let is_tfm = f.extension().and_then(|s| s.to_str()) == Some("tfm");
        let loaded = catch(|| -> Option<(Value, CompiledProgram, Vec<InfiniteLoopError>, Program, BTreeMap<u8, u16>, BTreeSet<u8>)> {
            if is_tfm {
                let bytes = std::fs::read(f).ok()?;
                let (file, warnings) = tfm::File::deserialize(&bytes);
                let mut file = file.ok()?;
                if !warnings.is_empty() {
                    return None;
                }
                // fonts TeX itself would load: no validation warnings, except that TeX does not
                // look for infinite ligature loops when it loads a font
                let mut probe = file.clone();
                let only_loops = probe.validate_and_fix().iter().all(|w| {
                    matches!(
                        w,
                        tfm::ValidationWarning::LigKernWarning(
                            tfm::ligkern::lang::ValidationWarning::InfiniteLoop(_)
                        )
                    )
                });
                if !only_loops {
                    return None;
                }
                let exists: BTreeSet<u8> = file.char_dimens.keys().map(|c| c.0).collect();
                let packed: BTreeMap<u8, u8> =
                    file.lig_kern_entrypoints().into_iter().map(|(c, e)| (c.0, e)).collect();
                let pj = program_json(&file.lig_kern_program, &file.kerns, file.header.design_size, &packed, true);
                let (cp, errs) = CompiledProgram::compile_from_tfm_file(&mut file);
                // unpacked entry points only for choosing words
                let mut prog = file.lig_kern_program.clone();
                let ep: BTreeMap<u8, u16> = packed
                    .iter()
                    .filter_map(|(c, e)| prog.unpack_entrypoint(*e).ok().map(|u| (*c, u)))
                    .collect();
                Some((pj, cp, errs, prog, ep, exists))
            } else {
                let src = std::fs::read_to_string(f).ok()?;
                let (file, warnings) = tfm::pl::File::from_pl_source_code(&src);
                if !warnings.is_empty() {
                    return None;
                }
                let exists: BTreeSet<u8> = file.char_dimens.keys().map(|c| c.0).collect();
                let ep: BTreeMap<u8, u16> =
                    file.lig_kern_entrypoints(false).into_iter().map(|(c, e)| (c.0, e)).collect();
                let pj = program_json(&file.lig_kern_program, &[], file.header.design_size, &ep, false);
                let (cp, errs) = CompiledProgram::compile_from_pl_file(&file);
                Some((pj, cp, errs, file.lig_kern_program.clone(), ep, exists))
            }
        });
        let (pj, cp, errs, prog, ep, exists) = match loaded {
            Ok(Some(x)) => x,
            Ok(None) => {
                skipped += 1;
                continue;
            }
            Err((site, msg)) => {
                out.line(&json!({"p": {"ins": [], "ep": [], "packed": 0, "lbe": -1, "rbc": 256}, "tag": name,
                                 "panic": [site, msg], "errs": [], "runs": []}));
                continue;
            }
        };
        if prog.instructions.is_empty() {
            skipped += 1;
            continue;
        }
        used += 1;
        let runs = corpus_runs(&mut rng, &prog, &ep, &exists, npairs, nwalks);
        for chunk in runs.chunks(batch.max(1)) {
            let rs: Vec<Value> = chunk.iter().map(|r| run_json(&cp, r)).collect();
            out.line(&json!({"p": pj, "tag": name, "errs": errs_json(&errs), "runs": rs}));
        }
    }
    out.flush();
    eprintln!("c05-corpus: {used} fonts used, {skipped} skipped (not loadable without warnings / no lig table)");
    0
}

// ------------------------------------------------------------------------------------------
// c05-convert: property-list fonts converted in memory (`pl::File -> tfm::File`, which packs the
// entry points and unpacks the kerns) and compiled with compile_from_tfm_file WITHOUT going
// through bytes.  The specification is shown the font as TeX would read it from the file the
// conversion serialises to (serialize + deserialize), plus `lbf`: the left-boundary entry point
// field as the in-memory file carries it (an observation, used only by a named deviation).
// ------------------------------------------------------------------------------------------
fn convert(args: &Args) -> i32 {
    quiet_panics();
    let dir = args.req("dir");
    let seed: u64 = args.num("seed", 1);
    let npairs: usize = args.num("pairs", 30);
    let nwalks: usize = args.num("walks", 30);
    let batch: usize = args.num("batch", 60);
    let mut out = Out::new(args.str("out"));
    let subs = args.str("subdirs").unwrap_or("computer-modern,ctan,originals,fuzz").to_string();
    let mut files: Vec<std::path::PathBuf> = vec![];
    for sub in subs.split(',') {
        if let Ok(rd) = std::fs::read_dir(std::path::Path::new(dir).join(sub)) {
            for e in rd.flatten() {
                let p = e.path();
                if matches!(p.extension().and_then(|s| s.to_str()), Some("plst") | Some("pl")) {
                    files.push(p);
                }
            }
        }
    }
    files.sort();
    let mut rng = Rng::new(seed ^ 0xC0DE);
    let (mut used, mut skipped) = (0, 0);
    for f in &files {
        let name = format!("{}:converted", f.file_name().unwrap().to_string_lossy());
        let loaded = catch(|| -> Option<(Value, CompiledProgram, Vec<InfiniteLoopError>, Program, BTreeMap<u8, u16>, BTreeSet<u8>)> {
            let src = std::fs::read_to_string(f).ok()?;
            let (pl, warnings) = tfm::pl::File::from_pl_source_code(&src);
            if !warnings.is_empty() || pl.lig_kern_program.instructions.is_empty() {
                return None;
            }
            let mut t: tfm::File = pl.into();
            let lbf: i64 = t.lig_kern_program.left_boundary_char_entrypoint.map(|e| e as i64).unwrap_or(-1);
            // the font file this conversion stands for, as a TFM reader sees it
            let bytes = t.serialize();
            let (rt, warnings) = tfm::File::deserialize(&bytes);
            let rt = rt.ok()?;
            if !warnings.is_empty() {
                return None;
            }
            let mut probe = rt.clone();
            if !probe.validate_and_fix().is_empty() {
                return None;
            }
            let exists: BTreeSet<u8> = rt.char_dimens.keys().map(|c| c.0).collect();
            let packed: BTreeMap<u8, u8> =
                rt.lig_kern_entrypoints().into_iter().map(|(c, e)| (c.0, e)).collect();
            let mut pj = program_json(&rt.lig_kern_program, &rt.kerns, rt.header.design_size, &packed, true);
            pj["lbf"] = json!(lbf);
            let mut prog = rt.lig_kern_program.clone();
            let ep: BTreeMap<u8, u16> =
                packed.iter().filter_map(|(c, e)| prog.unpack_entrypoint(*e).ok().map(|u| (*c, u))).collect();
            // the code under test: compile the converted file as it is in memory
            let (cp, errs) = CompiledProgram::compile_from_tfm_file(&mut t);
            Some((pj, cp, errs, prog, ep, exists))
        });
        let (pj, cp, errs, prog, ep, exists) = match loaded {
            Ok(Some(x)) => x,
            Ok(None) => {
                skipped += 1;
                continue;
            }
            Err((site, msg)) => {
                out.line(&json!({"p": {"ins": [], "ep": [], "packed": 0, "lbe": -1, "rbc": 256}, "tag": name,
                                 "panic": [site, msg], "errs": [], "runs": []}));
                continue;
            }
        };
        used += 1;
        let runs = corpus_runs(&mut rng, &prog, &ep, &exists, npairs, nwalks);
        for chunk in runs.chunks(batch.max(1)) {
            let rs: Vec<Value> = chunk.iter().map(|r| run_json(&cp, r)).collect();
            out.line(&json!({"p": pj, "tag": name, "errs": errs_json(&errs), "runs": rs}));
        }
    }
    out.flush();
    eprintln!("c05-convert: {used} fonts used, {skipped} skipped");
    0
}

// ------------------------------------------------------------------------------------------
// c05-one: re-run one recorded event (replay): program and runs are read back from the event
// ------------------------------------------------------------------------------------------
fn one(args: &Args) -> i32 {
    quiet_panics();
    let path = args.req("event");
    let txt = std::fs::read_to_string(path).expect("read event");
    let v: Value = serde_json::from_str(&txt).expect("json");
    let e = if v.get("event").is_some() { &v["event"] } else { &v };
    let pj = &e["p"];
    if pj["packed"].as_u64() == Some(1) {
        eprintln!("corpus event: re-run ./check C05 (the font is named in \"tag\")");
        return 2;
    }
    let mut p = Program::default();
    for i in pj["ins"].as_array().unwrap() {
        let (skip, rc, op, rem) =
            (i[0].as_i64().unwrap(), i[1].as_u64().unwrap() as u8, i[2].as_i64().unwrap(), i[3].as_i64().unwrap());
        let operation = match op {
            128 => Operation::Kern(FixWord((rem * 16) as i32)),
            255 => Operation::EntrypointRedirect(rem as u16, true),
            b => Operation::Ligature {
                char_to_insert: Char(rem as u8),
                post_lig_operation: form_of_byte(b),
                post_lig_tag_invalid: false,
            },
        };
        p.instructions.push(Instruction {
            next_instruction: if skip < 0 { None } else { Some(skip as u8) },
            right_char: Char(rc),
            operation,
        });
    }
    let lbe = pj["lbe"].as_i64().unwrap();
    p.left_boundary_char_entrypoint = if lbe < 0 { None } else { Some(lbe as u16) };
    let rbc = pj["rbc"].as_i64().unwrap();
    p.right_boundary_char = if rbc == 256 { None } else { Some(Char(rbc as u8)) };
    let ep: BTreeMap<u8, u16> = pj["ep"]
        .as_array()
        .unwrap()
        .iter()
        .map(|x| (x[0].as_u64().unwrap() as u8, x[1].as_u64().unwrap() as u16))
        .collect();
    let runs: Vec<RunSpec> = e["runs"]
        .as_array()
        .unwrap()
        .iter()
        .map(|r| RunSpec {
            w: r["w"].as_array().unwrap().iter().map(|c| c.as_u64().unwrap() as u8).collect(),
            nl: r["nl"].as_u64() == Some(1),
            ro: match r["ro"].as_i64().unwrap() {
                256 => None,
                c => Some(c as u8),
            },
        })
        .collect();
    let mut out = Out::new(args.str("out"));
    out.line(&event(&p, &[], FixWord::ONE, &ep, &runs, "replay"));
    out.flush();
    0
}
