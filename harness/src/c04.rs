//! C04: `boxworks_knuthplass::LineBreaker::break_line_single_attempt` -- bindings F and T.
//!
//! Every subcommand builds real boxworks horizontal lists, calls the real breaker with a recording
//! `debug::Logger` and writes one call event per call (see specs/Trace_KnuthPlass.tla):
//!
//! ```json
//! {"fn":"kp","items":[{"k":"box","w":..}, {"k":"kern","w":..,"x":0|1},
//!                     {"k":"glue","w":..,"st":..,"sto":0..3,"sh":..,"sho":0..3}, {"k":"pen","p":..},
//!                     {"k":"disc","pre":..,"npre":..,"post":..,"npost":..,"rep":..}],
//!  "lw":[..], "tol":.., "es":.., "final":bool, "ls":{glue}, "rs":{glue},
//!  "lp":..,"hp":..,"ehp":..,"dhd":..,"fhd":..,"adj":..,"loose":..,
//!  "res":{"k":"none"} | {"k":"brk","brk":[0-based element indices]},     or "panic":[file,msg]
//!  "log":[{"t":"fb",..} | {"t":"an",..}], "sel": node index | -1}
//! ```
//!
//! `items` are the *inputs* with character widths resolved through the same `FontRepo` the breaker
//! is given and the widths of discretionary lists summed.  No expected value is computed here:
//! the TLA+ specification recomputes legal breaks, line material, badness, demerits and the
//! optimum from the inputs.
//!
//! `c04-goldens` replays the repository's golden paragraphs (broken by real TeX) through
//! `break_line` and pairs every feasible break the logger reports with the numbers of TeX's own
//! `\tracingparagraphs` log (testdata/*_log.txt); those `fn = "line"` events put the
//! *specification* on trial.
use crate::util::{catch, quiet_panics, Args, Out, Rng};
use boxworks::ds;
use boxworks::FontRepo;
use boxworks_knuthplass as kp;
use common::{GlueOrder, Scaled};
use serde_json::{json, Map, Value};
use std::collections::{HashMap, HashSet};

pub fn dispatch(cmd: &str, args: &Args) -> Option<i32> {
    Some(match cmd {
        "c04-rand" => random(args),
        "c04-exh" => exhaustive(args),
        "c04-sweep" => sweep(args),
        "c04-replay" => replay(args),
        "c04-goldens" => goldens(args),
        _ => return None,
    })
}

// ------------------------------------------------------------------------------------------
// fonts, lists
// ------------------------------------------------------------------------------------------

/// Font 7: a table filled while the list is built (one code point per character node).
#[derive(Default)]
struct Fonts {
    widths: HashMap<char, i32>,
}

impl Fonts {
    fn new_char(&mut self, w: i32) -> ds::Char {
        let c = char::from_u32(0x4E00 + self.widths.len() as u32).unwrap();
        self.widths.insert(c, w);
        ds::Char { char: c, font: 7 }
    }
}

impl FontRepo for Fonts {
    fn width(&self, c: char, _font: u32) -> Option<Scaled> {
        self.widths.get(&c).map(|w| Scaled(*w))
    }
    fn height(&self, _c: char, _font: u32) -> Option<Scaled> {
        Some(Scaled(0))
    }
    fn depth(&self, _c: char, _font: u32) -> Option<Scaled> {
        Some(Scaled(0))
    }
}

struct NoHyphenation;
impl boxworks::Hyphenator for NoHyphenation {
    fn hyphenate(&self, _list: &mut Vec<ds::Horizontal>) {}
}

fn order_of(o: i64) -> GlueOrder {
    match o {
        0 => GlueOrder::Normal,
        1 => GlueOrder::Fil,
        2 => GlueOrder::Fill,
        3 => GlueOrder::Filll,
        _ => panic!("order {o}"),
    }
}

fn order_num(o: GlueOrder) -> i64 {
    match o {
        GlueOrder::Normal => 0,
        GlueOrder::Fil => 1,
        GlueOrder::Fill => 2,
        GlueOrder::Filll => 3,
    }
}

fn i(v: &Value, k: &str) -> i64 {
    v.get(k).and_then(|x| x.as_i64()).unwrap_or(0)
}

fn glue_of(v: &Value) -> common::Glue {
    common::Glue {
        width: Scaled(i(v, "w") as i32),
        stretch: Scaled(i(v, "st") as i32),
        stretch_order: order_of(i(v, "sto")),
        shrink: Scaled(i(v, "sh") as i32),
        shrink_order: order_of(i(v, "sho")),
    }
}

fn glue_json(g: &common::Glue) -> Value {
    json!({"w": g.width.0, "st": g.stretch.0, "sto": order_num(g.stretch_order),
           "sh": g.shrink.0, "sho": order_num(g.shrink_order)})
}

fn boxed(fonts: &mut Fonts, kind: &str, w: i32) -> ds::Horizontal {
    match kind {
        "rule" => ds::Rule { width: Scaled(w), height: Scaled(1), depth: Scaled(0) }.into(),
        "hbox" => ds::HBox { width: Scaled(w), ..Default::default() }.into(),
        "vbox" => ds::VBox { width: Scaled(w), ..Default::default() }.into(),
        "lig" => ds::Ligature {
            char: fonts.new_char(w).char,
            font: 7,
            original_chars: "ff".into(),
            includes_left_boundary: false,
            includes_right_boundary: false,
        }
        .into(),
        _ => fonts.new_char(w).into(),
    }
}

fn disc_elems(fonts: &mut Fonts, ws: &[Value]) -> Vec<ds::DiscretionaryElem> {
    ws.iter()
        .enumerate()
        .map(|(n, w)| {
            let w = w.as_i64().unwrap() as i32;
            match n % 3 {
                0 => ds::DiscretionaryElem::Char(fonts.new_char(w)),
                1 => ds::DiscretionaryElem::Kern(ds::Kern { width: Scaled(w), kind: ds::KernKind::Normal }),
                _ => ds::DiscretionaryElem::Rule(ds::Rule { width: Scaled(w), height: Scaled(1), depth: Scaled(0) }),
            }
        })
        .collect()
}

/// The real list for the items of an instance description.
fn build_list(items: &[Value], fonts: &mut Fonts) -> Vec<ds::Horizontal> {
    let mut list = vec![];
    for it in items {
        let k = it["k"].as_str().unwrap();
        list.push(match k {
            "box" => boxed(fonts, it.get("bk").and_then(|x| x.as_str()).unwrap_or("char"), i(it, "w") as i32),
            "kern" => ds::Kern {
                width: Scaled(i(it, "w") as i32),
                kind: if i(it, "x") == 1 {
                    ds::KernKind::Explicit
                } else {
                    match it.get("kk").and_then(|x| x.as_str()).unwrap_or("normal") {
                        "accent" => ds::KernKind::Accent,
                        "math" => ds::KernKind::Math,
                        _ => ds::KernKind::Normal,
                    }
                },
            }
            .into(),
            "glue" => ds::Glue { kind: ds::GlueKind::Normal, value: glue_of(it) }.into(),
            "pen" => ds::Penalty(i(it, "p") as i32).into(),
            "disc" => {
                let empty = vec![];
                let pre = it.get("prel").and_then(|x| x.as_array()).unwrap_or(&empty);
                let post = it.get("postl").and_then(|x| x.as_array()).unwrap_or(&empty);
                ds::Discretionary {
                    pre_break: disc_elems(fonts, pre),
                    post_break: disc_elems(fonts, post),
                    replace_count: i(it, "rep") as u32,
                }
                .into()
            }
            _ => panic!("item kind {k}"),
        });
    }
    list
}

/// Normalise an instance description: the derived fields of discretionaries.
fn resolve(inst: &mut Value) {
    for it in inst["items"].as_array_mut().unwrap() {
        if it["k"] == "disc" {
            let sum = |v: &Value| v.as_array().map(|a| a.iter().map(|x| x.as_i64().unwrap()).sum::<i64>()).unwrap_or(0);
            let len = |v: &Value| v.as_array().map(|a| a.len()).unwrap_or(0);
            let (pre, npre, post, npost) = (sum(&it["prel"]), len(&it["prel"]), sum(&it["postl"]), len(&it["postl"]));
            let m = it.as_object_mut().unwrap();
            m.insert("pre".into(), json!(pre));
            m.insert("npre".into(), json!(npre));
            m.insert("post".into(), json!(post));
            m.insert("npost".into(), json!(npost));
        }
    }
}

// ------------------------------------------------------------------------------------------
// the call
// ------------------------------------------------------------------------------------------

#[derive(Default)]
struct Recorder {
    log: Vec<Value>,
    elem: usize,
    sel: i64,
}

impl kp::debug::Logger for Recorder {
    fn log_attempt(&mut self, _attempt: kp::debug::Attempt) {}
    fn log_feasible_breakpoint(&mut self, _list: &[ds::Horizontal], fb: kp::debug::FeasibleBreakpoint) {
        self.elem = fb.elem_index;
        self.log.push(json!({"t": "fb", "i": fb.elem_index, "b": fb.badness, "p": fb.penalty, "d": fb.demerits,
            "prev": fb.previous_node_index, "art": fb.artificial_demerits}));
    }
    fn log_new_active_node(&mut self, an: kp::debug::NewActiveNode) {
        self.log.push(json!({"t": "an", "i": self.elem, "n": an.node_index, "ln": an.line_number,
            "fc": an.fitness_class, "hy": an.hyphenated, "td": an.total_demerits,
            "prev": an.previous_node_index, "art": an.artificial_demerits}));
    }
    fn log_selected_node(&mut self, node_index: usize) {
        self.sel = node_index as i64;
    }
}

fn params_of(inst: &Value) -> kp::Params {
    kp::Params {
        adj_demerits: i(inst, "adj") as i32,
        double_hyphen_demerits: i(inst, "dhd") as i32,
        final_hyphen_demerits: i(inst, "fhd") as i32,
        hyphen_penalty: i(inst, "hp") as i32,
        ex_hyphen_penalty: i(inst, "ehp") as i32,
        line_penalty: i(inst, "lp") as i32,
        looseness: i(inst, "loose") as i32,
        left_skip: glue_of(&inst["ls"]),
        right_skip: glue_of(&inst["rs"]),
        // not read by a single pass: the caller passes tolerance and emergency stretch explicitly
        emergency_stretch: Scaled(i(inst, "es") as i32),
        tolerance: i(inst, "tol") as i32,
        pre_tolerance: i(inst, "tol") as i32,
        ..kp::Params::plain_tex_defaults()
    }
}

/// Run the real breaker on an instance description; the event is the description plus the outcome.
fn run_instance(inst: &Value) -> Value {
    let mut fonts = Fonts::default();
    let list = build_list(inst["items"].as_array().unwrap(), &mut fonts);
    let params = params_of(inst);
    let lw: Vec<Scaled> = inst["lw"].as_array().unwrap().iter().map(|x| Scaled(x.as_i64().unwrap() as i32)).collect();
    let mut rec = Recorder { sel: -1, ..Default::default() };
    let tol = i(inst, "tol") as i32;
    let es = Scaled(i(inst, "es") as i32);
    let fin = inst["final"].as_bool().unwrap_or(false);
    let r = {
        let mut lb = kp::LineBreaker {
            params: &params,
            line_widths: &lw,
            line_indents: &[],
            debug_logger: Some(&mut rec),
            hyphenator: &NoHyphenation,
        };
        catch(|| lb.break_line_single_attempt(&list, &fonts, tol, es, fin))
    };
    let mut ev: Map<String, Value> = inst.as_object().unwrap().clone();
    ev.insert("fn".into(), json!("kp"));
    match r {
        Ok(None) => {
            ev.insert("res".into(), json!({"k": "none"}));
        }
        Ok(Some(v)) => {
            ev.insert("res".into(), json!({"k": "brk", "brk": v}));
        }
        Err((file, msg)) => {
            ev.insert("panic".into(), json!([file, msg]));
        }
    }
    ev.insert("log".into(), Value::Array(rec.log));
    ev.insert("sel".into(), json!(rec.sel));
    Value::Object(ev)
}

#[derive(Default)]
struct Stats {
    n: u64,
    nontrivial: u64,
    solved: u64,
    none: u64,
    panics: u64,
    max_nodes: usize,
    max_items: usize,
    kinds: HashMap<String, u64>,
    seen: HashSet<u64>,
}

impl Stats {
    /// Returns false if the instance was already run.
    fn fresh(&mut self, inst: &Value) -> bool {
        use std::hash::{Hash, Hasher};
        let mut h = std::collections::hash_map::DefaultHasher::new();
        inst.to_string().hash(&mut h);
        self.seen.insert(h.finish())
    }
    fn add(&mut self, ev: &Value) {
        self.n += 1;
        let log = ev["log"].as_array().unwrap();
        let nodes = log.iter().filter(|r| r["t"] == "an").count();
        let places: HashSet<i64> = log.iter().filter(|r| r["t"] == "fb").map(|r| r["i"].as_i64().unwrap()).collect();
        self.max_nodes = self.max_nodes.max(nodes);
        self.max_items = self.max_items.max(ev["items"].as_array().unwrap().len());
        if ev.get("panic").is_some() {
            self.panics += 1;
        } else if ev["res"]["k"] == "brk" {
            self.solved += 1;
            // the breaker saw feasible breaks at three or more places (two besides the end) and kept
            // at least three nodes: there was something to choose
            if places.len() >= 3 && nodes >= 3 {
                self.nontrivial += 1;
            }
        } else {
            self.none += 1;
        }
        for it in ev["items"].as_array().unwrap() {
            *self.kinds.entry(it["k"].as_str().unwrap().to_string()).or_default() += 1;
        }
    }
    fn write(&self, args: &Args, gen: &str) {
        if let Some(p) = args.str("stats") {
            let v = json!({"n": self.n, "distinct": self.seen.len(), "nontrivial": self.nontrivial, "solved": self.solved,
                "none": self.none, "panics": self.panics, "most_nodes": self.max_nodes, "longest_list": self.max_items,
                "item_kinds": self.kinds, "gen": gen});
            std::fs::write(p, v.to_string()).expect("write stats");
        }
    }
}

// ------------------------------------------------------------------------------------------
// instance descriptions
// ------------------------------------------------------------------------------------------

fn bx(w: i64) -> Value {
    json!({"k": "box", "w": w})
}
fn gl(w: i64, st: i64, sto: i64, sh: i64) -> Value {
    json!({"k": "glue", "w": w, "st": st, "sto": sto, "sh": sh, "sho": 0})
}
fn pn(p: i64) -> Value {
    json!({"k": "pen", "p": p})
}
fn kx(w: i64) -> Value {
    json!({"k": "kern", "w": w, "x": 1})
}
fn kf(w: i64) -> Value {
    json!({"k": "kern", "w": w, "x": 0})
}
fn dc(prel: &[i64], postl: &[i64], rep: i64) -> Value {
    json!({"k": "disc", "prel": prel, "postl": postl, "rep": rep})
}
fn zero_glue() -> Value {
    json!({"w": 0, "st": 0, "sto": 0, "sh": 0, "sho": 0})
}

/// May the item stand in the replacement run of a discretionary?
fn replaceable(it: &Value) -> bool {
    it["k"] == "box" || it["k"] == "kern"
}

fn well_formed(items: &[Value]) -> bool {
    items.iter().enumerate().all(|(a, it)| {
        if it["k"] != "disc" {
            return true;
        }
        let rep = i(it, "rep") as usize;
        a + rep < items.len() && (a + 1..=a + rep).all(|j| replaceable(&items[j]))
    })
}

fn instance(items: Vec<Value>, lw: &[i64], tol: i64, adj: i64, loose: i64, fin: bool) -> Value {
    let mut v = json!({"items": items, "lw": lw, "tol": tol, "es": 0, "final": fin, "ls": zero_glue(), "rs": zero_glue(),
        "lp": 10, "hp": 50, "ehp": 30, "dhd": 10000, "fhd": 5000, "adj": adj, "loose": loose});
    resolve(&mut v);
    v
}

/// The instances of the TLC model (MC_KnuthPlass): every well-formed list of at most `maxlen` items
/// over the model's alphabet, with and without the paragraph tail, every width sequence, every
/// parameter set.
fn exhaustive(args: &Args) -> i32 {
    quiet_panics();
    let maxlen: usize = args.num("maxlen", 3);
    let level: u32 = args.num("level", 0);
    let mut out = Out::new(args.str("out"));
    let mut alpha = vec![bx(3), bx(2), gl(1, 2, 0, 1), pn(-10000), dc(&[1], &[], 0), kx(1)];
    let mut widths: Vec<Vec<i64>> = vec![vec![7], vec![5, 7], vec![7, 5, 4]];
    // (tol, adj, loose, final)
    let mut pars: Vec<(i64, i64, i64, bool)> = vec![(10000, 10000, 0, false), (200, 500, 0, false), (10000, 10000, 1, false)];
    if level >= 1 {
        alpha.extend([pn(50), dc(&[1], &[1], 1), gl(1, -1, 0, 0), kf(-2)]);
        widths.push(vec![4, 9]);
        pars.extend([(10000, 0, -1, true), (99, -3000, 0, false), (10000, 10000, -1, false)]);
    }
    let tails: Vec<Vec<Value>> = vec![vec![], vec![pn(10000), gl(0, 1, 1, 0)]];
    let mut st = Stats::default();
    let mut idx = vec![0usize; 0];
    loop {
        let body: Vec<Value> = idx.iter().map(|&k| alpha[k].clone()).collect();
        for tail in &tails {
            let mut items = body.clone();
            items.extend(tail.iter().cloned());
            if !well_formed(&items) {
                continue;
            }
            for w in &widths {
                for &(tol, adj, loose, fin) in &pars {
                    let inst = instance(items.clone(), w, tol, adj, loose, fin);
                    let ev = run_instance(&inst);
                    st.fresh(&inst);
                    st.add(&ev);
                    out.line(&ev);
                }
            }
        }
        // next list in length-lexicographic order
        let mut p = idx.len();
        loop {
            if p == 0 {
                idx = vec![0; idx.len() + 1];
                break;
            }
            p -= 1;
            if idx[p] + 1 < alpha.len() {
                idx[p] += 1;
                for q in idx.iter_mut().skip(p + 1) {
                    *q = 0;
                }
                break;
            }
        }
        if idx.len() > maxlen {
            break;
        }
    }
    out.flush();
    st.write(args, &format!("exhaustive maxlen={maxlen} level={level}"));
    eprintln!("c04-exh: {} events, {} solved, {} non-trivial, {} panics", st.n, st.solved, st.nontrivial, st.panics);
    0
}

/// Badness sweep: two-line paragraphs whose first line has a chosen ratio r = 297 t / s of
/// shortfall (or excess) t to stretchability (shrinkability) s, for every r from 0 to 1300 -- the
/// whole domain of TeX's badness function (108) below inf_bad, on both sides -- under tolerances
/// from a pool, plus the large-dimension branches of 108.  Inputs only: the specification says
/// what badness, fitness class and demerits each line has.
fn sweep(args: &Args) -> i32 {
    quiet_panics();
    let step: i64 = args.num("step", 1);
    let mut out = Out::new(args.str("out"));
    let mut st = Stats::default();
    let tols: [i64; 6] = [10000, 12, 13, 99, 100, 200];
    let mut emit = |st: &mut Stats, out: &mut Out, t: i64, s: i64, stretch: bool, tol: i64, n: i64| {
        // line 1 = box glue box, broken at the second glue; the glue carries all of s
        let (w1, g, w2) = (5, 2, t + 7);
        let nat = w1 + g + w2;
        let glue = if stretch { gl(g, s, 0, 1) } else { gl(g, 1, 0, s) };
        let items = vec![bx(w1), glue, bx(w2), gl(1, 0, 0, 0), bx(4), pn(10000), gl(0, 1, 1, 0)];
        let lw = if stretch { nat + t } else { nat - t };
        if lw <= 0 {
            return;
        }
        let mut inst = instance(items, &[lw, lw + 50], tol, if n % 2 == 0 { 10000 } else { 37 }, 0, false);
        inst["lp"] = json!(if n % 3 == 0 { 0 } else { 10 });
        let ev = run_instance(&inst);
        st.fresh(&inst);
        st.add(&ev);
        out.line(&ev);
    };
    let mut n = 0i64;
    let mut r = 0i64;
    while r <= 1300 {
        for stretch in [true, false] {
            // s = 297 m, t = r m: (297 t) div s = r exactly
            let m = 1 + (r % 7);
            // once with every line feasible (the fitness class of the line is logged), once under a
            // tolerance from the pool (the feasibility threshold)
            emit(&mut st, &mut out, r * m, 297 * m, stretch, 10000, n);
            emit(&mut st, &mut out, r * m, 297 * m, stretch, tols[1 + (n % 5) as usize], n + 1);
            n += 1;
        }
        r += step;
    }
    // the branches of 108 for large dimensions, and zero / negative stretchability
    for &t in &[7230584i64, 7230585, 10_000_000, 200_000_000] {
        for &s in &[1i64, 1663496, 1663497, 1663498, 10_000_000, 100_000_000] {
            for stretch in [true, false] {
                emit(&mut st, &mut out, t, s, stretch, 10000, n);
                n += 1;
            }
        }
    }
    for &t in &[0i64, 1, 5] {
        for &s in &[0i64, 1] {
            for stretch in [true, false] {
                emit(&mut st, &mut out, t, s, stretch, 10000, n);
                n += 1;
            }
        }
    }
    out.flush();
    st.write(args, &format!("badness sweep step={step}"));
    eprintln!("c04-sweep: {} events, {} solved, {} panics", st.n, st.solved, st.panics);
    0
}

/// A random paragraph: words of boxes (with discretionaries and font kerns inside) separated by
/// glue, penalties, explicit kerns and combinations of them; line widths around a fraction of the
/// natural width; parameters from pools that contain the boundary values of the algorithm.
fn gen_instance(rng: &mut Rng, max_breaks: usize) -> Value {
    let u: i64 = *rng.pick(&[1, 1, 1, 2, 7, 100, 1000, 65536, 65536, 300000]);
    let neg = rng.chance(1, 10); // negative widths allowed in this instance
    let inf_glue = rng.chance(1, 8);
    let box_kinds = ["char", "char", "char", "lig", "rule", "hbox", "vbox"];
    let mut items: Vec<Value> = vec![];
    let mut breaks = 0usize; // upper bound on the number of legal breakpoints (by item kind)
    let nwords = rng.range(1, 6);
    let mk_glue = |rng: &mut Rng| {
        let w = rng.range(if neg { -2 } else { 0 }, 4) * u;
        let sto = if inf_glue && rng.chance(1, 3) { rng.range(1, 3) } else { 0 };
        let st = if neg && rng.chance(1, 6) { -rng.range(1, 2) * u } else { rng.range(0, 5) * u };
        let sh = rng.range(0, 3) * u;
        let sho = if rng.chance(1, 30) { 1 } else { 0 };
        json!({"k": "glue", "w": w, "st": st, "sto": sto, "sh": sh, "sho": sho})
    };
    let pen_pool: [i64; 14] = [0, 0, 50, 100, -50, -100, 500, 1000, -1000, 3000, 9999, 10000, -10000, -10001];
    for wd in 0..nwords {
        // a word
        let nb = rng.range(1, 3);
        for b in 0..nb {
            let lo = if neg && rng.chance(1, 4) { -2 } else { 1 };
            let w = rng.range(lo, 6) * u;
            let mut it = bx(w);
            it.as_object_mut().unwrap().insert("bk".into(), json!(*rng.pick(&box_kinds)));
            items.push(it);
            if b + 1 < nb {
                match rng.below(8) {
                    0 | 1 => {
                        // a discretionary between two boxes; it may replace the next box
                        let npre = rng.range(0, 2);
                        let npost = rng.range(0, 2);
                        let prel: Vec<i64> = (0..npre).map(|_| rng.range(0, 2) * u).collect();
                        let postl: Vec<i64> = (0..npost).map(|_| rng.range(0, 2) * u).collect();
                        let rep = if rng.chance(1, 3) { 1 } else { 0 };
                        items.push(dc(&prel, &postl, rep));
                        breaks += 1;
                    }
                    2 => {
                        let mut k = kf(rng.range(-1, 1) * u);
                        k.as_object_mut().unwrap().insert("kk".into(), json!(*rng.pick(&["normal", "accent", "math"])));
                        items.push(k);
                    }
                    3 if rng.chance(1, 3) => {
                        items.push(pn(*rng.pick(&pen_pool)));
                        breaks += 1;
                    }
                    _ => {}
                }
            }
        }
        if wd + 1 == nwords {
            break;
        }
        // a separator
        match rng.below(21) {
            20 => {
                // a discretionary whose replacement run ends in an explicit kern, then glue
                let prel: Vec<i64> = (0..rng.range(0, 2)).map(|_| rng.range(0, 2) * u).collect();
                let postl: Vec<i64> = (0..rng.range(0, 1)).map(|_| rng.range(0, 2) * u).collect();
                items.push(dc(&prel, &postl, 2));
                items.push(bx(rng.range(1, 4) * u));
                items.push(kx(rng.range(0, 2) * u));
                items.push(mk_glue(rng));
                breaks += 3;
            }
            0..=9 => {
                items.push(mk_glue(rng));
                breaks += 1;
            }
            10 | 11 => {
                items.push(pn(*rng.pick(&pen_pool)));
                items.push(mk_glue(rng));
                breaks += 1;
            }
            12 => {
                items.push(mk_glue(rng));
                items.push(pn(*rng.pick(&pen_pool)));
                items.push(mk_glue(rng));
                breaks += 2;
            }
            13 => {
                items.push(kx(rng.range(if neg { -1 } else { 0 }, 3) * u));
                items.push(mk_glue(rng));
                breaks += 1;
            }
            14 => {
                items.push(mk_glue(rng));
                items.push(mk_glue(rng));
                breaks += 1;
            }
            15 => {
                items.push(mk_glue(rng));
                items.push(kx(rng.range(0, 2) * u));
                items.push(mk_glue(rng));
                breaks += 2;
            }
            16 => {
                // a discretionary with nothing after the break, followed by glue
                let prel: Vec<i64> = (0..rng.range(0, 1)).map(|_| rng.range(0, 2) * u).collect();
                items.push(dc(&prel, &[], 0));
                items.push(mk_glue(rng));
                breaks += 2;
            }
            17 => {
                let mut k = kf(rng.range(0, 1) * u);
                k.as_object_mut().unwrap().insert("kk".into(), json!(*rng.pick(&["normal", "accent"])));
                items.push(k);
                items.push(mk_glue(rng));
                breaks += 1;
            }
            18 => {
                items.push(pn(-10000));
                if rng.chance(1, 2) {
                    items.push(mk_glue(rng));
                }
                breaks += 1;
            }
            _ => {
                items.push(pn(*rng.pick(&pen_pool)));
                breaks += 1;
            }
        }
        if breaks + 2 > max_breaks {
            break;
        }
    }
    // the end of the paragraph; with looseness the last line more often has finite glue, so that
    // several final nodes with the same number of lines (different fitness classes) compete
    let loose = *rng.pick(&[0i64, 0, 0, 0, 0, 0, 1, -1, 2, -2, 1, -1]);
    let tail_kind = if loose != 0 && rng.chance(1, 2) { 7 + rng.below(2) } else { rng.below(10) };
    match tail_kind {
        0..=6 => {
            items.push(pn(10000));
            items.push(gl(0, u.max(1), 1, 0)); // \parfillskip
        }
        7 => {}
        8 => {
            items.push(pn(10000));
            items.push(gl(0, rng.range(0, 6) * u, 0, 0)); // a finite \parfillskip
        }
        _ => {
            items.push(pn(*rng.pick(&pen_pool)));
            items.push(gl(0, u.max(1), 1, 0));
        }
    }
    // make discretionary replacement runs well formed
    for a in 0..items.len() {
        if items[a]["k"] == "disc" {
            let mut rep = i(&items[a], "rep") as usize;
            while rep > 0 && !(a + rep < items.len() && (a + 1..=a + rep).all(|j| replaceable(&items[j]))) {
                rep -= 1;
            }
            items[a].as_object_mut().unwrap().insert("rep".into(), json!(rep));
        }
    }
    // one instance in four has "fine" dimensions: every width, stretch and shrink is moved off the
    // multiples of the unit, so that stretch and shrink ratios are dense (badness values near the
    // fitness and tolerance thresholds occur)
    let fine = u >= 100 && rng.chance(1, 2) || u >= 7 && rng.chance(1, 8);
    if fine {
        let j = (u / 12).max(1);
        for it in items.iter_mut() {
            let m = it.as_object_mut().unwrap();
            for key in ["w", "st", "sh"] {
                if let Some(x) = m.get(key).and_then(|x| x.as_i64()) {
                    if x != 0 && !(key == "st" && m.get("sto").and_then(|o| o.as_i64()).unwrap_or(0) > 0) {
                        let y = x + rng.range(-j, j);
                        m.insert(key.into(), json!(if x > 0 { y.max(1) } else { y.min(-1) }));
                    }
                }
            }
        }
    }
    // natural width and line widths
    let nat: i64 = items.iter().map(|it| if it["k"] == "box" || it["k"] == "glue" || it["k"] == "kern" { i(it, "w") } else { 0 }).sum();
    let lines = rng.range(1, 5);
    let fj = if fine { rng.range(-u / 3, u / 3) } else { 0 };
    let base = (nat / lines).max(u) + rng.range(-2, 3) * u + fj;
    let nw = *rng.pick(&[1usize, 1, 1, 2, 2, 3, 3, 4, 4, 5]);
    let lw: Vec<i64> = (0..nw)
        .map(|k| if k == 0 { base.max(1) } else { (base + rng.range(-3, 3) * u + if fine { rng.range(-u / 3, u / 3) } else { 0 }).max(1) })
        .collect();
    let tol = *rng.pick(&[10000i64, 10000, 10000, 10000, 10000, 200, 200, 200, 1000, 100, 50, 9999, 10001, 20000, 0, -1, 13, 12, 99]);
    let es = if rng.chance(1, 6) { rng.range(1, 5) * u } else { 0 };
    let fin = rng.chance(1, 5);
    let lp = *rng.pick(&[10i64, 10, 10, 10, 0, 100, -10, 1, 5000, 12000, 200]);
    // the parameters are free integers: beyond +-10000 they mean "never" / "forced" like the limit itself (TeX 831)
    let hp = *rng.pick(&[50i64, 50, 50, 0, -50, 500, 10000, -10000, 9999, 1000, -10001, -20000, 10001, 30000, -9999]);
    let ehp = *rng.pick(&[50i64, 50, 0, -50, 500, 10000, -10000, 30, -10001, -15000, 10001, 25000, -9999]);
    let dhd = *rng.pick(&[10000i64, 10000, 0, -10000, 100000, 1000000, 5]);
    let fhd = *rng.pick(&[5000i64, 5000, 0, -5000, 100000, 1000000, 7]);
    let adj = *rng.pick(&[10000i64, 10000, 10000, 0, -10000, 5, 100000, 50, 1000, 1000000]);
    let skip = |rng: &mut Rng| {
        if rng.chance(3, 4) {
            zero_glue()
        } else {
            let sto = if rng.chance(1, 3) { 1 } else { 0 };
            json!({"w": rng.range(0, 2) * u, "st": rng.range(0, 4) * u, "sto": sto, "sh": rng.range(0, 1) * u, "sho": 0})
        }
    };
    let (ls, rs) = (skip(rng), skip(rng));
    let mut v = json!({"items": items, "lw": lw, "tol": tol, "es": es, "final": fin, "ls": ls, "rs": rs,
        "lp": lp, "hp": hp, "ehp": ehp, "dhd": dhd, "fhd": fhd, "adj": adj, "loose": loose});
    resolve(&mut v);
    v
}

fn random(args: &Args) -> i32 {
    quiet_panics();
    let seed: u64 = args.num("seed", 1);
    let n: u64 = args.num("n", 1000);
    let max_breaks: usize = args.num("breaks", 8);
    let mut rng = Rng::new(seed ^ 0xC04);
    let mut out = Out::new(args.str("out"));
    let mut st = Stats::default();
    let mut tries = 0u64;
    while st.n < n && tries < 20 * n {
        tries += 1;
        let inst = gen_instance(&mut rng, max_breaks);
        if !st.fresh(&inst) {
            continue;
        }
        let ev = run_instance(&inst);
        st.add(&ev);
        out.line(&ev);
    }
    out.flush();
    st.write(args, &format!("random seed={seed} breaks<={max_breaks}"));
    eprintln!("c04-rand: {} events, {} solved, {} non-trivial, {} panics", st.n, st.solved, st.nontrivial, st.panics);
    0
}

/// Re-run recorded events (`in=` ndjson of events or instance descriptions) on the real breaker.
fn replay(args: &Args) -> i32 {
    quiet_panics();
    let text = std::fs::read_to_string(args.req("in")).expect("read input");
    let mut out = Out::new(args.str("out"));
    for line in text.lines().filter(|l| !l.trim().is_empty()) {
        let v: Value = serde_json::from_str(line).expect("json");
        if v.get("fn").and_then(|x| x.as_str()) == Some("line") {
            out.line(&v);
            continue;
        }
        let mut inst = v.as_object().unwrap().clone();
        for k in ["res", "log", "sel", "panic", "fn"] {
            inst.remove(k);
        }
        let mut inst = Value::Object(inst);
        resolve(&mut inst);
        let ev = run_instance(&inst);
        eprintln!("replayed: res={} panic={}", ev.get("res").unwrap_or(&Value::Null), ev.get("panic").unwrap_or(&Value::Null));
        out.line(&ev);
    }
    out.flush();
    0
}

// ------------------------------------------------------------------------------------------
// golden paragraphs broken by real TeX
// ------------------------------------------------------------------------------------------

const GOLDEN_DIR: &str = concat!(env!("VH_REPO"), "/crates/boxworks-knuthplass/testdata");
const CMR10: &[u8] = include_bytes!(concat!(
    env!("VH_REPO"),
    "/crates/tfm/corpus/computer-modern/cmr10.tfm"
));

struct Golden {
    name: &'static str,
    input: &'static str,
    widths: &'static [&'static str],
    log: &'static str,
    set: fn(&mut kp::Params, &mut boxworks_text::Params),
}

fn pt(s: &str) -> Scaled {
    Scaled::parse_from_string(s).unwrap()
}

fn ragged(t: &mut boxworks_text::Params) {
    t.space_skip = common::Glue { width: pt("3.33298pt"), ..Default::default() };
    t.extra_space_skip = common::Glue { width: pt("5.0pt"), ..Default::default() };
}

/// The table of crates/boxworks-knuthplass/src/lib.rs `tests!` (every test that has a log file).
fn golden_table() -> Vec<Golden> {
    macro_rules! g {
        ($name:expr, $input:expr, $widths:expr, $log:expr, $set:expr) => {
            Golden { name: $name, input: $input, widths: $widths, log: $log, set: $set }
        };
    }
    vec![
        g!("wolf_hall_5in", "wolf_hall_input.txt", &["5in"], "wolf_hall_5in_log.txt", |_, _| {}),
        g!("wolf_hall_3in", "wolf_hall_input.txt", &["3in"], "wolf_hall_3in_log.txt", |_, _| {}),
        g!("wolf_hall_2in", "wolf_hall_input.txt", &["2in"], "wolf_hall_2in_log.txt", |_, _| {}),
        g!("wolf_hall_1in", "wolf_hall_input.txt", &["1in"], "wolf_hall_1in_log.txt", |_, _| {}),
        g!("wolf_hall_emergency_stretch", "wolf_hall_input.txt", &["1in"], "wolf_hall_emergency_stretch_log.txt",
           |p, _| p.emergency_stretch = pt("10.0pt")),
        g!("wolf_hall_emergency_stretch_2", "wolf_hall_input.txt", &["3in"], "wolf_hall_emergency_stretch_2_log.txt",
           |p, _| p.emergency_stretch = pt("10.0pt")),
        g!("wolf_hall_variable_widths", "wolf_hall_input.txt", &["5in", "4in", "3in", "4in"],
           "wolf_hall_variable_widths_log.txt", |_, _| {}),
        g!("farewell_to_arms_looseness_plus_1", "farewell_to_arms_input.txt", &["3in"],
           "farewell_to_arms_looseness_plus_1_log.txt", |p, _| p.looseness = 1),
        g!("farewell_to_arms_looseness_minus_1", "farewell_to_arms_input.txt", &["5in"],
           "farewell_to_arms_looseness_minus_1_log.txt", |p, _| p.looseness = -1),
        g!("wolf_hall_ragged_right", "wolf_hall_input.txt", &["5in"], "wolf_hall_ragged_right_log.txt", |p, t| {
            ragged(t);
            p.right_skip = common::Glue { stretch: pt("20.00003pt"), ..Default::default() };
        }),
        g!("wolf_hall_adj_demerits", "wolf_hall_input.txt", &["3in"], "wolf_hall_adj_demerits_log.txt",
           |p, _| p.adj_demerits = -10000),
        g!("wolf_hall_broken_penalty", "wolf_hall_input.txt", &["3in"], "wolf_hall_broken_penalty_log.txt",
           |p, _| p.broken_penalty = 500),
        g!("wolf_hall_club_penalty", "wolf_hall_input.txt", &["3in"], "wolf_hall_club_penalty_log.txt",
           |p, _| p.club_penalty = 1000),
        g!("wolf_hall_double_hyphen_demerits", "wolf_hall_input.txt", &["3in"],
           "wolf_hall_double_hyphen_demerits_log.txt", |p, _| p.double_hyphen_demerits = -100000),
        g!("wolf_hall_stone_eyed", "wolf_hall_stone_eyed_input.txt", &["3in"], "wolf_hall_stone_eyed_log.txt", |_, _| {}),
        g!("wolf_hall_ex_hyphen_penalty", "wolf_hall_stone_eyed_input.txt", &["3in"],
           "wolf_hall_ex_hyphen_penalty_log.txt", |p, _| p.ex_hyphen_penalty = -10000),
        g!("wolf_hall_final_hyphen_demerits", "wolf_hall_input.txt", &["3in"],
           "wolf_hall_final_hyphen_demerits_log.txt", |p, _| p.final_hyphen_demerits = 0),
        g!("wolf_hall_final_widow_penalty", "wolf_hall_input.txt", &["3in"], "wolf_hall_final_widow_penalty_log.txt",
           |p, _| p.final_widow_penalty = 1000),
        g!("wolf_hall_hyphen_penalty", "wolf_hall_input.txt", &["3in"], "wolf_hall_hyphen_penalty_log.txt",
           |p, _| p.hyphen_penalty = 10000),
        g!("wolf_hall_inter_line_penalty", "wolf_hall_input.txt", &["3in"], "wolf_hall_inter_line_penalty_log.txt",
           |p, _| p.inter_line_penalty = 100),
        g!("wolf_hall_left_skip", "wolf_hall_input.txt", &["3in"], "wolf_hall_left_skip_log.txt",
           |p, _| p.left_skip = common::Glue { width: pt("20.0pt"), ..Default::default() }),
        g!("wolf_hall_line_penalty", "wolf_hall_input.txt", &["3in"], "wolf_hall_line_penalty_log.txt",
           |p, _| p.line_penalty = 100),
        g!("wolf_hall_par_fill_skip", "wolf_hall_input.txt", &["3in"], "wolf_hall_par_fill_skip_log.txt",
           |p, _| p.par_fill_skip = common::Glue::ZERO),
        g!("wolf_hall_pre_tolerance", "wolf_hall_input.txt", &["3in"], "wolf_hall_pre_tolerance_log.txt",
           |p, _| p.pre_tolerance = 10000),
        g!("wolf_hall_right_skip", "wolf_hall_input.txt", &["3in"], "wolf_hall_right_skip_log.txt",
           |p, _| p.right_skip = common::Glue { stretch: pt("20.00003pt"), ..Default::default() }),
        g!("wolf_hall_tolerance", "wolf_hall_input.txt", &["3in"], "wolf_hall_tolerance_log.txt", |p, _| p.tolerance = 45),
        g!("alice_paragraph_1_10in", "alice_paragraph_1.txt", &["10in"], "alice_paragraph_1_log.txt", |_, _| {}),
        g!("alice_paragraph_2_10in", "alice_paragraph_2.txt", &["10in"], "alice_paragraph_2_log.txt", |_, _| {}),
    ]
}

/// What the breaker's logger reports, with the list each pass ran on.
#[derive(Default)]
struct GoldenRecorder {
    passes: Vec<(u8, Vec<ds::Horizontal>, Vec<Value>)>,
    elem: usize,
}

impl kp::debug::Logger for GoldenRecorder {
    fn log_attempt(&mut self, attempt: kp::debug::Attempt) {
        self.passes.push((attempt.number(), vec![], vec![]));
    }
    fn log_feasible_breakpoint(&mut self, list: &[ds::Horizontal], fb: kp::debug::FeasibleBreakpoint) {
        self.elem = fb.elem_index;
        let p = self.passes.last_mut().unwrap();
        if p.1.is_empty() {
            p.1 = list.to_vec();
        }
        p.2.push(json!({"t": "fb", "i": fb.elem_index, "b": fb.badness, "p": fb.penalty, "d": fb.demerits,
            "prev": fb.previous_node_index, "art": fb.artificial_demerits}));
    }
    fn log_new_active_node(&mut self, an: kp::debug::NewActiveNode) {
        let p = self.passes.last_mut().unwrap();
        p.2.push(json!({"t": "an", "i": self.elem, "n": an.node_index, "ln": an.line_number, "fc": an.fitness_class,
            "hy": an.hyphenated, "td": an.total_demerits, "prev": an.previous_node_index}));
    }
}

/// The items of a real list as the specification reads them.
fn describe(list: &[ds::Horizontal], fonts: &dyn Fn(char, u32) -> i32) -> Option<Vec<Value>> {
    let elem_w = |e: &ds::DiscretionaryElem| -> i64 {
        use ds::DiscretionaryElem::*;
        (match e {
            Char(c) => fonts(c.char, c.font),
            Ligature(l) => fonts(l.char, l.font),
            HBox(b) => b.width.0,
            VBox(b) => b.width.0,
            Rule(r) => r.width.0,
            Kern(k) => k.width.0,
        }) as i64
    };
    let mut v = vec![];
    for e in list {
        use ds::Horizontal::*;
        v.push(match e {
            Char(c) => bx(fonts(c.char, c.font) as i64),
            Ligature(l) => bx(fonts(l.char, l.font) as i64),
            HBox(b) => bx(b.width.0 as i64),
            VBox(b) => bx(b.width.0 as i64),
            Rule(r) => bx(r.width.0 as i64),
            Kern(k) => json!({"k": "kern", "w": k.width.0, "x": if k.kind == ds::KernKind::Explicit { 1 } else { 0 }}),
            Glue(g) => {
                let mut j = glue_json(&g.value);
                j.as_object_mut().unwrap().insert("k".into(), json!("glue"));
                j
            }
            Penalty(p) => pn(p.0 as i64),
            Discretionary(d) => json!({"k": "disc",
                "pre": d.pre_break.iter().map(elem_w).sum::<i64>(), "npre": d.pre_break.len(),
                "post": d.post_break.iter().map(elem_w).sum::<i64>(), "npost": d.post_break.len(),
                "rep": d.replace_count}),
            _ => return None,
        });
    }
    Some(v)
}

/// One line of TeX's trace.
enum TexLine {
    Pass(u8),
    Via { prev: i64, b: i64, p: i64, d: i64 },
    Node { n: i64, ln: i64, fit: i64, hy: bool, t: i64, prev: i64 },
}

fn parse_tex_log(text: &str) -> Vec<TexLine> {
    let mut v = vec![];
    let star = |s: &str| if s == "*" { -1 } else { s.parse::<i64>().unwrap() };
    for line in text.lines().map(|l| l.trim()) {
        if line.starts_with("@firstpass") {
            v.push(TexLine::Pass(1));
        } else if line.starts_with("@secondpass") {
            v.push(TexLine::Pass(2));
        } else if line.starts_with("@emergencypass") {
            v.push(TexLine::Pass(3));
        } else if line.starts_with("@@") {
            // @@7: line 3.2- t=1665 -> @@4
            let rest = &line[2..];
            let (n, rest) = rest.split_once(": line ").unwrap();
            let (lf, rest) = rest.split_once(" t=").unwrap();
            let (t, prev) = rest.split_once(" -> @@").unwrap();
            let hy = lf.ends_with('-');
            let lf = lf.trim_end_matches('-');
            let (ln, fit) = lf.split_once('.').unwrap();
            v.push(TexLine::Node { n: n.parse().unwrap(), ln: ln.parse().unwrap(), fit: fit.parse().unwrap(), hy,
                t: t.parse().unwrap(), prev: prev.parse().unwrap() });
        } else if line.starts_with('@') && line.contains(" via @@") {
            // @ via @@0 b=28 p=0 d=1444      @\discretionary via @@1 b=* p=50 d=*     @\par via ..
            let (_, rest) = line.split_once(" via @@").unwrap();
            let mut it = rest.split(' ');
            let prev = it.next().unwrap().parse().unwrap();
            let b = star(it.next().unwrap().strip_prefix("b=").unwrap());
            let p = it.next().unwrap().strip_prefix("p=").unwrap().parse().unwrap();
            let d = star(it.next().unwrap().strip_prefix("d=").unwrap());
            v.push(TexLine::Via { prev, b, p, d });
        }
    }
    v
}

fn goldens(args: &Args) -> i32 {
    quiet_panics();
    let mut out = Out::new(args.str("out"));
    let dir = args.str("dir").unwrap_or(GOLDEN_DIR);
    let only = args.str("only");
    let stride: usize = args.num("stride", 1);
    let (mut files, mut misaligned, mut lines, mut emitted) = (0u64, vec![], 0u64, 0u64);
    for g in golden_table() {
        if let Some(o) = only {
            if !g.name.contains(o) {
                continue;
            }
        }
        let (Ok(input), Ok(texlog)) = (std::fs::read_to_string(format!("{dir}/{}", g.input)), std::fs::read_to_string(format!("{dir}/{}", g.log))) else {
            misaligned.push(format!("{}: golden files missing", g.name));
            continue;
        };
        files += 1;
        let mut params = kp::Params::plain_tex_defaults();
        let mut tparams = boxworks_text::Params::plain_tex_defaults();
        (g.set)(&mut params, &mut tparams);
        // the list, as the repository's own tests build it
        let mut tfm_file = tfm::File::deserialize(CMR10).0.expect("cmr10.tfm deserializes");
        let program = tfm::ligkern::CompiledProgram::compile_from_tfm_file(&mut tfm_file).0;
        let mut tp = boxworks_text::TextPreprocessorImpl::new(tparams);
        tp.register_font(0, &tfm_file, program.clone());
        tp.activate_font(0);
        let mut list = vec![];
        {
            use boxworks::TextPreprocessor;
            for word in input.split_ascii_whitespace() {
                tp.add_word(word.trim_matches(' '), &mut list);
                tp.add_space(&mut list);
            }
        }
        let mut repo: boxworks_text::TfmFontRepo = Default::default();
        repo.register_font(0, tfm_file);
        let widths: Vec<Scaled> = g.widths.iter().map(|w| pt(w)).collect();
        let hyphenator = boxworks_hyphenate::Hyphenator::plain_tex_en_us(program);
        let mut rec = GoldenRecorder::default();
        let r = {
            let lb = kp::LineBreaker {
                params: &params,
                line_widths: &widths,
                line_indents: &[],
                debug_logger: Some(&mut rec),
                hyphenator: &hyphenator,
            };
            let mut vlist = vec![];
            use boxworks::LineBreaker;
            catch(|| lb.break_line(&repo, &mut vlist, &mut list))
        };
        if let Err((f, m)) = r {
            misaligned.push(format!("{}: break_line panicked at {f}: {m}", g.name));
            continue;
        }
        // align the logger's report with TeX's trace: same passes, same sequence of via / node lines
        let tex = parse_tex_log(&texlog);
        let mut ours: Vec<(u8, usize, Option<&Value>)> = vec![]; // (pass, pass index, record)
        for (pi, (num, _, recs)) in rec.passes.iter().enumerate() {
            ours.push((*num, pi, None));
            for r in recs {
                ours.push((*num, pi, Some(r)));
            }
        }
        let aligned = ours.len() == tex.len()
            && ours.iter().zip(tex.iter()).all(|(o, t)| match (o.2, t) {
                (None, TexLine::Pass(n)) => o.0 == *n,
                (Some(r), TexLine::Via { prev, p, .. }) => r["t"] == "fb" && r["prev"] == *prev && r["p"] == *p,
                (Some(r), TexLine::Node { n, prev, .. }) => r["t"] == "an" && r["n"] == *n && r["prev"] == *prev,
                _ => false,
            });
        if !aligned {
            misaligned.push(format!("{}: the breaker's log has {} lines, TeX's has {}", g.name, ours.len(), tex.len()));
            continue;
        }
        let fw = |c: char, f: u32| repo.width(c, f).map(|s| s.0).unwrap_or(0);
        // nodes of the current pass: n -> (elem, ln, fit, total) from TeX's own lines
        let mut nodes: HashMap<i64, (i64, i64, i64, i64)> = HashMap::new();
        let mut k = 0usize;
        while k < ours.len() {
            let (num, pi, r) = ours[k];
            let Some(r) = r else {
                nodes.clear();
                nodes.insert(0, (-1, 0, 2, 0));
                k += 1;
                continue;
            };
            if let TexLine::Node { n, ln, fit, t, .. } = &tex[k] {
                nodes.insert(*n, (r["i"].as_i64().unwrap(), *ln, *fit, *t));
                k += 1;
                continue;
            }
            let TexLine::Via { prev, b, p, d } = &tex[k] else { unreachable!() };
            lines += 1;
            // the node line (if any) that this via line produced: the next node lines of this break
            // whose predecessor is `prev`
            let (mut fit, mut t) = (-1i64, -1i64);
            let mut j = k + 1;
            while j < tex.len() {
                match &tex[j] {
                    TexLine::Via { .. } if ours[j].2.map(|x| x["i"] == r["i"]).unwrap_or(false) => {}
                    TexLine::Node { prev: np, fit: nf, t: nt, .. } if ours[j].2.map(|x| x["i"] == r["i"]).unwrap_or(false) => {
                        if np == prev && fit < 0 {
                            fit = *nf;
                            t = *nt;
                        }
                    }
                    _ => break,
                }
                j += 1;
            }
            let (a_elem, a_ln, a_fit, a_total) = nodes[prev];
            let full = &rec.passes[pi].1;
            let b_elem = r["i"].as_u64().unwrap() as usize;
            let last = b_elem >= full.len();
            let from = if a_elem < 0 { 0 } else { a_elem as usize };
            let to = if last { full.len() } else { b_elem + 1 };
            if lines as usize % stride == 0 {
                if let Some(items) = describe(&full[from..to], &fw) {
                    let line_no = a_ln as usize; // 0-based index of this line
                    let lw = widths.get(line_no).copied().unwrap_or(*widths.last().unwrap());
                    let es = if num == 3 { params.emergency_stretch.0 } else { 0 };
                    out.line(&json!({"fn": "line", "file": g.name, "pass": num, "items": items, "start": a_elem < 0,
                        "last": last, "lw": lw.0, "pf": a_fit, "es": es,
                        "ls": glue_json(&params.left_skip), "rs": glue_json(&params.right_skip),
                        "lp": params.line_penalty, "hp": params.hyphen_penalty, "ehp": params.ex_hyphen_penalty,
                        "dhd": params.double_hyphen_demerits, "fhd": params.final_hyphen_demerits,
                        "adj": params.adj_demerits,
                        "tex": {"b": b, "p": p, "d": d, "fit": fit, "t": t, "pt": a_total}}));
                    emitted += 1;
                }
            }
            k += 1;
        }
    }
    out.flush();
    if let Some(p) = args.str("stats") {
        std::fs::write(p, json!({"golden_files": files, "misaligned": misaligned, "tex_lines": lines, "emitted": emitted}).to_string())
            .expect("write stats");
    }
    eprintln!("c04-goldens: {files} files, {lines} feasible breaks in TeX's logs, {emitted} events, misaligned: {misaligned:?}");
    0
}
