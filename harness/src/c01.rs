//! C01 -- group scoping on the real VM.
//!
//! Binding R: every edge of the TexGroups transition table (dumped by TLC) becomes a TeX program:
//! shortest path to the source state, the edge's operation, then a probe suffix (read every
//! quantity, close a group, read again, ...).  Expected read values are looked up in the table.
//! Binding T: long random programs at depth up to 8+ with reads after every operation, recorded as
//! a trace for TLC (Trace_TexGroups.tla).
//!
//! The abstract keys of the spec are bound to concrete *kinds* of TeX quantities here.  A kind only
//! knows how to spell "assign abstract value x" and "read", and which text a read of abstract value
//! x produces -- it is a rendering table, not semantics.
use crate::lts::Lts;
use crate::util::{quiet_panics, Args, Out, Rng};
use crate::vmh;
use serde_json::{json, Value};

pub fn dispatch(cmd: &str, args: &Args) -> Option<i32> {
    Some(match cmd {
        "c01-edges" => edges(args),
        "c01-trace" => trace(args),
        _ => return None,
    })
}

#[derive(Clone, Copy, PartialEq, Eq, Debug)]
pub enum K {
    Count,
    CountAdvance,
    Dimen,
    Skip,
    Toks,
    MacroCs,      // \def on a control sequence, initially undefined (map key)
    MacroActive,  // \def on an active character, initially undefined (map key)
    LetChar,      // \let\v=<char>, initially undefined (map key)
    LetCmd,       // \let\v=\macro, initially undefined (map key)
    MacroPre,     // \def on a control sequence that the setup defined
    MacroActivePre,
    LetCmdPre,
    CountDef,
    ToksDef,
    CountViaAlias, // the register is assigned through a \countdef alias and read by number
    ToksViaAlias,
    NewInt,        // a variable allocated with \newInt
    NewIntArrayElem,
    CharDef,
    MathCharDef,
    CatCode,
    MathCode,
    EndLineChar,
    Font,
    GlobalDefs,
}

pub const MAP_KINDS: &[K] = &[K::MacroCs, K::MacroActive, K::LetChar, K::LetCmd];
pub const VAR_KINDS: &[K] = &[
    K::Count, K::CountAdvance, K::Dimen, K::Skip, K::Toks, K::MacroPre, K::MacroActivePre, K::LetCmdPre,
    K::CountDef, K::ToksDef, K::CharDef, K::CatCode, K::MathCode, K::EndLineChar, K::Font,
    K::CountViaAlias, K::ToksViaAlias, K::NewInt, K::NewIntArrayElem, K::MathCharDef,
];

/// A kind instantiated for a slot (1 or 2...) so that two keys of the same kind use different targets.
#[derive(Clone, Copy, Debug)]
pub struct Bind {
    pub kind: K,
    pub slot: usize,
}

const CS: [&str; 7] = ["", "va", "vb", "vc", "vd", "ve", "vf"];
const ACT: [char; 7] = [' ', '~', '!', '?', '+', '<', '>'];
// the second character's code is the first one's plus 65536: tables indexed by character code must keep them apart
const CC: [char; 7] = [' ', 'Q', '\u{10051}', 'S', 'T', 'U', 'V'];

fn def_prefixes(global: bool, pick: usize) -> &'static str {
    if global {
        ["\\global", "\\long\\global", "\\global\\long", "\\outer\\global", "\\long\\outer\\global", "\\global", "\\outer\\long\\global\\long"][pick % 7]
    } else {
        ["", "", "\\long", "", "\\outer", "", "\\long\\outer"][pick % 7]
    }
}

impl Bind {
    pub fn is_map(&self) -> bool {
        MAP_KINDS.contains(&self.kind)
    }
    /// Does TeX accept `\global` in front of this assignment?  (Every kind here: TeX.2021.1210-1224.)
    pub fn global_ok(&self) -> bool {
        true
    }
    /// Depth-0 setup run before the program proper.
    pub fn setup(&self) -> String {
        let s = self.slot;
        match self.kind {
            K::MacroActive => format!("\\catcode`\\{}=13 ", ACT[s]),
            K::MacroActivePre => format!("\\catcode`\\{}=13 \\def{}{{m0}}", ACT[s], ACT[s]),
            K::MacroPre => format!("\\def\\{}{{m0}}", CS[s]),
            K::LetCmd => "\\def\\one{o1}\\def\\two{o2}".to_string(),
            K::LetCmdPre => format!("\\def\\zero{{o0}}\\def\\one{{o1}}\\def\\two{{o2}}\\let\\{}=\\zero ", CS[s]),
            K::CountDef => format!("\\count1{s}0=1{s}0 \\count1{s}1=1{s}1 \\count1{s}2=1{s}2 \\countdef\\{}=1{s}0 ", CS[s]),
            K::ToksDef => format!("\\toks1{s}0={{T0}}\\toks1{s}1={{T1}}\\toks1{s}2={{T2}}\\toksdef\\{}=1{s}0 ", CS[s]),
            K::CharDef => format!("\\chardef\\{}=60 ", CS[s]),
            K::MathCharDef => format!("\\mathchardef\\{}=70 ", CS[s]),
            K::CountViaAlias => format!("\\countdef\\{}=2{s}0 ", CS[s]),
            K::ToksViaAlias => format!("\\toksdef\\{}=2{s}0 ", CS[s]),
            K::NewInt => format!("\\newInt\\{} ", CS[s]),
            K::NewIntArrayElem => format!("\\newIntArray\\{} 5 ", CS[s]),
            K::Font => "\\font\\fa=fa \\font\\fb=fb ".to_string(),
            K::MathCode => format!("\\mathcode`\\{}=4 ", CC[s]),
            // assigned at depth 0 like the math code, so the table does not depend on the character's default
            K::CatCode => format!("\\catcode`\\{}=11 ", CC[s]),
            _ => String::new(),
        }
    }
    /// Spell "assign abstract value x" (cur = current abstract value, for relative assignments).
    /// `form`: "no" prefix, "global" = \global<assignment>, "gdef" = \gdef (macro kinds only).
    pub fn assign(&self, x: usize, cur: usize, form: &str) -> Option<String> {
        if form == "gdef" {
            return match self.kind {
                K::MacroCs | K::MacroPre => Some(format!("\\gdef\\{}{{m{x}}}", CS[self.slot])),
                K::MacroActive | K::MacroActivePre => Some(format!("\\gdef{}{{m{x}}}", ACT[self.slot])),
                _ => None,
            };
        }
        if form == "global" && !self.global_ok() {
            return None;
        }
        Some(self.assign_prefixed(x, cur, form == "global"))
    }
    fn assign_prefixed(&self, x: usize, cur: usize, global: bool) -> String {
        let s = self.slot;
        let g = if global { "\\global" } else { "" };
        match self.kind {
            K::Count => format!("{g}\\count{s}={} ", [0, 11, 22][x]),
            K::CountAdvance => format!("{g}\\advance\\count{s} by {} ", [0i32, 11, 22][x] - [0i32, 11, 22][cur]),
            K::Dimen => format!("{g}\\dimen{s}={}pt ", x),
            K::Skip => {
                if x == 0 {
                    format!("{g}\\skip{s}=0pt ")
                } else {
                    format!("{g}\\skip{s}={x}pt plus {x}pt ")
                }
            }
            K::Toks => {
                if x == 0 {
                    format!("{g}\\toks{s}={{}}")
                } else {
                    format!("{g}\\toks{s}={{t{x}}}")
                }
            }
            // \long and \outer may stand with \global in any order (TeX.2021.1211); they change nothing here
            K::MacroCs | K::MacroPre => format!("{}\\def\\{}{{m{x}}}", def_prefixes(global, x + cur + s), CS[s]),
            K::MacroActive | K::MacroActivePre => format!("{}\\def{}{{m{x}}}", def_prefixes(global, x + 2 * cur + s), ACT[s]),
            K::LetChar => format!("{g}\\let\\{}={} ", CS[s], ['?', 'a', 'b'][x]),
            K::LetCmd | K::LetCmdPre => format!("{g}\\let\\{}=\\{} ", CS[s], ["zero", "one", "two"][x]),
            K::CountViaAlias | K::NewInt => format!("{g}\\{}={} ", CS[s], [0, 11, 22][x]),
            K::NewIntArrayElem => format!("{g}\\{} 3={} ", CS[s], [0, 11, 22][x]),
            K::ToksViaAlias => {
                if x == 0 {
                    format!("{g}\\{}={{}}", CS[s])
                } else {
                    format!("{g}\\{}={{t{x}}}", CS[s])
                }
            }
            K::CountDef => format!("{g}\\countdef\\{}=1{s}{x} ", CS[s]),
            K::ToksDef => format!("{g}\\toksdef\\{}=1{s}{x} ", CS[s]),
            K::CharDef => format!("{g}\\chardef\\{}=6{x} ", CS[s]),
            K::MathCharDef => format!("{g}\\mathchardef\\{}=7{x} ", CS[s]),
            K::CatCode => format!("{g}\\catcode`\\{}={} ", CC[s], [11, 12, 7][x]),
            K::MathCode => format!("{g}\\mathcode`\\{}={} ", CC[s], [self.mathcode0(), 5, 6][x]),
            K::EndLineChar => format!("{g}\\endlinechar={} ", [13, 42, 43][x]),
            K::Font => format!("{g}\\{} ", ["nullfont", "fa", "fb"][x]),
            K::GlobalDefs => format!("{g}\\globaldefs={} ", [0, 1, -1][x]),
        }
    }
    fn mathcode0(&self) -> u32 {
        4 // assigned by the setup at depth 0, so the table does not depend on a default
    }
    pub fn read(&self) -> String {
        let s = self.slot;
        match self.kind {
            K::Count | K::CountAdvance => format!("\\the\\count{s}"),
            K::Dimen => format!("\\the\\dimen{s}"),
            K::Skip => format!("\\the\\skip{s}"),
            K::Toks => format!("\\the\\toks{s}"),
            K::MacroCs | K::MacroPre | K::LetChar | K::LetCmd | K::LetCmdPre => format!("\\{} ", CS[s]),
            K::MacroActive | K::MacroActivePre => format!("{}", ACT[s]),
            K::CountDef | K::ToksDef | K::CharDef | K::MathCharDef | K::NewInt => format!("\\the\\{} ", CS[s]),
            K::CountViaAlias => format!("\\the\\count2{s}0 "),
            K::ToksViaAlias => format!("\\the\\toks2{s}0 "),
            K::NewIntArrayElem => format!("\\the\\{} 3 ", CS[s]),
            K::CatCode => format!("\\the\\catcode`\\{} ", CC[s]),
            K::MathCode => format!("\\the\\mathcode`\\{} ", CC[s]),
            K::EndLineChar => "\\the\\endlinechar ".to_string(),
            K::Font => "\\fontname\\font ".to_string(),
            K::GlobalDefs => "\\the\\globaldefs ".to_string(),
        }
    }
    /// The text a read produces when the quantity holds abstract value x.
    pub fn render(&self, x: usize) -> String {
        let s = self.slot;
        match self.kind {
            K::Count | K::CountAdvance | K::CountViaAlias | K::NewInt | K::NewIntArrayElem => ["0", "11", "22"][x].to_string(),
            K::ToksViaAlias => {
                if x == 0 {
                    String::new()
                } else {
                    format!("t{x}")
                }
            }
            K::Dimen => format!("{x}.0pt"),
            K::Skip => {
                if x == 0 {
                    "0.0pt".to_string()
                } else {
                    format!("{x}.0pt plus {x}.0pt")
                }
            }
            K::Toks => {
                if x == 0 {
                    String::new()
                } else {
                    format!("t{x}")
                }
            }
            K::MacroCs => {
                if x == 0 {
                    format!("<UNDEF:{}>", CS[s])
                } else {
                    format!("m{x}")
                }
            }
            K::MacroActive => {
                if x == 0 {
                    format!("<UNDEF:~{}>", ACT[s])
                } else {
                    format!("m{x}")
                }
            }
            K::MacroPre | K::MacroActivePre => format!("m{x}"),
            K::LetChar => {
                if x == 0 {
                    format!("<UNDEF:{}>", CS[s])
                } else {
                    ["", "a", "b"][x].to_string()
                }
            }
            K::LetCmd => {
                if x == 0 {
                    format!("<UNDEF:{}>", CS[s])
                } else {
                    format!("o{x}")
                }
            }
            K::LetCmdPre => format!("o{x}"),
            K::CountDef => format!("1{s}{x}"),
            K::ToksDef => format!("T{x}"),
            K::CharDef => format!("6{x}"),
            K::MathCharDef => format!("7{x}"),
            K::CatCode => ["11", "12", "7"][x].to_string(),
            K::MathCode => [self.mathcode0(), 5, 6][x].to_string(),
            K::EndLineChar => ["13", "42", "43"][x].to_string(),
            K::Font => ["nullfont", "fa", "fb"][x].to_string(),
            K::GlobalDefs => ["0", "1", "-1"][x].to_string(),
        }
    }
    pub fn unrender(&self, text: &str) -> i64 {
        for x in 0..3 {
            if self.render(x) == text {
                return x as i64;
            }
        }
        -1
    }
}

/// Split "a[b][c]d" into the bracketed pieces.
pub fn brackets(s: &str) -> Vec<String> {
    let mut out = vec![];
    let mut cur: Option<String> = None;
    for c in s.chars() {
        match (c, &mut cur) {
            ('[', None) => cur = Some(String::new()),
            (']', Some(_)) => out.push(cur.take().unwrap()),
            (_, Some(b)) => b.push(c),
            _ => {}
        }
    }
    out
}

pub fn reads(binds: &[Bind]) -> String {
    let mut s = String::new();
    for b in binds {
        s.push('[');
        s.push_str(&b.read());
        s.push(']');
    }
    s
}

pub struct Program {
    pub src: String,
    /// the same text cut at operation boundaries (setup | op | op | ... | probe pieces)
    pub parts: Vec<String>,
    pub expect: Vec<String>,
}

/// Build the program for a path of op indices through the LTS from its initial state.
pub fn build_program(lts: &Lts, binds: &[Bind], path_ops: &[usize]) -> Option<Program> {
    let mut parts: Vec<String> = vec![];
    let mut src = String::new();
    let mut done: Vec<String> = vec![];
    for b in binds {
        let s = b.setup();
        if !done.contains(&s) {
            src.push_str(&s);
            done.push(s);
        }
    }
    let mut st = lts.init;
    for oi in path_ops {
        parts.push(std::mem::take(&mut src));
        let o = &lts.ops[*oi];
        let (t, _) = lts.edges[st][*oi].as_ref()?;
        match o["k"].as_str().unwrap() {
            "begin" => src.push('{'),
            "end" => src.push('}'),
            "assign" => {
                let key = o["key"].as_u64().unwrap() as usize;
                let x = o["v"].as_u64().unwrap() as usize;
                let g = o["g"].as_str().unwrap();
                let b = &binds[key - 1];
                let cur = lts.states[st]["val"][key - 1].as_u64().unwrap() as usize;
                src.push_str(&b.assign(x, cur, g)?);
            }
            _ => return None,
        }
        st = *t as usize;
    }
    // probe suffix
    parts.push(std::mem::take(&mut src));
    let mut expect = vec![];
    let state = &lts.states[st];
    src.push_str(&reads(binds));
    for (i, b) in binds.iter().enumerate() {
        expect.push(b.render(state["val"][i].as_u64().unwrap() as usize));
    }
    let snaps = state["snaps"].as_array().unwrap();
    for snap in snaps.iter().rev() {
        parts.push(std::mem::take(&mut src));
        src.push('}');
        src.push_str(&reads(binds));
        for (i, b) in binds.iter().enumerate() {
            expect.push(b.render(snap[i].as_u64().unwrap() as usize));
        }
    }
    parts.push(src);
    Some(Program { src: parts.concat(), parts, expect })
}

/// Run a program given as segments with a checkpoint (serialise + deserialise in the given format)
/// between consecutive segments.  Each segment but the last ends with a newline: the checkpoint is
/// taken when the pending input is exhausted.
pub fn run_segments(segs: &[String], fmts: &[vmh::Format]) -> (Vec<String>, String) {
    let mut vm = vmh::new_vm(&[], &[]);
    let mut text = String::new();
    for (i, seg) in segs.iter().enumerate() {
        if i > 0 {
            let fmt = fmts[(i - 1) % fmts.len()];
            let r = crate::util::catch(|| vmh::checkpoint(&vm, fmt, &[], &[]));
            match r {
                Ok(Ok(v)) => vm = v,
                Ok(Err(e)) => return (brackets(&text), format!("checkpoint failed ({fmt:?}): {e}")),
                Err((site, msg)) => return (brackets(&text), format!("checkpoint panicked ({fmt:?}) at {site}: {msg}")),
            }
        }
        let r = vmh::run_src::<vmh::H>(&mut vm, "main.tex", seg, 200_000);
        text.push_str(&vmh::render(&r.toks));
        match r.outcome {
            vmh::Outcome::Ok => {}
            vmh::Outcome::Err { title, .. } => return (brackets(&text), format!("error: {title}")),
            vmh::Outcome::Panic { site, msg } => return (brackets(&text), format!("panic at {site}: {msg}")),
            vmh::Outcome::Budget => return (brackets(&text), "budget".to_string()),
        }
    }
    (brackets(&text), "ok".to_string())
}

pub fn run_program(src: &str) -> (Vec<String>, String) {
    let mut vm = vmh::new_vm(&[], &[]);
    let r = vmh::run_src::<vmh::H>(&mut vm, "main.tex", src, 200_000);
    let text = vmh::render(&r.toks);
    let outcome = match r.outcome {
        vmh::Outcome::Ok => "ok".to_string(),
        vmh::Outcome::Err { title, .. } => format!("error: {title}"),
        vmh::Outcome::Panic { site, msg } => format!("panic at {site}: {msg}"),
        vmh::Outcome::Budget => "budget".to_string(),
    };
    (brackets(&text), outcome)
}

pub fn binding_list(all: bool) -> Vec<(K, K)> {
    let mut v = vec![];
    for a in MAP_KINDS {
        for b in VAR_KINDS {
            v.push((*a, *b));
        }
    }
    // two entries of one table whose character codes differ by 65536 (CC[1], CC[2]): keys of the save stack must
    // tell them apart
    v.push((K::CatCode, K::CatCode));
    v.push((K::MathCode, K::MathCode));
    let _ = all;
    v
}

pub fn edges(args: &Args) -> i32 {
    quiet_panics();
    let lts = Lts::load(args.req("lts"));
    // table of the same spec with the recorded deviations enabled (same op labels): used only to
    // classify a mismatch as "explained by a known finding" -- never to accept silently.
    let dev: Option<Lts> = args.str("devlts").map(Lts::load);
    let seed: u64 = args.num("seed", 1);
    let per_edge: usize = args.num("per_edge", 3);
    // BFS tree: shortest op path to every state
    let n = lts.states.len();
    let mut parent: Vec<Option<(usize, usize)>> = vec![None; n];
    let mut seen = vec![false; n];
    let mut order = vec![lts.init];
    seen[lts.init] = true;
    let mut qi = 0;
    while qi < order.len() {
        let s = order[qi];
        qi += 1;
        for oi in 0..lts.ops.len() {
            if let Some((t, _)) = &lts.edges[s][oi] {
                let t = *t as usize;
                if !seen[t] {
                    seen[t] = true;
                    parent[t] = Some((s, oi));
                    order.push(t);
                }
            }
        }
    }
    let path_to = |s: usize| -> Vec<usize> {
        let mut p = vec![];
        let mut cur = s;
        while let Some((ps, oi)) = parent[cur] {
            p.push(oi);
            cur = ps;
        }
        p.reverse();
        p
    };
    // list of edges (excluding checkpoint and failing end which are not C01 operations)
    let mut edge_list: Vec<(usize, usize)> = vec![];
    for s in 0..n {
        for oi in 0..lts.ops.len() {
            if let Some((_, res)) = &lts.edges[s][oi] {
                let k = lts.ops[oi]["k"].as_str().unwrap();
                if k == "checkpoint" || (k == "end" && res == &json!(false)) {
                    continue;
                }
                edge_list.push((s, oi));
            }
        }
    }
    let bindings = binding_list(true);
    let nb = bindings.len();
    let per_edge = if per_edge == 0 { nb } else { per_edge.min(nb) };
    let nthreads = std::thread::available_parallelism().map(|n| n.get()).unwrap_or(4);
    let next = std::sync::atomic::AtomicUsize::new(0);
    struct Acc {
        programs: u64,
        skipped: u64,
        violations: Vec<Value>,
        samples: Vec<Value>,
        kinds_used: std::collections::BTreeMap<String, u64>,
    }
    let acc = std::sync::Mutex::new(Acc { programs: 0, skipped: 0, violations: vec![], samples: vec![], kinds_used: Default::default() });
    std::thread::scope(|sc| {
        for _ in 0..nthreads {
            sc.spawn(|| {
                let mut programs = 0u64;
                let mut skipped = 0u64;
                let mut viol: Vec<Value> = vec![];
                let mut samples: Vec<Value> = vec![];
                let mut kinds_used: std::collections::BTreeMap<String, u64> = Default::default();
                loop {
                    let i = next.fetch_add(1, std::sync::atomic::Ordering::SeqCst);
                    if i >= edge_list.len() {
                        break;
                    }
                    let (s, oi) = edge_list[i];
                    let mut ops = path_to(s);
                    ops.push(oi);
                    for j in 0..per_edge {
                        let bi = (i.wrapping_mul(7919) + j * (nb / per_edge).max(1) + seed as usize) % nb;
                        let (ka, kb) = bindings[bi];
                        let binds = [Bind { kind: ka, slot: 1 }, Bind { kind: kb, slot: 2 }, Bind { kind: K::GlobalDefs, slot: 3 }];
                        let prog = match build_program(&lts, &binds, &ops) {
                            Some(p) => p,
                            None => {
                                skipped += 1;
                                continue;
                            }
                        };
                        programs += 1;
                        *kinds_used.entry(format!("{ka:?}+{kb:?}")).or_insert(0) += 1;
                        let (got, outcome) = run_program(&prog.src);
                        if got != prog.expect || outcome != "ok" {
                            // would the deviant table have predicted this output?
                            let mut explained = false;
                            if let (Some(d), true) = (&dev, outcome == "ok") {
                                let dops: Option<Vec<usize>> = ops.iter().map(|oi| {
                                    let mut o = lts.ops[*oi].clone();
                                    o.as_object_mut().unwrap().remove("res");
                                    d.op_index.get(&serde_json::to_string(&o).unwrap()).copied()
                                }).collect();
                                if let Some(dops) = dops {
                                    if let Some(dp) = build_program(d, &binds, &dops) {
                                        explained = dp.src == prog.src && dp.expect == got;
                                    }
                                }
                            }
                            if viol.len() < 400 {
                                viol.push(json!({"kind":"violation","part":"edges","program":prog.src,
                                    "explained_by_deviations": explained,
                                    "expected":prog.expect,"got":got,"outcome":outcome,
                                    "kinds":[format!("{ka:?}"),format!("{kb:?}"),"GlobalDefs"],"path_len":ops.len()}));
                            }
                        } else if samples.len() < 2 && ops.len() >= 5 {
                            samples.push(json!({"program":prog.src,"reads":got}));
                        }
                    }
                }
                let mut a = acc.lock().unwrap();
                a.programs += programs;
                a.skipped += skipped;
                a.violations.extend(viol);
                if a.samples.len() < 4 {
                    a.samples.extend(samples);
                }
                for (k, v) in kinds_used {
                    *a.kinds_used.entry(k).or_insert(0) += v;
                }
            });
        }
    });
    let a = acc.into_inner().unwrap();
    let mut out = Out::new(args.str("out"));
    let mut v = a.violations;
    v.sort_by_key(|x| x["path_len"].as_u64().unwrap_or(0));
    for x in v.iter().take(args.num("maxviol", 40)) {
        out.line(x);
    }
    out.line(&json!({"kind":"summary","part":"edges","edges":edge_list.len(),"programs":a.programs,
        "skipped_unexpressible":a.skipped,"bindings":nb,"per_edge":per_edge,"lts_states":n,
        "samples":a.samples,"kind_pairs_used":a.kinds_used.len()}));
    0
}

// ------------------------------------------------------------------------------------------
// binding T: deep random programs, reads after every operation
// ------------------------------------------------------------------------------------------

pub fn trace(args: &Args) -> i32 {
    quiet_panics();
    let seed: u64 = args.num("seed", 1);
    let n: usize = args.num("n", 50);
    let len: usize = args.num("len", 60);
    let with_checkpoints = args.str("checkpoints").is_some();
    let fmts = [vmh::Format::Json, vmh::Format::MessagePack, vmh::Format::Bincode];
    let mut out = Out::new(args.str("out"));
    let mut rng = Rng::new(seed);
    for t in 0..n {
        let mut segs: Vec<String> = vec![];
        let mut seg_fmts: Vec<vmh::Format> = vec![];
        // keys 1,2 map kinds; 3,4,5 var kinds; 6 = \globaldefs
        let mut binds: Vec<Bind> = vec![];
        let mut used: Vec<K> = vec![];
        let mut pick = |pool: &[K], rng: &mut Rng, used: &mut Vec<K>| loop {
            let k = *rng.pick(pool);
            // singletons must not be bound twice; macro kinds on the same cs name neither
            let clash = used.contains(&k)
                || (matches!(k, K::Count | K::CountAdvance) && used.iter().any(|u| matches!(u, K::Count | K::CountAdvance)));
            if !clash {
                used.push(k);
                return k;
            }
        };
        for slot in 1..=2 {
            let k = pick(MAP_KINDS, &mut rng, &mut used);
            binds.push(Bind { kind: k, slot });
        }
        // LetCmd and LetCmdPre share \one/\two; MacroCs/MacroCsG share nothing across slots
        for slot in 3..=5 {
            let k = pick(VAR_KINDS, &mut rng, &mut used);
            binds.push(Bind { kind: k, slot });
        }
        binds.push(Bind { kind: K::GlobalDefs, slot: 6 });
        let kinds: Vec<String> = binds.iter().map(|b| format!("{:?}", b.kind)).collect();
        // generate ops
        let mut src = String::new();
        let mut done: Vec<String> = vec![];
        for b in &binds {
            let s = b.setup();
            if !done.contains(&s) {
                src.push_str(&s);
                done.push(s);
            }
        }
        let mut ops: Vec<Value> = vec![];
        let mut depth = 0usize;
        // track current abstract values only to spell relative assignments (\advance); the harness
        // does not predict reads.
        let open_bias = 2 + rng.below(5);
        let mut cur_for_advance: Option<usize> = None; // unknown after a group closes
        let _ = &mut cur_for_advance;
        for _ in 0..len {
            let r = rng.below(20);
            if with_checkpoints && rng.chance(1, 7) {
                src.push('\n');
                segs.push(std::mem::take(&mut src));
                let f = fmts[rng.below(3) as usize];
                seg_fmts.push(f);
                ops.push(json!({"ev":"checkpoint","fmt":format!("{f:?}")}));
            } else if r < open_bias && depth < 10 {
                src.push('{');
                depth += 1;
                ops.push(json!({"ev":"begin"}));
            } else if r < open_bias + 3 && depth > 0 {
                src.push('}');
                depth -= 1;
                ops.push(json!({"ev":"end"}));
            } else {
                let ki = rng.below(binds.len() as u64) as usize;
                let b = binds[ki];
                if b.kind == K::CountAdvance {
                    // relative assignment needs the current value: spell it as a reset-free pair
                    // (\count=K then \advance) is not one assignment; skip this kind in traces.
                    continue;
                }
                let mut x = rng.below(3) as usize;
                if b.is_map() && x == 0 {
                    x = 1 + rng.below(2) as usize;
                }
                let form = if args.str("nogdef").is_some() {
                    *rng.pick(&["no", "no", "global"])
                } else {
                    *rng.pick(&["no", "no", "no", "global", "global", "gdef"])
                };
                let Some(text) = b.assign(x, 0, form) else { continue };
                src.push_str(&text);
                ops.push(json!({"ev":"assign","key":ki + 1,"v":x,"g":form}));
            }
            src.push_str(&reads(&binds));
        }
        segs.push(src);
        let src = segs.concat();
        let (got, outcome) = if segs.len() == 1 { run_program(&src) } else { run_segments(&segs, &seg_fmts) };
        // for checkpointed traces: does the same text, run without any checkpoint, read the same?
        // (then a disagreement with the spec is not the checkpoint's doing)
        let uncut_same = segs.len() == 1 || run_program(&src) == (got.clone(), outcome.clone());
        out.line(&json!({"ev":"reset","kinds":kinds,"program":src,"trace":t,"uncut_same":uncut_same}));
        let nb = binds.len();
        if outcome != "ok" {
            out.line(&json!({"ev":"abnormal","outcome":outcome}));
            continue;
        }
        for (i, mut op) in ops.into_iter().enumerate() {
            let chunk: Vec<i64> = (0..nb)
                .map(|j| got.get(i * nb + j).map(|s| binds[j].unrender(s)).unwrap_or(-2))
                .collect();
            op["obs"] = json!(chunk);
            out.line(&op);
        }
    }
    0
}
