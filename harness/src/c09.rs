//! C09 -- interpreter totality.
//!
//! A grammar-based generator over the full installed vocabulary (every built-in, user macros, braces,
//! numbers at and beyond every limit, odd characters) produces programs; each is also truncated at
//! every chunk boundary and run in all four interaction modes on the harness VM (in-memory file
//! system and terminal).  Each run is a trace for VmProtocol.tla:
//!   reset, start(mode), rec(mode, continued, located)*, return(kind, located, renders)
//! A panic is an event no action accepts; a run cut off by the step budget is discarded and counted.
use crate::util::{quiet_panics, Args, Out, Rng};
use crate::vmh;
use serde_json::{json, Value};

pub fn dispatch(cmd: &str, args: &Args) -> Option<i32> {
    Some(match cmd {
        "c09-traces" => traces(args),
        "c09-run" => run_one(args),
        _ => return None,
    })
}

const NUMS: &[&str] = &[
    "-1", "0", "1", "2", "3", "7", "12", "13", "15", "16", "17", "127", "128", "255", "256", "257", "32767", "32768", "55295",
    "55296", "57343", "57344", "65535", "65536", "1114111", "1114112", "1073741823", "1073741824", "2147483647", "2147483648",
    "-2147483647", "-2147483648", "4294967295", "4294967296", "99999999999999999999", "\"7FFFFFFF", "\"80000000", "\"FF", "'777",
    "'17777777777", "'8", "\"G", "`a", "`\\a", "`\\^^M", "`^^@", "`", "--5", "-+-3", "+", "-", "\\count1", "\\dimen1", "\\skip1",
    "\\toks1", "\\catcode`a", "\\the\\count1", "1.5", ".5", "1,5", "1e3",
    // more digits than any scanner keeps (TeX 452 keeps 17 of a fraction), leading zeros, a line that ends inside the constant
    "0.3333333333333333", "0.33333333333333333", "0.333333333333333333", ".99999999999999999999999999999999999999999",
    "16383.999999999999999999", "0000000000000000000000000000000000000001", "\"00000000000000000000FF", "'0000000000000000000000077",
    "`\\\n", "`\\", "`\\^^", "`^^", "`\\^^M\n", "`\\é", "`\\ab", "`\\\\",
];
const UNITS: &[&str] = &["pt", "sp", "pc", "in", "bp", "cm", "mm", "dd", "cc", "em", "ex", "fil", "fill", "filll", "fillll", "truept", "true pt", "xx", "", "p", "\\dimen1", "\\count1", "\\skip1"];
const ODD: &[&str] = &["#", "##", "^^M", "^^@", "^^?", "^^", "^", "~", "$", "&", "_", "%", "é", "€", "\u{7f}", "\u{0}", "\t", " ", "  ", "\n", "\n\n", "\\", "\\ ", "\\\n", "{", "}", "{}", "}{", "a", "Z", "0", "=", "<", ">", "."];
const FILES: &[&str] = &["fa", "fb", "fc", "loop", "nosuch", "fa.tex", "dir/fd", "a>b", "a:b", "../x", "", "\\relax", "{fa}", "fa fb"];
const CSNAMES: &[&str] = &["ma", "mb", "mc", "xa", "xb", "undefinedcs", "par", "relax"];

fn pick_n<'a, T>(rng: &mut Rng, xs: &'a [T]) -> &'a T {
    &xs[rng.below(xs.len() as u64) as usize]
}

fn pick<'a>(rng: &mut Rng, xs: &'a [&'a str]) -> &'a str {
    xs[rng.below(xs.len() as u64) as usize]
}

fn num(rng: &mut Rng) -> String {
    if rng.chance(1, 8) {
        format!("{}", rng.range(-300, 70000))
    } else {
        pick(rng, NUMS).to_string()
    }
}

fn dimen(rng: &mut Rng) -> String {
    format!("{}{}", num(rng), pick(rng, UNITS))
}

fn glue(rng: &mut Rng) -> String {
    let mut s = dimen(rng);
    if rng.chance(1, 2) {
        s.push_str(" plus ");
        s.push_str(&dimen(rng));
    }
    if rng.chance(1, 2) {
        s.push_str(" minus ");
        s.push_str(&dimen(rng));
    }
    s
}

fn cs(rng: &mut Rng) -> String {
    format!("\\{}", pick(rng, CSNAMES))
}

fn body(rng: &mut Rng, vocab: &[String], depth: u32) -> String {
    let mut s = String::new();
    for _ in 0..rng.below(4) {
        s.push_str(&chunk(rng, vocab, depth));
    }
    s
}

/// Expandable tokens whose expansion reports an error (they matter right after a construct that has
/// just reported a recoverable error of its own and still looks ahead).
const FAILING: &[&str] = &["\\the\\relax ", "\\the\\def ", "\\input nosuch ", "\\ifnum", "\\ifcase", "\\expandafter", "\\noexpand",
    "\\fi ", "\\else ", "\\or ", "\\the", "\\ifodd x", "\\ifnum 1 ! 2 ", "\\undefinedcs ", "\\input ", "\\endinput\\the\\relax "];

/// One chunk of program text.  One in four chunks loses its trailing space so that the next chunk
/// follows the construct directly (look-ahead of number/dimension/keyword scanners).
fn chunk(rng: &mut Rng, vocab: &[String], depth: u32) -> String {
    let mut c = chunk_spaced(rng, vocab, depth);
    if rng.chance(1, 4) && c.ends_with(' ') {
        c.pop();
        if rng.chance(1, 2) {
            c.push_str(pick(rng, FAILING));
        }
    }
    c
}

fn chunk_spaced(rng: &mut Rng, vocab: &[String], depth: u32) -> String {
    let prim = |rng: &mut Rng| format!("\\{}", vocab[rng.below(vocab.len() as u64) as usize]);
    if depth == 0 {
        return match rng.below(3) {
            0 => prim(rng) + " ",
            1 => num(rng) + " ",
            _ => pick(rng, ODD).to_string(),
        };
    }
    let d = depth - 1;
    match rng.below(49) {
        0..=4 => prim(rng) + " ",
        5 => format!("{}{} ", prim(rng), num(rng)),
        6 => format!("{}{}={} ", prim(rng), num(rng), num(rng)),
        7 => format!("{} {} ", prim(rng), prim(rng)),
        8 => format!("\\count{}={} ", num(rng), num(rng)),
        9 => format!("\\dimen{}={} ", num(rng), dimen(rng)),
        10 => format!("\\skip{}={} ", num(rng), glue(rng)),
        11 => format!("\\toks{}={{{}}}", num(rng), body(rng, vocab, d)),
        12 => format!("\\catcode{}={} ", num(rng), num(rng)),
        13 => format!("\\mathcode{}={} ", num(rng), num(rng)),
        14 => format!("\\chardef{}={} ", cs(rng), num(rng)),
        15 => format!("\\mathchardef{}={} ", cs(rng), num(rng)),
        16 => format!("\\{}{}={} ", pick(rng, &["countdef", "toksdef"]), cs(rng), num(rng)),
        17 => format!("\\let{}={}", cs(rng), chunk(rng, vocab, 0)),
        18 => {
            let np = rng.below(4);
            let mut params = String::new();
            for i in 1..=np {
                params.push_str(&format!("#{}", if rng.chance(1, 8) { i + 1 } else { i }));
                if rng.chance(1, 3) {
                    params.push_str(pick(rng, &[".", ",", " ", "ab", "\\relax"]));
                }
            }
            let mut b = body(rng, vocab, d);
            for i in 1..=np {
                if rng.chance(2, 3) {
                    b.push_str(&format!("#{i}"));
                }
            }
            if rng.chance(1, 10) {
                b.push_str("#9");
            }
            format!("\\{}{}{}{{{}}}", pick(rng, &["def", "gdef"]), cs(rng), params, b)
        }
        19 => format!("{} {}{{{}}}", cs(rng), chunk(rng, vocab, 0), body(rng, vocab, d)),
        20 => format!("\\font{}={} ", cs(rng), pick(rng, &["fa", "fb", "nofont", "", "fa.mock"])),
        21 => format!("\\endlinechar={} ", num(rng)),
        22 => format!("\\globaldefs={} ", num(rng)),
        23 => format!("\\the{}", chunk(rng, vocab, 0)),
        24 => format!("\\the\\{}{} ", pick(rng, &["count", "dimen", "skip", "toks", "catcode", "mathcode", "font", "endlinechar", "globaldefs", "relax", "def", "the"]), num(rng)),
        25 => format!("\\{}\\{}{} by {} ", pick(rng, &["advance", "multiply", "divide"]), pick(rng, &["count", "dimen", "skip", "toks", "catcode", "year"]), num(rng), num(rng)),
        26 => format!("\\ifnum{}{}{} {}\\else {}\\fi ", num(rng), pick(rng, &["<", "=", ">", "!", ""]), num(rng), body(rng, vocab, d), body(rng, vocab, d)),
        27 => format!("\\ifcase{} {}\\or {}\\else {}\\fi ", num(rng), body(rng, vocab, d), body(rng, vocab, d), body(rng, vocab, d)),
        28 => format!("\\{} {}", pick(rng, &["ifodd", "iftrue", "iffalse", "else", "fi", "or", "ifeof"]), num(rng)),
        29 => format!("\\{} ", pick(rng, &["expandafter", "noexpand", "relax", "global", "long", "outer", "global\\global", "long\\outer\\global"])),
        30 => format!("{{{}}}", body(rng, vocab, d)),
        31 => format!("\\input {} ", pick(rng, FILES)),
        32 => format!("\\openin{}={} ", num(rng), pick(rng, FILES)),
        33 => format!("\\read{} to {} ", num(rng), cs(rng)),
        34 => format!("\\{}{} ", pick(rng, &["closein", "ifeof"]), num(rng)),
        35 => format!("\\{} ", pick(rng, &["endinput", "jobname", "batchmode", "nonstopmode", "scrollmode", "errorstopmode", "par"])),
        36 => format!("\\newInt{} {}={} ", cs(rng), cs(rng), num(rng)),
        37 => format!("\\newIntArray{} {} {} {}={} ", cs(rng), pick(rng, &["0", "1", "3", "256", "70000", "-1", "x"]), cs(rng), num(rng), num(rng)),
        38 => format!("\\tracingmacros={} ", num(rng)),
        39..=44 => {
            // value flows: put an extreme value into a register, then use it where a number, dimension,
            // glue, index or character code is expected
            let r = pick(rng, &["count", "dimen", "skip"]);
            let set = match r {
                "count" if rng.chance(1, 4) => "\\count1=-2147483647 \\advance\\count1 by -1 ".to_string(),
                "count" => format!("\\count1={} ", num(rng)),
                "dimen" => format!("\\dimen1={} ", dimen(rng)),
                _ => format!("\\skip1={} ", glue(rng)),
            };
            let sign = pick(rng, &["", "-", "--", "+-"]);
            let v = format!("{sign}\\{r}1");
            let uses = [
                format!("\\dimen2={v} sp "), format!("\\dimen2={v}pt "), format!("\\dimen2={v} "), format!("\\count2={v} "),
                format!("\\skip2={v} plus {v} minus {v} "), format!("\\skip2=1pt plus {v} fil "), format!("\\multiply\\{r}1 by {} ", num(rng)),
                format!("\\divide\\{r}1 by {} ", num(rng)), format!("\\advance\\{r}1 by {v} "), format!("\\multiply\\count2 by {v} "),
                format!("\\count{v}=1 "), format!("\\catcode{v}=11 "), format!("\\catcode`a={v} "), format!("\\chardef\\xa={v} "),
                format!("\\ifnum{v}<{v} a\\fi "), format!("\\ifodd{v} a\\fi "), format!("\\ifcase{v} a\\or b\\fi "), format!("\\endlinechar={v} "),
                format!("\\the\\{r}1 "), format!("\\openin{v}=fa "), format!("\\mathcode{v}={v} "), format!("\\toks{v}={{a}}"),
                format!("\\newInt\\xb \\xb={v} \\the\\xb "), format!("\\dimen2=1.5{v} "), format!("\\dimen2={}\\dimen1 ", num(rng)),
            ];
            format!("{set}{}", uses[rng.below(uses.len() as u64) as usize])
        }
        45 => {
            // alias flows: a command that carries state of its own (allocated variables and arrays, register
            // aliases, fonts, constants) is copied with \let, leaves its group, is redefined, and is used
            let make = pick(rng, &[
                "\\newIntArray\\xa 3 ", "\\newInt\\xa ", "\\countdef\\xa=5 ", "\\toksdef\\xa=5 ", "\\chardef\\xa=65 ",
                "\\mathchardef\\xa=7 ", "\\font\\xa=fa ", "\\def\\xa{1}", "\\newIntArray\\xa 0 ",
            ]);
            let alias = pick(rng, &["\\let\\xb=\\xa ", "\\global\\let\\xb=\\xa ", "{\\let\\xb=\\xa }", "\\let\\xb=\\xa \\let\\xa=\\relax ", ""]);
            let name = pick(rng, &["\\xb", "\\xb", "\\xa"]);
            let uses = [
                format!("{name} 0=1 "), format!("{name}=3 "), format!("\\the{name} 1 "), format!("\\the{name} "), format!("\\advance{name} 2 by 1 "),
                format!("\\advance{name} by 1 "), format!("{name} "), format!("\\count1={name} "), format!("\\ifnum{name} 0=0 a\\fi "),
                format!("{name} {}=1 ", num(rng)),
            ];
            let u = uses[rng.below(uses.len() as u64) as usize].clone();
            match rng.below(4) {
                0 => format!("{{{make}{alias}}}{u}"),
                1 => format!("{{{make}\\global{alias}}}{u}"),
                _ => format!("{make}{alias}{u}"),
            }
        }
        46 => {
            // state that only takes effect when the lexer starts another line (of this file, of an \input
            // file, of a \read stream): set it to an edge value, then start a line
            let set = match rng.below(4) {
                0 => format!("\\endlinechar={} ", num(rng)),
                1 => format!("\\endlinechar={} ", pick(rng, &["-1", "-1", "256", "92", "96", "32", "37"])),
                2 => format!("\\catcode{}={} ", pick(rng, &["13", "32", "10", "`\\^^M", "`\\ ", "`a", "92", "`\\\\"]), pick(rng, &["0", "5", "9", "10", "13", "14", "15", "11"])),
                _ => format!("\\count1={} \\endlinechar=\\count1 ", num(rng)),
            };
            let next = match rng.below(5) {
                0 => "\n".to_string(),
                1 => "\nab \n".to_string(),
                2 => format!("\\input {} ", pick(rng, &["fa", "fb", "fc", "dir/fd"])),
                3 => "\\openin1=fa \\read1 to\\xa \\read1 to\\xb ".to_string(),
                _ => format!("\n{}\n", chunk(rng, vocab, 0)),
            };
            // ... or end a line where a scanner is still looking for its operand
            let next = if rng.chance(1, 4) {
                format!("{}{}\n{}", pick(rng, &["\\count1=`\\", "\\count1=`", "\\count1=", "\\catcode`\\", "\\let\\xa=\\", "\\def\\", "\\the\\", "\\dimen1=1.", "\\chardef\\xa=`\\"]), "", chunk(rng, vocab, 0))
            } else {
                next
            };
            format!("{set}{next}")
        }
        47 => {
            // names the VM installs for its own use: with suitable category codes any name can be typed
            let hidden: Vec<String> = vmh::built_ins().keys().filter(|k| k.contains('\u{0}')).map(|k| k.to_string()).collect();
            if hidden.is_empty() {
                return "\\relax ".to_string();
            }
            let name = hidden[rng.below(hidden.len() as u64) as usize].replace('\u{0}', "^^@");
            let tail = pick(rng, &["=1 ", " ", " 3=1 ", "\\relax "]);
            match rng.below(3) {
                0 => format!("\\catcode`\\_=11 \\catcode0=11 \\{name}{tail}"),
                1 => format!("\\catcode`\\_=11 \\catcode0=11 \\the\\{name}{tail}"),
                _ => format!("\\catcode`\\_=11 \\catcode0=11 \\let\\xa=\\{name} \\xa{tail}"),
            }
        }
        _ => pick(rng, ODD).to_string(),
    }
}

pub fn fs_files() -> Vec<(String, String)> {
    vec![
        ("fa.tex".to_string(), "A\\count1=5 \\endinput B\nC\n".to_string()),
        ("fb.tex".to_string(), "{ \\def\\mb#1{#1}\n".to_string()),
        ("fc.tex".to_string(), "".to_string()),
        ("loop.tex".to_string(), "\\input loop ".to_string()),
        ("dir/fd.tex".to_string(), "x}y{\n\n".to_string()),
    ]
}

pub const MODES: [&str; 4] = ["errorstopmode", "scrollmode", "nonstopmode", "batchmode"];

/// Run one program in one mode; returns the trace events (without the reset).
pub fn run_trace(program: &str, mode: &str, budget: u64) -> Vec<Value> {
    run_trace_h(program, mode, budget, true)
}

/// strict = TeX's default for undefined commands (an error); otherwise the harness handler lets the
/// run continue so that later text is reached.
pub fn run_trace_h(program: &str, mode: &str, budget: u64, strict: bool) -> Vec<Value> {
    let term = vec!["first line".to_string(), "second { line".to_string(), "third } line".to_string()];
    let mut vm = vmh::new_vm(&fs_files(), &term);
    let src = format!("\\{mode} {program}");
    vmh::recov_start();
    let r = if strict {
        vmh::run_src::<vmh::HStrict>(&mut vm, "main.tex", &src, budget)
    } else {
        vmh::run_src::<vmh::H>(&mut vm, "main.tex", &src, budget)
    };
    let recs = vmh::recov_take();
    let mut ev = vec![json!({"ev":"start","mode":mode})];
    for (m, cont, located) in recs {
        ev.push(json!({"ev":"rec","mode":m,"cont":cont,"located":located}));
    }
    ev.push(match r.outcome {
        vmh::Outcome::Ok => json!({"ev":"return","kind":"ok","located":true,"renders":true}),
        vmh::Outcome::Err { rendered, title } => json!({"ev":"return","kind":"err","located":rendered.contains(">>>"),
            "renders":!rendered.trim().is_empty() && !title.is_empty(),"title":title}),
        vmh::Outcome::Panic { site, msg } => json!({"ev":"panic","site":site,"msg":msg}),
        vmh::Outcome::Budget => json!({"ev":"cutoff"}),
    });
    ev
}

pub fn traces(args: &Args) -> i32 {
    quiet_panics();
    let seed: u64 = args.num("seed", 1);
    let n: usize = args.num("n", 2000);
    let budget: u64 = args.num("budget", 20_000);
    // \newIntArray allocates whatever length it is given (a texcraft extension; memory exhaustion is
    // not a verdict of this property): it is only generated through its own template with small sizes
    let mut vocab: Vec<String> = vmh::built_ins().keys().map(|k| k.to_string())
        .filter(|k| !k.contains('\u{0}') && k != "newIntArray").collect();
    vocab.sort();
    let mut rng = Rng::new(seed);
    // programs and their truncations
    let mut programs: Vec<String> = vec![];
    for _ in 0..n {
        let nch = 1 + rng.below(7) as usize;
        let mut chunks: Vec<String> = (0..nch).map(|_| chunk(&mut rng, &vocab, 2)).collect();
        // one program in four begins with a line of characters that take several bytes: every error further down
        // (the truncations end in end-of-input errors) is located in a text where byte and character offsets differ
        if rng.chance(1, 4) {
            chunks[0] = format!("{}\n{}", pick(&mut rng, &["% éé", "é€", "% €", "ééé €€ é", "\\relax é", "%é"]), chunks[0]);
        }
        let full = chunks.concat();
        // every chunk boundary, plus two cuts inside the text
        let mut acc = String::new();
        for c in &chunks[..nch - 1] {
            acc.push_str(c);
            programs.push(acc.clone());
        }
        if full.chars().count() > 2 {
            for _ in 0..2 {
                let k = 1 + rng.below(full.chars().count() as u64 - 1) as usize;
                programs.push(full.chars().take(k).collect());
            }
        }
        programs.push(full);
    }
    // deterministic family: every arithmetic primitive on every register type with both operands at the
    // boundaries (-2^31 is reached through \advance's wrap-around; constants cannot express it)
    let setup = |reg: &str, v: &str| -> String {
        match (reg, v) {
            ("count", "MIN") => "\\count1=-2147483647 \\advance\\count1 by -1 ".to_string(),
            ("dimen", "MIN") => "\\dimen1=-16383.99998pt \\advance\\dimen1 by \\dimen1 \\advance\\dimen1 by -2sp ".to_string(),
            ("skip", "MIN") => "\\skip1=-16383.99998pt plus -16383.99998fil \\advance\\skip1 by \\skip1 \\advance\\skip1 by -2sp ".to_string(),
            ("count", v) => format!("\\count1={v} "),
            ("dimen", v) => format!("\\dimen1={v}sp "),
            (_, v) => format!("\\skip1={v}sp plus {v}sp minus {v}sp "),
        }
    };
    let bvals = ["MIN", "-2147483647", "-1073741824", "-1073741823", "-65536", "-2", "-1", "0", "1", "2", "65536", "1073741823", "1073741824", "2147483647"];
    let rvals = ["-2147483647", "-1073741824", "-65536", "-2", "-1", "0", "1", "2", "3", "65536", "1073741823", "1073741824", "2147483647", "\\count1", "-\\count1", "\\dimen1", "-\\dimen1"];
    let nfam_before = programs.len();
    for reg in ["count", "dimen", "skip"] {
        for op in ["advance", "multiply", "divide"] {
            for l in bvals {
                for r in rvals {
                    programs.push(format!("{}\\{op}\\{reg}1 by {r} [\\the\\{reg}1]", setup(reg, l)));
                }
            }
        }
    }
    let _nfam = programs.len() - nfam_before;
    let nthreads = std::thread::available_parallelism().map(|n| n.get()).unwrap_or(4);
    let next = std::sync::atomic::AtomicUsize::new(0);
    let results: std::sync::Mutex<Vec<(usize, Vec<Value>)>> = std::sync::Mutex::new(vec![]);
    std::thread::scope(|sc| {
        for _ in 0..nthreads {
            // a generous stack: deeply nested groups / macro arguments recurse in the parser
            std::thread::Builder::new().stack_size(256 << 20).spawn_scoped(sc, || {
                let mut local = vec![];
                loop {
                    let i = next.fetch_add(1, std::sync::atomic::Ordering::SeqCst);
                    if i >= programs.len() * 4 {
                        break;
                    }
                    let (pi, mi) = (i / 4, i % 4);
                    let mut ev = vec![json!({"ev":"reset","mode":MODES[mi],"program":programs[pi]})];
                    ev.extend(run_trace_h(&programs[pi], MODES[mi], budget, pi % 2 == 0));
                    local.push((i, ev));
                }
                results.lock().unwrap().extend(local);
            }).unwrap();
        }
    });
    let mut res = results.into_inner().unwrap();
    res.sort_by_key(|x| x.0);
    let mut out = Out::new(args.str("out"));
    for (_, evs) in res {
        for e in evs {
            out.line(&e);
        }
    }
    0
}

/// Replay helper: `vh c09-run src=FILE mode=M`
pub fn run_one(args: &Args) -> i32 {
    quiet_panics();
    let program = std::fs::read_to_string(args.req("src")).unwrap();
    for e in run_trace(&program, args.str("mode").unwrap_or("errorstopmode"), args.num("budget", 20_000)) {
        println!("{e}");
    }
    0
}

/// (A, B) pairs for C08's differential check: A ends at a chunk boundary; texts that use primitives
/// whose effect is deliberately not part of a checkpoint (\endinput ends the *file*, \read consumes
/// the harness terminal, \input/\openin depend on where a file ends) are left out.
pub fn gen_pairs(seed: u64, n: usize) -> Vec<(String, String)> {
    let mut vocab: Vec<String> = vmh::built_ins().keys().map(|k| k.to_string())
        .filter(|k| !k.contains('\u{0}') && !["newIntArray", "endinput", "read", "input", "tracingmacros"].contains(&k.as_str())).collect();
    vocab.sort();
    let mut rng = Rng::new(seed ^ 0xC08);
    let mut v = vec![];
    while v.len() < n {
        let na = 1 + rng.below(5) as usize;
        let nb = 1 + rng.below(4) as usize;
        // A is biased towards leaving state behind: open groups / conditionals, definitions, errors
        let mut a = String::new();
        for _ in 0..na {
            match rng.below(6) {
                0 => a.push('{'),
                1 => a.push_str(pick(&mut rng, &["\\iftrue ", "\\iffalse \\else ", "\\ifcase 1 \\or ", "\\ifnum1<2 ", "\\ifodd 3 ", "\\ifcase 5 a\\else "])),
                _ => a.push_str(&chunk(&mut rng, &vocab, 2)),
            }
        }
        let mut b = String::new();
        for _ in 0..nb {
            match rng.below(6) {
                0 => b.push('}'),
                1 => b.push_str(pick(&mut rng, &["\\fi ", "\\else x\\fi ", "\\or y\\fi ", "\\fi\\fi "])),
                _ => b.push_str(&chunk(&mut rng, &vocab, 2)),
            }
        }
        // interned names: A defines many control sequences (some with multi-byte letters made letters),
        // B reads a few of them and defines more, so key order in the interner matters after the restore
        if rng.chance(1, 3) {
            let n = 20 + rng.below(60);
            let mut names: Vec<String> = vec![];
            for j in 0..n {
                let mut name = String::from("n");
                let mut v = j * 7919 + rng.below(1000);
                for _ in 0..(2 + v % 5) {
                    name.push((b'a' + (v % 26) as u8) as char);
                    v /= 3;
                }
                name.push((b'a' + (j % 26) as u8) as char);
                name.push((b'a' + ((j / 26) % 26) as u8) as char);
                names.push(name);
            }
            for (j, nm) in names.iter().enumerate() {
                a.push_str(&format!("\\def\\{nm}{{{j}}}"));
            }
            for _ in 0..4 {
                let j = rng.below(n) as usize;
                b.push_str(&format!("[\\{}]", names[j]));
            }
            b.push_str("\\def\\nnewone{N}\\let\\nnewtwo=\\nnewone [\\nnewtwo]");
        }
        // the allocator idiom: aliases of different register kinds with the same number, and codes set back to 12
        // (the value a sparse table would take for "not set"), all before the checkpoint and all used after it
        if rng.chance(1, 4) {
            let k = *pick_n(&mut rng, &[0u32, 1, 10, 10, 255]);
            let g = pick(&mut rng, &["", "", "\\global", "{"]);
            let (go, gc) = if g == "{" { ("{", "") } else { (g, "") };
            a.push_str(&format!("{go}\\countdef\\ya={k} {gc}{go2}\\toksdef\\yb={k} ", go2 = if g == "{" { "" } else { g }));
            a.push_str(&format!("\\catcode`\\{}=12 ", pick(&mut rng, &["%", "#", "a", "~", "^"])));
            b.push_str(&format!("\\ya=7 \\yb={{t}}[\\the\\ya|\\the\\yb|\\the\\count{k}|\\the\\toks{k}]100% a#~^ \n"));
        }
        b.push_str("[\\the\\count1][\\the\\dimen1][\\the\\catcode`a][\\ma][\\xa]");
        let all = format!("{a}{b}");
        if ["endinput", "\\read", "\\input", "openin", "tracingmacros", "jobname"].iter().any(|w| all.contains(w)) {
            continue;
        }
        v.push((a, b));
    }
    v
}
