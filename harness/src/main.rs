//! `vh` -- the Rust side of the texcraft TLA+ verification machinery.
//!
//! Every subcommand either (R) replays behaviours / a transition table produced by TLC on the
//! real crates, or (T/F) records traces / call events of the real crates as ndjson for TLC to
//! validate.  No specification logic lives here: expected values always come from TLC.
mod util;

mod c20;
mod lts;

fn main() {
    let args = util::Args::parse();
    let cmd = args.cmd.clone();
    let rc = match cmd.as_str() {
        "c20-map-walk" => c20::map_walk(&args),
        "c20-map-trace" => c20::map_trace(&args),
        "c20-interner" => c20::interner(&args),
        "c20-kmp" => c20::kmp(&args),
        "c20-tags" => c20::tags(&args),
        _ => {
            eprintln!("unknown subcommand {cmd}");
            2
        }
    };
    std::process::exit(rc);
}
