//! `vh` -- the Rust side of the texcraft TLA+ verification machinery.
//!
//! Every subcommand either (R) replays behaviours / a transition table produced by TLC on the
//! real crates, or (T/F) records traces / call events of the real crates as ndjson for TLC to
//! validate.  No specification logic lives here: expected values always come from TLC.
//!
//! One module per property; each exposes `dispatch(cmd, args) -> Option<exit code>`.
#![allow(dead_code)]
mod lts;
mod util;
mod vmh;

mod c01;
mod c02;
mod c03;
mod c04;
mod c05;
mod c06;
mod c07;
mod c08;
mod c09;
mod c10;
mod c11;
mod c12;
mod c13;
mod c14;
mod c15;
mod c16;
mod c17;
mod c18;
mod c19;
mod c20;
mod tv;

fn main() {
    let args = util::Args::parse();
    let cmd = args.cmd.clone();
    util::start_call_watchdog();
    let rc = None
        .or_else(|| vmrun(&cmd, &args))
        .or_else(|| c01::dispatch(&cmd, &args))
        .or_else(|| c02::dispatch(&cmd, &args))
        .or_else(|| c03::dispatch(&cmd, &args))
        .or_else(|| c04::dispatch(&cmd, &args))
        .or_else(|| c05::dispatch(&cmd, &args))
        .or_else(|| c06::dispatch(&cmd, &args))
        .or_else(|| c07::dispatch(&cmd, &args))
        .or_else(|| c08::dispatch(&cmd, &args))
        .or_else(|| c09::dispatch(&cmd, &args))
        .or_else(|| c10::dispatch(&cmd, &args))
        .or_else(|| c11::dispatch(&cmd, &args))
        .or_else(|| c12::dispatch(&cmd, &args))
        .or_else(|| c13::dispatch(&cmd, &args))
        .or_else(|| c14::dispatch(&cmd, &args))
        .or_else(|| c15::dispatch(&cmd, &args))
        .or_else(|| c16::dispatch(&cmd, &args))
        .or_else(|| c17::dispatch(&cmd, &args))
        .or_else(|| c18::dispatch(&cmd, &args))
        .or_else(|| c19::dispatch(&cmd, &args))
        .or_else(|| c20::dispatch(&cmd, &args))
        .or_else(|| tv::dispatch(&cmd, &args))
        .unwrap_or_else(|| {
            eprintln!("unknown subcommand {cmd}");
            2
        });
    std::process::exit(rc);
}

/// Debug helper: `vh vm-run src=FILE [budget=N] [strict=1]` runs a TeX file on the harness VM.
fn vmrun(cmd: &str, args: &util::Args) -> Option<i32> {
    if cmd != "vm-run" {
        return None;
    }
    util::quiet_panics();
    let src = std::fs::read_to_string(args.req("src")).unwrap();
    let mut vm = vmh::new_vm(&[], &[]);
    let r = if args.str("strict").is_some() {
        vmh::run_src::<vmh::HStrict>(&mut vm, "main.tex", &src, args.num("budget", 1_000_000))
    } else {
        vmh::run_src::<vmh::H>(&mut vm, "main.tex", &src, args.num("budget", 1_000_000))
    };
    println!("{}", vmh::render(&r.toks));
    println!("outcome: {:?} steps={}", r.outcome, r.steps);
    Some(0)
}
