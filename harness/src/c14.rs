//! C14: the hyphenation pass over a horizontal list (`boxworks_hyphenate::Hyphenator::hyphenate`,
//! tex.web 891-918) -- binding F on (before, after) lists.
//!
//! Every case is a *script* executed on the real text -> hlist path
//! (`boxworks_text::TextPreprocessorImpl`: `add_word`, `add_space`, `activate_font`; raw nodes are
//! pushed as they are) followed by the real hyphenation pass.  One event per case:
//!
//! ```json
//! {"script":[["s"],["w","dif"],["f",1],["w","ferent"],["n",{"k":"pen","p":0}],...],
//!  "font":{"kind":"cmr10"} | {"kind":"synth","bc":124|-1,"rules":[[l|-1,r,"K",amount]|[l|-1,r,"/LIG/>",c],...]},
//!  "exc":[{"w":[100,105,102],"p":[1,2]},...],   the hyphenation exceptions loaded (no patterns): word, positions
//!  "lh":2,"rh":3,"hc":45,                       \lefthyphenmin, \righthyphenmin, the hyphen character
//!  "before":[node,...],"after":[node,...]}      or "panic":[file,msg] instead of "after"
//! ```
//!
//! nodes: {"k":"char","c":..,"f":..} {"k":"lig","c":..,"f":..,"o":[..],"lb":0|1,"rb":0|1}
//! {"k":"kern","w":..,"x":0 normal|1 explicit|2 accent|3 math} {"k":"glue","w","st","sh","sto","sho","gk"}
//! {"k":"pen","p"} {"k":"disc","pre":[..],"post":[..],"n":replace_count} {"k":"rule","w","h","d"}
//! {"k":"hbox","w"} {"k":"vbox","w"} {"k":"math","m":0|1} {"k":"mark"} {"k":"ins","b"} {"k":"adjust"} {"k":"what","id"}
//!
//! No expected value is computed here.  `Allowed` (the permitted hyphen positions of a word) is
//! *chosen* by the generator and loaded as exceptions; which words TeX tries, where the
//! discretionaries must be and what they must contain is decided by specs/Trace_HyphenList.tla.
use crate::util::{catch, quiet_panics, Args, Out, Rng};
use boxworks::ds;
use boxworks::TextPreprocessor;
use boxworks_text as bwt;
use common::{GlueOrder, Scaled};
use serde_json::{json, Value};
use std::collections::BTreeMap;
use std::rc::Rc;

pub fn dispatch(cmd: &str, args: &Args) -> Option<i32> {
    Some(match cmd {
        "c14-text" => text_cases(args),
        "c14-synth" => synth_cases(args),
        "c14-struct" => struct_cases(args),
        "c14-unit" => unit_cases(args),
        "c14-replay" => replay(args),
        "c14-probe" => probe(args),
        _ => return None,
    })
}

const CMR10: &[u8] = include_bytes!(concat!(
    env!("VH_REPO"),
    "/crates/tfm/corpus/computer-modern/cmr10.tfm"
));

const HYPHEN: char = '-';

// ------------------------------------------------------------------------------------------
// fonts
// ------------------------------------------------------------------------------------------

#[derive(Clone, Debug, PartialEq)]
enum Op {
    Kern(i32),       // in 1/1000 of the design size
    Lig(usize, u8),  // index into LIG_FORMS, inserted character
}

const LIG_FORMS: [&str; 8] = ["LIG", "/LIG", "/LIG>", "LIG/", "LIG/>", "/LIG/", "/LIG/>", "/LIG/>>"];

#[derive(Clone, Debug, PartialEq)]
struct Rule {
    l: Option<u8>, // None = left boundary
    r: u8,         // the boundary character stands for the right boundary
    op: Op,
}

#[derive(Clone, Debug, PartialEq)]
enum FontSpec {
    Cmr10,
    /// font built from PL text: characters = `chars`, BOUNDARYCHAR = bc, LIGTABLE = rules
    Synth { bc: Option<u8>, rules: Vec<Rule> },
}

const SYNTH_CHARS: &str = "abcdefghijklmnopqrstuvwxyzABCDEFGHIJKLMNOPQRSTUVWXYZ0123456789.,-()|'!?";

fn pl_text(bc: Option<u8>, rules: &[Rule]) -> String {
    let mut s = String::new();
    s.push_str("(FAMILY SYNTH)\n(DESIGNSIZE R 10.0)\n");
    if let Some(bc) = bc {
        s.push_str(&format!("(BOUNDARYCHAR O {:o})\n", bc));
    }
    s.push_str(
        "(FONTDIMEN\n (SLANT R 0.0)\n (SPACE R 0.3)\n (STRETCH R 0.15)\n (SHRINK R 0.1)\n (XHEIGHT R 0.4)\n (QUAD R 1.0)\n (EXTRASPACE R 0.1)\n )\n",
    );
    s.push_str("(LIGTABLE\n");
    let mut lefts: Vec<Option<u8>> = vec![];
    for r in rules {
        if !lefts.contains(&r.l) {
            lefts.push(r.l);
        }
    }
    for l in lefts {
        match l {
            None => s.push_str(" (LABEL BOUNDARYCHAR)\n"),
            Some(c) => s.push_str(&format!(" (LABEL O {:o})\n", c)),
        }
        for r in rules.iter().filter(|r| r.l == l) {
            match &r.op {
                Op::Kern(k) => {
                    let sign = if *k < 0 { "-" } else { "" };
                    let a = k.unsigned_abs();
                    s.push_str(&format!(" (KRN O {:o} R {}{}.{:03})\n", r.r, sign, a / 1000, a % 1000));
                }
                Op::Lig(form, c) => {
                    s.push_str(&format!(" ({} O {:o} O {:o})\n", LIG_FORMS[*form], r.r, c));
                }
            }
        }
        s.push_str(" (STOP)\n");
    }
    s.push_str(" )\n");
    for (i, c) in SYNTH_CHARS.bytes().enumerate() {
        s.push_str(&format!("(CHARACTER O {:o} (CHARWD R 0.{:03}))\n", c, 300 + 7 * i));
    }
    s
}

struct Font {
    /// the real text -> hlist path with this font registered under the numbers 0 and 1
    tp: bwt::TextPreprocessorImpl,
    /// the real hyphenation pass with this font's program; exceptions and minimums are set per case
    hyph: boxworks_hyphenate::Hyphenator,
}

impl Font {
    fn new(tfm: tfm::File, prog: tfm::ligkern::CompiledProgram) -> Font {
        let mut tp = bwt::TextPreprocessorImpl::new(bwt::Params::plain_tex_defaults());
        tp.register_font(0, &tfm, prog.clone());
        tp.register_font(1, &tfm, prog.clone());
        let hyph = boxworks_hyphenate::Hyphenator {
            lig_kern_program: prog,
            hyphenator: Default::default(),
            left_hyphen_min: 1,
            right_hyphen_min: 1,
        };
        Font { tp, hyph }
    }
}

fn load_font(spec: &FontSpec) -> Result<Font, String> {
    match spec {
        FontSpec::Cmr10 => {
            let mut tfm = tfm::File::deserialize(CMR10).0.map_err(|e| format!("{e:?}"))?;
            let (prog, errs) = tfm::ligkern::CompiledProgram::compile_from_tfm_file(&mut tfm);
            if !errs.is_empty() {
                return Err("cmr10 lig/kern program has an infinite loop".into());
            }
            Ok(Font::new(tfm, prog))
        }
        FontSpec::Synth { bc, rules } => {
            let src = pl_text(*bc, rules);
            let (pl, _warnings) = tfm::pl::File::from_pl_source_code(&src);
            let (_, errs) = tfm::ligkern::CompiledProgram::compile_from_pl_file(&pl);
            if !errs.is_empty() {
                return Err("infinite lig/kern loop".into());
            }
            // the road a font takes in practice: PL -> TFM bytes (pltotf) -> loaded TFM -> compiled program.
            // (Compiling the in-memory conversion directly would use a stale left-boundary entry point when
            // BOUNDARYCHAR is declared: pack_entrypoints shifts the instructions but not
            // left_boundary_char_entrypoint -- a tfm-crate matter outside C14, avoided here.)
            let tfm: tfm::File = pl.into();
            let bytes = tfm.serialize();
            let mut tfm = tfm::File::deserialize(&bytes).0.map_err(|e| format!("{e:?}"))?;
            let (prog, errs) = tfm::ligkern::CompiledProgram::compile_from_tfm_file(&mut tfm);
            if !errs.is_empty() {
                return Err("infinite lig/kern loop".into());
            }
            Ok(Font::new(tfm, prog))
        }
    }
}

fn font_json(spec: &FontSpec) -> Value {
    match spec {
        FontSpec::Cmr10 => json!({"kind":"cmr10"}),
        FontSpec::Synth { bc, rules } => {
            let rs: Vec<Value> = rules
                .iter()
                .map(|r| {
                    let l = r.l.map(|c| c as i64).unwrap_or(-1);
                    match &r.op {
                        Op::Kern(k) => json!([l, r.r, "K", k]),
                        Op::Lig(f, c) => json!([l, r.r, LIG_FORMS[*f], c]),
                    }
                })
                .collect();
            json!({"kind":"synth","bc":bc.map(|c| c as i64).unwrap_or(-1),"rules":rs})
        }
    }
}

fn font_from_json(v: &Value) -> FontSpec {
    if v["kind"] == "cmr10" {
        return FontSpec::Cmr10;
    }
    let bc = v["bc"].as_i64().filter(|b| *b >= 0).map(|b| b as u8);
    let rules = v["rules"]
        .as_array()
        .unwrap()
        .iter()
        .map(|r| {
            let l = r[0].as_i64().filter(|b| *b >= 0).map(|b| b as u8);
            let rr = r[1].as_i64().unwrap() as u8;
            let name = r[2].as_str().unwrap();
            let op = if name == "K" {
                Op::Kern(r[3].as_i64().unwrap() as i32)
            } else {
                Op::Lig(LIG_FORMS.iter().position(|f| *f == name).unwrap(), r[3].as_i64().unwrap() as u8)
            };
            Rule { l, r: rr, op }
        })
        .collect();
    FontSpec::Synth { bc, rules }
}

// ------------------------------------------------------------------------------------------
// nodes <-> JSON
// ------------------------------------------------------------------------------------------

#[derive(Debug)]
struct W(u32);
impl ds::Whatsit for W {}

fn code(c: char) -> i64 {
    c as u32 as i64
}

fn node_json(n: &ds::Horizontal) -> Value {
    use ds::Horizontal::*;
    match n {
        Char(c) => json!({"k":"char","c":code(c.char),"f":c.font}),
        Ligature(l) => json!({"k":"lig","c":code(l.char),"f":l.font,
            "o": l.original_chars.chars().map(code).collect::<Vec<_>>(),
            "lb": l.includes_left_boundary as i32, "rb": l.includes_right_boundary as i32}),
        Kern(k) => json!({"k":"kern","w":k.width.0,"x": match k.kind {
            ds::KernKind::Normal => 0, ds::KernKind::Explicit => 1, ds::KernKind::Accent => 2, ds::KernKind::Math => 3}}),
        Glue(g) => json!({"k":"glue","w":g.value.width.0,"st":g.value.stretch.0,"sh":g.value.shrink.0,
            "sto":g.value.stretch_order as i32,"sho":g.value.shrink_order as i32,"gk": match g.kind {
                ds::GlueKind::Normal => 0, ds::GlueKind::ConditionalMath => 1, ds::GlueKind::Math => 2,
                ds::GlueKind::AlignedLeader => 3, ds::GlueKind::CenteredLeader => 4, ds::GlueKind::ExpandedLeader => 5}}),
        Penalty(p) => json!({"k":"pen","p":p.0}),
        Discretionary(d) => json!({"k":"disc",
            "pre": d.pre_break.iter().map(|e| node_json(&e.clone().into())).collect::<Vec<_>>(),
            "post": d.post_break.iter().map(|e| node_json(&e.clone().into())).collect::<Vec<_>>(),
            "n": d.replace_count}),
        Rule(r) => json!({"k":"rule","w":r.width.0,"h":r.height.0,"d":r.depth.0}),
        HBox(b) => json!({"k":"hbox","w":b.width.0}),
        VBox(b) => json!({"k":"vbox","w":b.width.0}),
        Math(m) => json!({"k":"math","m": matches!(m, ds::Math::After) as i32}),
        Mark(_) => json!({"k":"mark"}),
        Insertion(i) => json!({"k":"ins","b":i.box_number}),
        Adjust(_) => json!({"k":"adjust"}),
        Whatsit(w) => {
            let s = format!("{:?}", w);
            let id: i64 = s.chars().filter(|c| c.is_ascii_digit()).collect::<String>().parse().unwrap_or(-1);
            json!({"k":"what","id":id})
        }
    }
}

/// raw nodes of a script (the kinds a generator places between pieces of text)
fn node_from_json(v: &Value) -> ds::Horizontal {
    let i = |k: &str| v[k].as_i64().unwrap_or(0) as i32;
    match v["k"].as_str().unwrap() {
        "glue" => ds::Glue {
            kind: ds::GlueKind::Normal,
            value: common::Glue {
                width: Scaled(i("w")),
                stretch: Scaled(i("st")),
                shrink: Scaled(i("sh")),
                stretch_order: order(i("sto")),
                shrink_order: order(i("sho")),
            },
        }
        .into(),
        "kern" => ds::Kern {
            width: Scaled(i("w")),
            kind: match i("x") {
                0 => ds::KernKind::Normal,
                1 => ds::KernKind::Explicit,
                2 => ds::KernKind::Accent,
                _ => ds::KernKind::Math,
            },
        }
        .into(),
        "pen" => ds::Penalty(i("p")).into(),
        "rule" => ds::Rule { width: Scaled(i("w")), height: Scaled(i("h")), depth: Scaled(i("d")) }.into(),
        "hbox" => ds::HBox { width: Scaled(i("w")), ..Default::default() }.into(),
        "vbox" => ds::VBox { width: Scaled(i("w")), ..Default::default() }.into(),
        "math" => (if i("m") == 1 { ds::Math::After } else { ds::Math::Before }).into(),
        "mark" => ds::Mark { list: vec![] }.into(),
        "ins" => ds::Insertion {
            box_number: i("b") as u8,
            height: Scaled(0),
            split_max_depth: Scaled(0),
            split_top_skip: common::Glue::ZERO,
            float_penalty: 0,
            vbox: vec![],
        }
        .into(),
        "adjust" => ds::Adjust { list: vec![] }.into(),
        "what" => ds::Horizontal::Whatsit(Rc::new(W(i("id") as u32))),
        "disc" => ds::Discretionary::default().into(),
        "char" => ds::Char { char: char::from_u32(i("c") as u32).unwrap(), font: i("f") as u32 }.into(),
        other => panic!("raw node kind {other} not supported in scripts"),
    }
}

fn order(i: i32) -> GlueOrder {
    match i {
        0 => GlueOrder::Normal,
        1 => GlueOrder::Fil,
        2 => GlueOrder::Fill,
        _ => GlueOrder::Filll,
    }
}

// ------------------------------------------------------------------------------------------
// scripts and cases
// ------------------------------------------------------------------------------------------

#[derive(Clone, Debug)]
enum Item {
    Word(String),
    Space,
    Font(u32),
    Node(Value),
}

fn item_json(i: &Item) -> Value {
    match i {
        Item::Word(w) => json!(["w", w]),
        Item::Space => json!(["s"]),
        Item::Font(f) => json!(["f", f]),
        Item::Node(n) => json!(["n", n]),
    }
}

fn item_from_json(v: &Value) -> Item {
    match v[0].as_str().unwrap() {
        "w" => Item::Word(v[1].as_str().unwrap().to_string()),
        "s" => Item::Space,
        "f" => Item::Font(v[1].as_u64().unwrap() as u32),
        _ => Item::Node(v[1].clone()),
    }
}

#[derive(Clone, Debug)]
struct Case {
    font: FontSpec,
    script: Vec<Item>,
    /// lower-case word -> permitted positions (number of letters before the hyphen)
    exc: BTreeMap<String, Vec<usize>>,
    lh: i32,
    rh: i32,
}

fn tail_items() -> Vec<Item> {
    // what the line breaker appends before it calls the hyphenator (tex.web 816)
    vec![
        Item::Node(json!({"k":"pen","p":10000})),
        Item::Node(json!({"k":"glue","w":0,"st":65536,"sh":0,"sto":1,"sho":0,"gk":0})),
    ]
}

fn exception_text(word: &str, pos: &[usize]) -> String {
    let mut s = String::new();
    for (i, c) in word.chars().enumerate() {
        if pos.contains(&i) {
            s.push('-');
        }
        s.push(c);
    }
    s
}

struct Ran {
    before: Vec<ds::Horizontal>,
    after: Result<Vec<ds::Horizontal>, (String, String)>,
}

fn run_case(case: &Case, font: &mut Font) -> Ran {
    let tp = &mut font.tp;
    tp.activate_font(0);
    tp.new_paragraph();
    let mut before: Vec<ds::Horizontal> = vec![];
    for item in &case.script {
        match item {
            Item::Word(w) => tp.add_word(w, &mut before),
            Item::Space => tp.add_space(&mut before),
            Item::Font(f) => tp.activate_font(*f),
            Item::Node(v) => before.push(node_from_json(v)),
        }
    }
    let mut inner: hyphenate::Hyphenator = Default::default();
    for (w, p) in &case.exc {
        inner.insert_exception(&exception_text(w, p));
    }
    font.hyph.hyphenator = inner;
    font.hyph.left_hyphen_min = case.lh;
    font.hyph.right_hyphen_min = case.rh;
    let h = &font.hyph;
    let input = before.clone();
    let after = catch(move || {
        use boxworks::Hyphenator;
        let mut l = input;
        h.hyphenate(&mut l);
        l
    });
    Ran { before, after }
}

fn event(case: &Case, ran: &Ran) -> Value {
    let exc: Vec<Value> = case
        .exc
        .iter()
        .map(|(w, p)| json!({"w": w.chars().map(code).collect::<Vec<_>>(), "p": p}))
        .collect();
    let mut e = json!({
        "script": case.script.iter().map(item_json).collect::<Vec<_>>(),
        "font": font_json(&case.font),
        "exc": exc,
        "lh": case.lh, "rh": case.rh, "hc": code(HYPHEN),
        "before": ran.before.iter().map(node_json).collect::<Vec<_>>(),
    });
    match &ran.after {
        Ok(l) => e["after"] = Value::Array(l.iter().map(node_json).collect()),
        Err((f, m)) => e["panic"] = json!([f, m]),
    }
    e
}

fn case_from_event(e: &Value) -> Case {
    let mut exc = BTreeMap::new();
    for x in e["exc"].as_array().unwrap() {
        let w: String = x["w"].as_array().unwrap().iter().map(|c| char::from_u32(c.as_u64().unwrap() as u32).unwrap()).collect();
        let p: Vec<usize> = x["p"].as_array().unwrap().iter().map(|c| c.as_u64().unwrap() as usize).collect();
        exc.insert(w, p);
    }
    Case {
        font: font_from_json(&e["font"]),
        script: e["script"].as_array().unwrap().iter().map(item_from_json).collect(),
        exc,
        lh: e["lh"].as_i64().unwrap() as i32,
        rh: e["rh"].as_i64().unwrap() as i32,
    }
}

#[derive(Default)]
struct Stats {
    events: u64,
    panics: u64,
    with_inserted_disc: u64,
    inserted_discs: u64,
    with_ligature: u64,
    with_kern: u64,
    longest_list: usize,
    skipped_fonts: u64,
    distinct: std::collections::HashSet<u64>,
}

fn count_discs(l: &[ds::Horizontal]) -> u64 {
    l.iter().filter(|n| matches!(n, ds::Horizontal::Discretionary(_))).count() as u64
}

fn hash_str(s: &str) -> u64 {
    let mut h: u64 = 0xcbf29ce484222325;
    for b in s.bytes() {
        h ^= b as u64;
        h = h.wrapping_mul(0x100000001b3);
    }
    h
}

impl Stats {
    fn record(&mut self, ran: &Ran, ev: &Value) {
        self.events += 1;
        self.longest_list = self.longest_list.max(ran.before.len());
        if ran.before.iter().any(|n| matches!(n, ds::Horizontal::Ligature(_))) {
            self.with_ligature += 1;
        }
        if ran.before.iter().any(|n| matches!(n, ds::Horizontal::Kern(_))) {
            self.with_kern += 1;
        }
        match &ran.after {
            Ok(a) => {
                let d = count_discs(a).saturating_sub(count_discs(&ran.before));
                if d > 0 {
                    self.with_inserted_disc += 1;
                    self.inserted_discs += d;
                }
            }
            Err(_) => self.panics += 1,
        }
        let key = json!([ev["before"], ev["exc"], ev["lh"], ev["rh"], ev["font"]]).to_string();
        self.distinct.insert(hash_str(&key));
    }
    fn write(&self, args: &Args, gen: &str) {
        if let Some(p) = args.str("stats") {
            let v = json!({
                "gen": gen, "events": self.events, "panics": self.panics,
                "distinct": self.distinct.len(),
                "nontrivial": self.with_inserted_disc,
                "inserted_discs": self.inserted_discs,
                "with_ligature": self.with_ligature, "with_kern": self.with_kern,
                "longest_list": self.longest_list, "skipped_fonts": self.skipped_fonts,
            });
            std::fs::write(p, v.to_string()).unwrap();
        }
    }
}

// ------------------------------------------------------------------------------------------
// watchdog: a pass that does not return is data too
// ------------------------------------------------------------------------------------------

static CURRENT: std::sync::Mutex<Option<(std::time::Instant, String)>> = std::sync::Mutex::new(None);
static HANG_FILE: std::sync::Mutex<Option<String>> = std::sync::Mutex::new(None);

/// If one call of the pass runs longer than `limit` seconds the case is written to `<out>.hang` as an event
/// `{"hang": seconds, script, font, exc, lh, rh, hc}` and the process exits with code 3 (no specification accepts a hang).
fn start_watchdog(args: &Args) {
    let limit: u64 = args.num("hang", 20);
    *HANG_FILE.lock().unwrap() = args.str("out").map(|p| format!("{p}.hang"));
    std::thread::spawn(move || loop {
        std::thread::sleep(std::time::Duration::from_millis(250));
        let cur = CURRENT.lock().unwrap().clone();
        if let Some((t0, case)) = cur {
            if t0.elapsed().as_secs() >= limit {
                let mut v: Value = serde_json::from_str(&case).unwrap();
                v["hang"] = json!(limit);
                let path = HANG_FILE.lock().unwrap().clone();
                match path {
                    Some(p) => std::fs::write(p, v.to_string() + "\n").unwrap(),
                    None => println!("{v}"),
                }
                eprintln!("the hyphenation pass did not return within {limit}s");
                std::process::exit(3);
            }
        }
    });
}

fn case_json(case: &Case) -> Value {
    let exc: Vec<Value> = case
        .exc
        .iter()
        .map(|(w, p)| json!({"w": w.chars().map(code).collect::<Vec<_>>(), "p": p}))
        .collect();
    json!({
        "script": case.script.iter().map(item_json).collect::<Vec<_>>(),
        "font": font_json(&case.font),
        "exc": exc,
        "lh": case.lh, "rh": case.rh, "hc": code(HYPHEN),
    })
}

fn emit(case: &Case, font: &mut Font, out: &mut Out, st: &mut Stats) {
    *CURRENT.lock().unwrap() = Some((std::time::Instant::now(), case_json(case).to_string()));
    let ran = run_case(case, font);
    *CURRENT.lock().unwrap() = None;
    let ev = event(case, &ran);
    st.record(&ran, &ev);
    out.line(&ev);
}

// ------------------------------------------------------------------------------------------
// exceptions: Allowed is chosen here
// ------------------------------------------------------------------------------------------

/// maximal runs of ASCII letters in `text`, lower-cased; long runs also contribute their prefixes of
/// 60..=63 letters (TeX looks up at most 63 letters; a ligature straddling the limit shortens the word)
fn letter_runs(text: &str) -> Vec<String> {
    let mut runs = vec![];
    let mut cur = String::new();
    for c in text.chars().chain(std::iter::once(' ')) {
        if c.is_ascii_alphabetic() {
            cur.push(c.to_ascii_lowercase());
        } else if !cur.is_empty() {
            if cur.len() > 59 {
                for n in 60..=63 {
                    if cur.len() >= n {
                        runs.push(cur[..n].to_string());
                    }
                }
            }
            runs.push(std::mem::take(&mut cur));
        }
    }
    runs
}

/// mode 0: random density, 1: every position, 2: none, 3: sparse
fn choose_positions(rng: &mut Rng, n: usize, mode: u64) -> Vec<usize> {
    (1..n)
        .filter(|_| match mode {
            1 => true,
            2 => false,
            3 => rng.chance(1, 5),
            _ => rng.chance(1, 2),
        })
        .collect()
}

fn exceptions_for(script: &[Item], rng: &mut Rng, mode: Option<u64>) -> BTreeMap<String, Vec<usize>> {
    let mut exc = BTreeMap::new();
    for item in script {
        if let Item::Word(w) = item {
            for run in letter_runs(w) {
                if run.len() < 2 || exc.contains_key(&run) {
                    continue;
                }
                let m = mode.unwrap_or_else(|| [0, 0, 0, 1, 1, 2, 3, 3][rng.below(8) as usize]);
                let p = choose_positions(rng, run.len(), m);
                exc.insert(run, p);
            }
        }
    }
    exc
}

fn script_from_text(text: &str) -> Vec<Item> {
    // the same splitting as boxworks::TextPreprocessor::add_text
    let mut v = vec![];
    let mut pending = text.chars().next().unwrap_or(' ').is_ascii_whitespace();
    for w in text.split_ascii_whitespace() {
        if pending {
            v.push(Item::Space);
        }
        v.push(Item::Word(w.to_string()));
        pending = true;
    }
    v
}

// ------------------------------------------------------------------------------------------
// generator 1: text in the real cmr10
// ------------------------------------------------------------------------------------------

const PLAIN: &[&str] = &[
    "difficult", "office", "waffle", "shuffling", "affliction", "fjord", "baffling", "offload", "effect",
    "fifty", "AVATAR", "Wolf", "Yo", "To", "Table", "VAT", "away", "Typography", "Contents", "x", "a", "I",
    "Hyphenation", "sniff", "cuff", "puffy", "fluffiest", "afflict", "raffia", "fi", "ff", "ffi", "ffl", "fl",
    "waffling", "Pafford", "keyword", "vowel", "AWAY", "LaTeX", "flfifl", "iffy",
];
const PUNCT: &[&str] = &[
    "(hello)", "baby,", "``quoted''", "end.", "what?", "stop!", "'tis", "[sic]", "f)", "off!", "f'", "wolf?",
    "Wolf,", "(off]", "cliff!", "puff?", "``Yo,''", "(AV)", "e.g.", "i.e.,", "etc.)", "!`Hola!", "?`Que?", "shelf'",
];
const DIGITS: &[&str] = &["3.0", "1984", "x86", "B2B", "7up", "route66", "4ff", "ff4", "2fi2", "fi5fl", "0"];
const HYPHENS: &[&str] = &[
    "well-known", "--", "---", "mother-in-law", "-dash", "dash-", "off-key", "f-f", "ff-fi", "a--b", "A---V",
    "self-", "-", "wolf-fi",
];
const LETTERLESS: &[&str] = &["3.0", "--", "(", ")", "...", "1.", "?!", "42", "---", "[1]", ",", "''"];
const SYLLABLES: &[&str] = &["dif", "fi", "cult", "of", "fice", "waf", "fle", "AV", "To", "ma", "ni", "ffl", "Wo", "y", "ff"];

fn long_word(rng: &mut Rng) -> String {
    if rng.chance(1, 2) {
        // a ligature placed around the 63-letter limit
        let k = rng.range(56, 66) as usize;
        let lig = *rng.pick(&["ffi", "fi", "ff", "ffl", "AV", "fl"]);
        let mut s = "m".repeat(k);
        s.push_str(lig);
        s.push_str(&"n".repeat(rng.range(0, 12) as usize));
        s
    } else {
        let mut s = String::new();
        let target = rng.range(64, 80) as usize;
        while s.len() < target {
            let syl: &str = *rng.pick(SYLLABLES);
            s.push_str(syl);
        }
        s
    }
}

fn soup(rng: &mut Rng) -> String {
    const A: &[u8] = b"fffiilAVoTyWa,.-'(!?)3`";
    let n = rng.range(1, 10);
    (0..n).map(|_| *rng.pick(A) as char).collect()
}

fn text_token(rng: &mut Rng) -> String {
    match rng.below(20) {
        0..=5 => rng.pick(PLAIN).to_string(),
        6..=8 => rng.pick(PUNCT).to_string(),
        9..=10 => rng.pick(DIGITS).to_string(),
        11..=12 => rng.pick(HYPHENS).to_string(),
        13..=15 => rng.pick(LETTERLESS).to_string(),
        16 => long_word(rng),
        _ => soup(rng),
    }
}

fn hyphen_mins(i: u64, rng: &mut Rng, extremes: bool) -> (i32, i32) {
    if extremes && rng.chance(1, 8) {
        (*rng.pick(&[-70, -1, 0, 1, 5, 62, 63, 64, 70]), *rng.pick(&[-70, -1, 0, 2, 5, 61, 63, 64, 70]))
    } else if rng.chance(1, 10) {
        // TeX.2021.1091 norm_min: a minimum below 1 means 1
        (*rng.pick(&[-2, -1, 0, 1, 2]), *rng.pick(&[-3, -1, 0, 1, 2]))
    } else {
        ((i % 5) as i32, ((i / 5) % 5) as i32)
    }
}

fn text_cases(args: &Args) -> i32 {
    quiet_panics();
    start_watchdog(args);
    let seed: u64 = args.num("seed", 1);
    let n: u64 = args.num("n", 1000);
    let extremes = args.num("extremes", 0) == 1;
    let mut rng = Rng::new(seed ^ 0x14_0001);
    let mut out = Out::new(args.str("out"));
    let mut st = Stats::default();
    let mut font = load_font(&FontSpec::Cmr10).expect("cmr10");
    // fixed cases first: the sentences the property names
    let fixed = [
        " 3.0 Contents of difficult offices",
        "x 3.0 Contents",
        "Contents 3.0 Contents 1984 Hyphenation --- Typography",
        "x difficult waffle shuffling affliction",
        "x AVATAR Wolf, (off] well-known mother-in-law",
        " ( parenthetical ) aside",
    ];
    let mut i = 0u64;
    for t in fixed {
        for mode in [1u64, 0] {
            for (lh, rh) in [(1, 1), (2, 3), (0, 0)] {
                let script = script_from_text(t);
                let exc = exceptions_for(&script, &mut rng, Some(mode));
                emit(&Case { font: FontSpec::Cmr10, script, exc, lh, rh }, &mut font, &mut out, &mut st);
            }
        }
    }
    while st.events < n {
        i += 1;
        let ntok = rng.range(2, 7);
        let mut script: Vec<Item> = vec![];
        if rng.chance(2, 3) {
            script.push(Item::Space);
        }
        for t in 0..ntok {
            if t > 0 {
                script.push(Item::Space);
            }
            let tok = text_token(&mut rng);
            if rng.chance(1, 10) && tok.len() > 3 && tok.is_ascii() {
                // a font change inside the token (fonts 0 and 1 are the same cmr10)
                let cut = rng.range(1, tok.len() as i64 - 1) as usize;
                script.push(Item::Word(tok[..cut].to_string()));
                script.push(Item::Font(1));
                script.push(Item::Word(tok[cut..].to_string()));
                script.push(Item::Font(0));
            } else {
                script.push(Item::Word(tok));
            }
        }
        if rng.chance(1, 2) {
            script.extend(tail_items());
        }
        let exc = exceptions_for(&script, &mut rng, None);
        let (lh, rh) = hyphen_mins(i, &mut rng, extremes);
        emit(&Case { font: FontSpec::Cmr10, script, exc, lh, rh }, &mut font, &mut out, &mut st);
    }
    st.write(args, "text");
    0
}

// ------------------------------------------------------------------------------------------
// generator 2: synthetic fonts (PL text) whose programs involve the hyphen and the boundaries
// ------------------------------------------------------------------------------------------

fn synth_rule(rng: &mut Rng, bc: Option<u8>, level: u64) -> Rule {
    const LET: &[u8] = b"abcd";
    const RES: &[u8] = b"xy12a";
    let l = match rng.below(12) {
        0..=1 => None,
        2..=7 => Some(*rng.pick(LET)),
        8 => Some(b'x'),
        9 => Some(b'-'),
        10 => Some(*rng.pick(b".,(")),
        _ => Some(*rng.pick(b"y1")),
    };
    let r = match rng.below(12) {
        0..=5 => *rng.pick(LET),
        6..=7 => b'-',
        8..=9 => bc.unwrap_or(b'b'),
        10 => *rng.pick(b".,"),
        _ => *rng.pick(b"xy1"),
    };
    let op = if rng.chance(1, 3) {
        Op::Kern(rng.range(1, 40) as i32 * if rng.chance(1, 4) { -1 } else { 1 })
    } else if level == 0 {
        // the ligature forms real fonts use
        Op::Lig(*rng.pick(&[0usize, 0, 0, 1, 3]), *rng.pick(RES))
    } else {
        Op::Lig(rng.below(8) as usize, *rng.pick(RES))
    };
    Rule { l, r, op }
}

/// A program whose rules feed each other: every rule after the first is for the pair on which the
/// cursor stands after the previous rule was applied, so that one inseparable group contains several
/// nodes (a kern in the middle of a group, a ligature built in steps, a ligature followed by the
/// hyphen character's rule).  Returns the rules and a word that walks the chain.
fn chained_rules(rng: &mut Rng, level: u64) -> (Vec<Rule>, String) {
    const LET: &[u8] = b"abcd";
    const RES: &[u8] = b"xy12";
    const NEXT: &[u8] = b"abcd-abcd";
    let mut rules: Vec<Rule> = vec![];
    let (mut l, mut r) = (*rng.pick(LET), *rng.pick(LET));
    let mut word = String::new();
    word.push(l as char);
    word.push(r as char);
    for _ in 0..rng.range(2, 5) {
        if rules.iter().any(|q| q.l == Some(l) && q.r == r) {
            break;
        }
        let op = if rng.chance(1, 3) {
            Op::Kern(rng.range(1, 40) as i32 * if rng.chance(1, 4) { -1 } else { 1 })
        } else if level == 0 {
            Op::Lig(*rng.pick(&[0usize, 0, 1, 3, 5]), *rng.pick(RES))
        } else {
            Op::Lig(rng.below(8) as usize, *rng.pick(RES))
        };
        rules.push(Rule { l: Some(l), r, op: op.clone() });
        let mut next = |word: &mut String, rng: &mut Rng| {
            let c = *rng.pick(NEXT);
            word.push(c as char);
            c
        };
        (l, r) = match op {
            Op::Kern(_) => (r, next(&mut word, rng)),
            Op::Lig(form, res) => match form {
                0 => (res, next(&mut word, rng)), // a b -> x|
                1 | 5 => (l, res),               // cursor stays on the left character
                2 => (res, next(&mut word, rng)),
                3 | 6 => (res, r),
                _ => (r, next(&mut word, rng)),
            },
        };
    }
    (rules, word)
}

fn synth_word(rng: &mut Rng) -> String {
    let n = rng.range(1, 7);
    let mut s = String::new();
    if rng.chance(1, 8) {
        s.push(*rng.pick(b"(.") as char);
    }
    for _ in 0..n {
        let c = match rng.below(16) {
            0 => 'x',
            1 => 'A',
            2 => '-',
            _ => *rng.pick(b"abcd") as char,
        };
        s.push(c);
    }
    if rng.chance(1, 4) {
        s.push(*rng.pick(b".,-1") as char);
    }
    s
}

fn synth_cases(args: &Args) -> i32 {
    quiet_panics();
    start_watchdog(args);
    let seed: u64 = args.num("seed", 1);
    let n: u64 = args.num("n", 1000);
    let level: u64 = args.num("level", 1);
    let per_font: u64 = args.num("perfont", 6);
    let mut rng = Rng::new(seed ^ 0x14_0002);
    let mut out = Out::new(args.str("out"));
    let mut st = Stats::default();
    let mut i = 0u64;
    while st.events < n {
        let bc = match rng.below(4) {
            0 => None,
            1 => Some(b'd'), // a boundary character that also occurs in the text
            _ => Some(b'|'),
        };
        let nrules = rng.range(1, 5);
        let mut rules: Vec<Rule> = vec![];
        let mut chain_word: Option<String> = None;
        if rng.chance(2, 5) {
            let (rs, w) = chained_rules(&mut rng, level);
            rules = rs;
            chain_word = Some(w);
        }
        for _ in 0..if chain_word.is_some() { rng.range(0, 2) } else { nrules } {
            let r = synth_rule(&mut rng, bc, level);
            if !rules.iter().any(|q| q.l == r.l && q.r == r.r) {
                rules.push(r);
            }
        }
        let spec = FontSpec::Synth { bc, rules };
        let mut font = match load_font(&spec) {
            Ok(f) => f,
            Err(_) => {
                st.skipped_fonts += 1;
                continue;
            }
        };
        for _ in 0..per_font {
            i += 1;
            let mut script = vec![];
            if rng.chance(3, 4) {
                script.push(Item::Space);
            } else {
                script.push(Item::Word("a".into()));
                script.push(Item::Space);
            }
            let nw = rng.range(1, 3);
            for w in 0..nw {
                if w > 0 {
                    script.push(Item::Space);
                }
                match &chain_word {
                    Some(cw) if rng.chance(2, 3) => {
                        let mut wd = String::new();
                        for _ in 0..rng.below(3) {
                            wd.push(*rng.pick(b"abcd") as char);
                        }
                        wd.push_str(cw);
                        for _ in 0..rng.below(3) {
                            wd.push(*rng.pick(b"abcd") as char);
                        }
                        script.push(Item::Word(wd));
                    }
                    _ => script.push(Item::Word(synth_word(&mut rng))),
                }
            }
            if rng.chance(1, 2) {
                script.extend(tail_items());
            }
            let exc = exceptions_for(&script, &mut rng, None);
            let (lh, rh) = hyphen_mins(i, &mut rng, false);
            // most discretionaries need small minimums: the words are short
            let (lh, rh) = if rng.chance(1, 2) { (lh.min(1), rh.min(1)) } else { (lh, rh) };
            emit(&Case { font: spec.clone(), script, exc, lh, rh }, &mut font, &mut out, &mut st);
        }
    }
    st.write(args, "synth");
    0
}

// ------------------------------------------------------------------------------------------
// generator 3: every short sequence of the node kinds TeX's word search distinguishes
// ------------------------------------------------------------------------------------------

fn struct_token(t: usize, id: u32) -> Vec<Item> {
    let node = |v: Value| vec![Item::Node(v)];
    match t {
        0 => vec![Item::Space],
        1 => vec![Item::Word("mon".into())],
        2 => vec![Item::Word("fi".into())],
        3 => vec![Item::Word("AV".into())],
        4 => vec![Item::Word("3.".into())],
        5 => vec![Item::Font(1), Item::Word("nom".into()), Item::Font(0)],
        6 => node(json!({"k":"kern","w":1000 + id,"x":1})),
        7 => node(json!({"k":"pen","p":50 + id})),
        8 => node(json!({"k":"rule","w":100 + id,"h":10,"d":0})),
        9 => node(json!({"k":"what","id":id})),
        // math-off only: glue between math-on and math-off starts no search in TeX (866 auto_breaking); the
        // pass does not know about formulas (ds::Math is documented as incomplete), outside the property
        10 => node(json!({"k":"math","m":1})),
        11 => node(json!({"k":"disc"})),
        12 => vec![Item::Word("(".into())],
        13 => node(json!({"k":"mark"})),
        14 => node(json!({"k":"ins","b":id % 200})),
        15 => node(json!({"k":"adjust"})),
        16 => node(json!({"k":"hbox","w":200 + id})),
        17 => node(json!({"k":"kern","w":2000 + id,"x":2})),
        // (a raw kern of kind Normal is not generated: in text a Normal kern comes from the font program only,
        // and TeX itself drops any other one when it rebuilds the word)
        _ => node(json!({"k":"vbox","w":300 + id})),
    }
}

fn struct_cases(args: &Args) -> i32 {
    quiet_panics();
    start_watchdog(args);
    let maxlen: usize = args.num("maxlen", 3);
    let ntok: usize = args.num("tokens", 13);
    let lead: usize = args.num("lead", 1);
    let mut out = Out::new(args.str("out"));
    let mut st = Stats::default();
    let mut font = load_font(&FontSpec::Cmr10).expect("cmr10");
    let mut rng = Rng::new(0x14_0003);
    let mins: Vec<(i32, i32)> = args
        .str("mins")
        .unwrap_or("1:1")
        .split(',')
        .map(|s| {
            let (a, b) = s.split_once(':').unwrap();
            (a.parse().unwrap(), b.parse().unwrap())
        })
        .collect();
    for len in 1..=maxlen {
        let total = ntok.pow(len as u32);
        for codeword in 0..total {
            let mut idx = vec![0usize; len];
            let mut c = codeword;
            for k in (0..len).rev() {
                idx[k] = c % ntok;
                c /= ntok;
            }
            // script: [a word and a glue] then the tokens
            let mut flat: Vec<Item> = vec![];
            if lead == 1 {
                flat.push(Item::Word("x".into()));
                flat.push(Item::Space);
            }
            for (k, t) in idx.iter().enumerate() {
                flat.extend(struct_token(*t, k as u32 + 1));
            }
            // font switches that cancel are dropped; adjacent pieces of text in one font are one word
            let mut script: Vec<Item> = vec![];
            for it in flat {
                match (&it, script.last_mut()) {
                    (Item::Font(1), Some(Item::Font(0))) => {
                        script.pop();
                    }
                    (Item::Word(w), Some(Item::Word(prev))) => prev.push_str(w),
                    _ => script.push(it),
                }
            }
            let exc = exceptions_for(&script, &mut rng, Some(1));
            for (lh, rh) in &mins {
                emit(&Case { font: FontSpec::Cmr10, script: script.clone(), exc: exc.clone(), lh: *lh, rh: *rh }, &mut font, &mut out, &mut st);
            }
        }
    }
    st.write(args, "struct");
    0
}

// ------------------------------------------------------------------------------------------
// generator 4: the inputs of the repository's own unit tests (boxworks-hyphenate/src/lib.rs)
// ------------------------------------------------------------------------------------------

/// (hyphenated input, compact lig/kern program, exceptions (None = the input), left_hyphen_min)
const UNIT: &[(&str, &str, Option<&str>, i32)] = &[
    ("mint", "", None, 1),
    ("a-b", "", None, 1),
    ("a-b", "ab -> axb^", None, 1),
    ("a-b", "a- -> ax-^", None, 1),
    ("a-b", "a- -> ax-^\nab -> ac^_", None, 1),
    ("a-b", "|b -> |c^_", None, 1),
    ("a-b", "|d -> |c^_", None, 1),
    ("a-b", "|- -> |c^_", None, 1),
    ("ab-c", "bc -> _z^_\n|b -> |d^_", None, 1),
    ("abc-d", "ab -> ax^_\nxc -> _y^_\nyd -> _z^_", None, 1),
    ("a-b", "-| -> -c^|", None, 1),
    ("a-bc", "ab -> _x^_\nxc -> _y^_", None, 1),
    ("a-bc", "ab -> _x^_\nxc -> _y^_\nbc -> _z^_", None, 1),
    ("ab-c", "ab -> _x^_\nxc -> _y^_", None, 1),
    ("ab-c", "ab -> ax^_", None, 1),
    ("ab-c", "ab -> ax^_\nx- -> xy^-", None, 1),
    ("ab-c", "ab -> ax^b\nx- -> xy^-", None, 1),
    ("a-b", "ab -> ax^b", None, 1),
    ("a-b", "ab -> a[100]b", None, 1),
    ("a-b", "ab -> a[100]b\na- -> a[100]-", None, 1),
    ("a-bcdefgh", "ab -> _x^_\nbc -> _y^_\ncd -> _z^_\nde -> _w^_\nef -> _v^_", None, 1),
    ("a-bcd-ef-gh", "ab -> _x^_\nbc -> _y^_\ncd -> _z^_\nde -> _w^_\nef -> _v^_", None, 1),
    ("a-bcde", "ab -> _x^_\nbc -> _y^_\nxc -> _y^_\nyd -> yzd^", None, 1),
    ("baby,", "y, -> y[100],\ny| -> y[200]|", Some("baby"), 1),
    ("baby,", "y, -> y[100],\ny| -> y[200]|", Some("ba-by"), 1),
    ("ba-by", "y| -> y.^|", None, 1),
    ("ab.", "|b -> |c^_\nc. -> c,^_", Some("a-b"), 1),
    ("journey.", "y. -> y^,_\n,| -> ,?^|", Some("jour-ney"), 1),
    ("journey.", "y. -> y^,_\ny, -> y^?_", Some("jour-ney"), 1),
    ("journey.", "y. -> y,^_", Some("jour-ney"), 1),
    ("journey.", "y. -> y^,_\ny, -> y^?,", Some("jour-ney"), 1),
    ("sneezing", "y. -> y^,_\ny, -> y^?,", Some("sneez-ing"), 3),
    ("d-if-fi-cult", "ff -> _0^_\n0i -> _1^_", None, 3),
];

/// fixed cases for each recorded deviation and for the situations the property names, so that every tier
/// meets them whatever the seed: (text with `-` = permitted positions and `--` = a real hyphen, compact rules, lh, rh)
const FIXED: &[(&str, &str, i32, i32)] = &[
    ("x a-b", "|a -> |[50]a", 1, 1),                          // left-boundary kern
    ("x ab", "|a -> |[50]a", 1, 1),                           // ... in a word without permitted position
    ("x a-b", "|a -> |c^a", 1, 1),                            // boundary-only ligature
    ("x (a-b", "|a -> |[50]a", 1, 1),                         // punctuation before the word
    ("x (a-b", "|a -> _z^_", 1, 1),
    ("x (a-b", "(a -> ([70]a", 1, 1),
    ("x (ab-c", "(a -> _z^_\nzb -> z[30]b\n|b -> |[44]b", 1, 1),
    ("x (d-a", "(d -> (a^_", 1, 1),                           // ligature with the left context
    ("x a-bc", "ab -> _x^_\nbc -> _z^_\nc| -> _w^_", 1, 1),   // right-boundary ligature rebuilt while synchronising
    ("x a-bc", "ab -> _x^_\nbc -> _z^_\nc| -> c[77]|", 1, 1),
    ("x d--ac-bad", "d- -> _2^_", 1, 1),                      // ligature letter + hyphen starts a word
    ("x jour-ney.", "y. -> y^,_\n,| -> ,?^|", 1, 1),          // ligature with the character after the word
    ("x journey.", "y. -> y^,_\n,| -> ,?^|", 1, 1),
    ("x b, a-b", "b, -> _1^,", 1, 1),
    ("x a-b-c-d", "a- -> a[10]-\nb- -> _x^-\nc- -> cy^-\n-| -> -[5]|\n|d -> |[7]d", 1, 1), // hyphen and boundaries
    ("x a-b-c-d", "ab -> a[10]b\nbc -> _x^_\nxd -> _y^_", 1, 1),
    ("x a-b-c-d", "ab -> a[10]b\nbc -> _x^_\nxd -> _y^_", 2, 2),
    ("x ab-cd", "", 3, 0),
    ("x ab-cd", "", 0, 3),
];

fn fixed_cases(out: &mut Out, st: &mut Stats) {
    for (text, prog, lh, rh) in FIXED {
        let (bc, rules) = compact_rules(&prog.replace("\\n", "\n"));
        let spec = FontSpec::Synth { bc, rules };
        let mut font = load_font(&spec).expect("fixed-case font");
        let (plain, exc) = marked_text(text);
        for tail in [false, true] {
            let mut script = script_from_text(&plain);
            if tail {
                script.extend(tail_items());
            }
            emit(&Case { font: spec.clone(), script, exc: exc.clone(), lh: *lh, rh: *rh }, &mut font, out, st);
        }
    }
}

/// "x dif-fi-cult well--known": hyphens mark the permitted positions of each run of letters, a doubled hyphen is
/// a real hyphen character.  Returns the plain text and the exceptions.
fn marked_text(text: &str) -> (String, BTreeMap<String, Vec<usize>>) {
    let mut exc = BTreeMap::new();
    let mut plain = String::new();
    for tok in text.split(' ') {
        let marked = tok.replace("--", "\u{1}");
        let mut pos = vec![];
        let mut w = String::new();
        let mut run = String::new();
        let mut flush = |run: &mut String, pos: &mut Vec<usize>| {
            if !run.is_empty() {
                exc.insert(run.to_ascii_lowercase(), std::mem::take(pos));
                run.clear();
            }
        };
        for c in marked.chars() {
            match c {
                '-' => pos.push(run.len()),
                '\u{1}' => {
                    flush(&mut run, &mut pos);
                    w.push('-');
                }
                c if c.is_ascii_alphabetic() => {
                    run.push(c);
                    w.push(c);
                }
                c => {
                    flush(&mut run, &mut pos);
                    w.push(c);
                }
            }
        }
        flush(&mut run, &mut pos);
        if !plain.is_empty() || tok.is_empty() {
            plain.push(' ');
        }
        plain.push_str(&w);
    }
    (plain, exc)
}

fn compact_rules(src: &str) -> (Option<u8>, Vec<Rule>) {
    use tfm::ligkern::lang::{Operation, PostLigOperation::*};
    let mut rules = vec![];
    let mut bc = None;
    for line in src.lines().map(|l| l.trim()).filter(|l| !l.is_empty()) {
        let (l, r, op) = Operation::parse_compact(line).expect("compact rule");
        if r == '|' {
            bc = Some(b'|');
        }
        let op = match op {
            Operation::Kern(k) => Op::Kern(k.0),
            Operation::Ligature { char_to_insert, post_lig_operation, .. } => Op::Lig(
                match post_lig_operation {
                    RetainNeitherMoveToInserted => 0,
                    RetainLeftMoveNowhere => 1,
                    RetainLeftMoveToInserted => 2,
                    RetainRightMoveToInserted => 3,
                    RetainRightMoveToRight => 4,
                    RetainBothMoveNowhere => 5,
                    RetainBothMoveToInserted => 6,
                    RetainBothMoveToRight => 7,
                },
                char_to_insert.0,
            ),
            _ => panic!("unsupported compact operation"),
        };
        rules.push(Rule { l: l.map(|c| c as u8), r: r as u8, op });
    }
    (bc, rules)
}

fn unit_cases(args: &Args) -> i32 {
    quiet_panics();
    start_watchdog(args);
    let mut out = Out::new(args.str("out"));
    let mut st = Stats::default();
    for (input, prog, exc_src, lh) in UNIT {
        let (bc, rules) = compact_rules(prog);
        // the unit tests keep cmr10's metrics and replace its program; kerns there are raw FixWords,
        // here they are thousandths of the design size -- only their identity matters
        let spec = FontSpec::Synth { bc, rules };
        let mut font = load_font(&spec).expect("unit-test font");
        let word: String = input.chars().filter(|c| *c != '-').collect();
        let hyph = exc_src.unwrap_or(input);
        let mut exc = BTreeMap::new();
        for h in hyph.split_ascii_whitespace() {
            let w: String = h.chars().filter(|c| *c != '-').collect();
            let mut pos = vec![];
            let mut n = 0;
            for c in h.chars() {
                if c == '-' {
                    pos.push(n);
                } else {
                    n += 1;
                }
            }
            exc.insert(w, pos);
        }
        for tail in [false, true] {
            let mut script = vec![Item::Word("x".into()), Item::Space, Item::Word(word.clone())];
            if tail {
                script.extend(tail_items());
            }
            emit(&Case { font: spec.clone(), script, exc: exc.clone(), lh: *lh, rh: 1 }, &mut font, &mut out, &mut st);
        }
    }
    fixed_cases(&mut out, &mut st);
    st.write(args, "unit");
    0
}

// ------------------------------------------------------------------------------------------
// replay and probe
// ------------------------------------------------------------------------------------------

fn replay(args: &Args) -> i32 {
    quiet_panics();
    start_watchdog(args);
    let src = std::fs::read_to_string(args.req("in")).unwrap();
    let mut out = Out::new(args.str("out"));
    let mut st = Stats::default();
    for line in src.lines().filter(|l| !l.trim().is_empty()) {
        let e: Value = serde_json::from_str(line).unwrap();
        let case = case_from_event(&e);
        let mut font = load_font(&case.font).expect("font of the recorded event");
        *CURRENT.lock().unwrap() = Some((std::time::Instant::now(), case_json(&case).to_string()));
        let ran = run_case(&case, &mut font);
        *CURRENT.lock().unwrap() = None;
        eprintln!("before: {}", show(&ran.before));
        match &ran.after {
            Ok(a) => eprintln!("after:  {}", show(a)),
            Err(p) => eprintln!("panic:  {:?}", p),
        }
        let ev = event(&case, &ran);
        st.record(&ran, &ev);
        out.line(&ev);
    }
    0
}

fn show_char(c: char) -> String {
    if c.is_ascii_graphic() {
        c.to_string()
    } else {
        format!("<{}>", c as u32)
    }
}

fn show(l: &[ds::Horizontal]) -> String {
    let mut s = String::new();
    for n in l {
        use ds::Horizontal::*;
        match n {
            Char(c) => s.push_str(&format!("{}{} ", show_char(c.char), if c.font != 0 { format!("@{}", c.font) } else { String::new() })),
            Ligature(l) => s.push_str(&format!(
                "lig({}{}<{}{}{}>) ",
                show_char(l.char),
                if l.font != 0 { format!("@{}", l.font) } else { String::new() },
                if l.includes_left_boundary { "|" } else { "" },
                l.original_chars,
                if l.includes_right_boundary { "|" } else { "" }
            )),
            Kern(k) => s.push_str(&format!("kern{}({}) ", match k.kind { ds::KernKind::Normal => "", _ => "!" }, k.width.0)),
            Glue(_) => s.push_str("GLUE "),
            Penalty(p) => s.push_str(&format!("pen({}) ", p.0)),
            Discretionary(d) => {
                let pre: Vec<ds::Horizontal> = d.pre_break.iter().map(|e| e.clone().into()).collect();
                let post: Vec<ds::Horizontal> = d.post_break.iter().map(|e| e.clone().into()).collect();
                s.push_str(&format!("DISC[{}|{}|{}] ", show(&pre).trim(), show(&post).trim(), d.replace_count));
            }
            other => s.push_str(&format!("{} ", node_json(other)["k"].as_str().unwrap())),
        }
    }
    s
}

/// `vh c14-probe text="x dif-fi-cult" [rules="ab -> a[13]b;..."] [lh=1 rh=1] [tail=1]`: hyphens in the text are the
/// permitted positions (a doubled hyphen `--` is a real hyphen character)
fn probe(args: &Args) -> i32 {
    quiet_panics();
    let text = args.req("text");
    let spec = match args.str("rules") {
        None => FontSpec::Cmr10,
        Some(r) => {
            let (bc, rules) = compact_rules(&r.replace(';', "\n"));
            let bc = match args.str("bc") {
                Some(b) => Some(b.as_bytes()[0]),
                None => bc,
            };
            FontSpec::Synth { bc, rules }
        }
    };
    let mut font = load_font(&spec).expect("font");
    let (plain, exc) = marked_text(text);
    let mut script = script_from_text(&plain);
    if args.num("tail", 0) == 1 {
        script.extend(tail_items());
    }
    let case = Case { font: spec, script, exc, lh: args.num("lh", 1), rh: args.num("rh", 1) };
    let ran = run_case(&case, &mut font);
    println!("exceptions: {:?}", case.exc);
    println!("before: {}", show(&ran.before));
    match &ran.after {
        Ok(a) => println!("after:  {}", show(a)),
        Err(p) => println!("panic:  {:?}", p),
    }
    if let Some(p) = args.str("out") {
        let mut out = Out::new(Some(p));
        out.line(&event(&case, &ran));
    }
    0
}
