//! Loader for labelled transition systems dumped by TLC (one JSON object per transition:
//! `{"f": <abstract state>, "o": {"k": <action>, ...args, "res": <expected result>}, "t": <abstract state>}`).
//! The table is only ever *indexed*; no specification logic is re-implemented here.
use serde_json::Value;
use std::collections::HashMap;
use std::io::BufRead;

pub struct Lts {
    pub states: Vec<Value>,
    pub index: HashMap<String, usize>,
    pub ops: Vec<Value>,
    pub op_index: HashMap<String, usize>,
    /// edges[state][op] = (target state, expected result)
    pub edges: Vec<Vec<Option<(u32, Value)>>>,
    pub init: usize,
    pub n_edges: usize,
}

impl Lts {
    pub fn load(path: &str) -> Lts {
        let f = std::fs::File::open(path).unwrap_or_else(|e| {
            eprintln!("cannot open LTS {path}: {e}");
            std::process::exit(2)
        });
        let mut lts = Lts {
            states: vec![],
            index: HashMap::new(),
            ops: vec![],
            op_index: HashMap::new(),
            edges: vec![],
            init: 0,
            n_edges: 0,
        };
        let mut raw: Vec<(usize, usize, usize, Value)> = vec![];
        for line in std::io::BufReader::new(f).lines() {
            let line = line.unwrap();
            if line.is_empty() {
                continue;
            }
            let mut v: Value = serde_json::from_str(&line).expect("LTS line");
            let f = lts.state_id(v["f"].take());
            let t = lts.state_id(v["t"].take());
            let mut o = v["o"].take();
            let res = o
                .as_object_mut()
                .and_then(|m| m.remove("res"))
                .unwrap_or(Value::Null);
            let ok = serde_json::to_string(&o).unwrap();
            let oi = match lts.op_index.get(&ok) {
                Some(i) => *i,
                None => {
                    lts.ops.push(o);
                    lts.op_index.insert(ok, lts.ops.len() - 1);
                    lts.ops.len() - 1
                }
            };
            raw.push((f, oi, t, res));
        }
        lts.edges = vec![vec![None; lts.ops.len()]; lts.states.len()];
        for (f, oi, t, res) in raw {
            if let Some((t0, r0)) = &lts.edges[f][oi] {
                if *t0 as usize != t || *r0 != res {
                    eprintln!("LTS is not deterministic at state {f} op {oi}");
                    std::process::exit(2);
                }
            } else {
                lts.n_edges += 1;
            }
            lts.edges[f][oi] = Some((t as u32, res));
        }
        lts
    }

    fn state_id(&mut self, s: Value) -> usize {
        let k = serde_json::to_string(&s).unwrap();
        match self.index.get(&k) {
            Some(i) => *i,
            None => {
                self.states.push(s);
                self.index.insert(k, self.states.len() - 1);
                self.states.len() - 1
            }
        }
    }
}
