//! C16: DVI codec (dvi::serialize / dvi::Op::deserialize) and transforms::VarRemover.
//!
//! Subcommands
//!   c16-walk   lts=<table> maxlen=L out=F      binding R: every op history up to length L over the
//!                                               table's alphabet through the real VarRemover; the
//!                                               expected output op of each step is *looked up* in the
//!                                               TLC-generated table (never computed here).
//!   c16-trace  seed= n= len= out=F              binding T: long random op streams through VarRemover
//!                                               and dvi::Values, one event per op.
//!   c16-codec  seed= n= reps= out=F             binding F: serialize/deserialize call events
//!                                               (fn = "rt" | "dec").
//!   c16-pipe   seed= n= out=F                   binding F: whole-stream events (fn = "rv" | "pipe")
//!                                               with unrestricted 32-bit operands.
//!   c16-replay in=<replay.json>                 re-run one recorded case on the real code.
//!
//! JSON shape of an op = the TLA+ record of specs/DviEnc.tla: {"k": kind, ...}; unsigned 32-bit
//! values are [hi16, lo16], signed ones plain integers, strings / payloads arrays of bytes.
use crate::lts::Lts;
use crate::util::{catch, quiet_panics, Args, Out, Rng};
use dvi::transforms::VarRemover;
use dvi::{InvalidDviData, Op, Values, Var};
use serde_json::{json, Value};

pub fn dispatch(cmd: &str, args: &Args) -> Option<i32> {
    Some(match cmd {
        "c16-walk" => walk(args),
        "c16-trace" => trace(args),
        "c16-codec" => codec(args),
        "c16-pipe" => pipe(args),
        "c16-replay" => replay(args),
        _ => return None,
    })
}

// ------------------------------------------------------------------------------------------
// Op <-> JSON
// ------------------------------------------------------------------------------------------
fn u(v: u32) -> Value {
    json!([v >> 16, v & 0xffff])
}
fn bytes_json(b: &[u8]) -> Value {
    Value::Array(b.iter().map(|x| json!(*x)).collect())
}
fn var_no(v: Var) -> u8 {
    v as u8
}
fn var_of(n: u64) -> Var {
    match n {
        0 => Var::W,
        1 => Var::X,
        2 => Var::Y,
        3 => Var::Z,
        _ => panic!("bad var {n}"),
    }
}

pub fn op_json(op: &Op) -> Value {
    match op {
        Op::TypesetChar { char, move_h } => json!({"k":"char","c":u(*char),"mv":move_h}),
        Op::TypesetRule { height, width, move_h } => {
            json!({"k":"rule","ht":height,"wd":width,"mv":move_h})
        }
        Op::NoOp => json!({"k":"nop"}),
        Op::BeginPage { parameters, previous_begin_page } => {
            json!({"k":"bop","p":parameters.to_vec(),"prev":previous_begin_page})
        }
        Op::EndPage => json!({"k":"eop"}),
        Op::Push => json!({"k":"push"}),
        Op::Pop => json!({"k":"pop"}),
        Op::Right(d) => json!({"k":"right","d":d}),
        Op::Move(v) => json!({"k":"move","var":var_no(*v)}),
        Op::SetVar(v, d) => json!({"k":"setvar","var":var_no(*v),"d":d}),
        Op::Down(d) => json!({"k":"down","d":d}),
        Op::EnableFont(n) => json!({"k":"font","n":u(*n)}),
        Op::Extension(data) => json!({"k":"xxx","data":bytes_json(data)}),
        Op::DefineFont { number, checksum, at_size, design_size, area, name } => json!({
            "k":"fontdef","n":u(*number),"ck":u(*checksum),"at":u(*at_size),"ds":u(*design_size),
            "area":bytes_json(area.as_bytes()),"name":bytes_json(name.as_bytes())}),
        Op::Preamble { dvi_format, unit_numerator, unit_denominator, magnification, comment } => json!({
            "k":"pre","fmt":dvi_format,"num":u(*unit_numerator),"den":u(*unit_denominator),
            "mag":u(*magnification),"comment":bytes_json(comment.as_bytes())}),
        Op::BeginPostamble {
            final_begin_page,
            unit_numerator,
            unit_denominator,
            magnification,
            largest_height,
            largest_width,
            max_stack_depth,
            num_pages,
        } => json!({
            "k":"post","last":final_begin_page,"num":u(*unit_numerator),"den":u(*unit_denominator),
            "mag":u(*magnification),"ht":u(*largest_height),"wd":u(*largest_width),
            "depth":max_stack_depth,"pages":num_pages}),
        Op::EndPostamble { postamble, dvi_format, num_223_bytes } => {
            json!({"k":"postpost","post":postamble,"fmt":dvi_format,"n223":num_223_bytes})
        }
    }
}

fn ju(v: &Value) -> u32 {
    let a = v.as_array().expect("u32 pair");
    ((a[0].as_u64().unwrap() as u32) << 16) | a[1].as_u64().unwrap() as u32
}
fn ji(v: &Value) -> i32 {
    v.as_i64().expect("i32") as i32
}
fn jbytes(v: &Value) -> Vec<u8> {
    v.as_array().expect("bytes").iter().map(|x| x.as_u64().unwrap() as u8).collect()
}
fn jstring(v: &Value) -> String {
    String::from_utf8(jbytes(v)).expect("utf-8 string in replayed op")
}

pub fn op_of(v: &Value) -> Op {
    match v["k"].as_str().expect("op kind") {
        "char" => Op::TypesetChar { char: ju(&v["c"]), move_h: v["mv"].as_bool().unwrap() },
        "rule" => Op::TypesetRule {
            height: ji(&v["ht"]),
            width: ji(&v["wd"]),
            move_h: v["mv"].as_bool().unwrap(),
        },
        "nop" => Op::NoOp,
        "bop" => {
            let mut parameters = [0i32; 10];
            if let Some(p) = v.get("p").and_then(|p| p.as_array()) {
                for (i, x) in p.iter().enumerate() {
                    parameters[i] = ji(x);
                }
            }
            Op::BeginPage {
                parameters,
                previous_begin_page: v.get("prev").map(ji).unwrap_or(-1),
            }
        }
        "eop" => Op::EndPage,
        "push" => Op::Push,
        "pop" => Op::Pop,
        "right" => Op::Right(ji(&v["d"])),
        "down" => Op::Down(ji(&v["d"])),
        "move" => Op::Move(var_of(v["var"].as_u64().unwrap())),
        "setvar" => Op::SetVar(var_of(v["var"].as_u64().unwrap()), ji(&v["d"])),
        "font" => Op::EnableFont(ju(&v["n"])),
        "xxx" => Op::Extension(jbytes(&v["data"])),
        "fontdef" => Op::DefineFont {
            number: ju(&v["n"]),
            checksum: ju(&v["ck"]),
            at_size: ju(&v["at"]),
            design_size: ju(&v["ds"]),
            area: jstring(&v["area"]),
            name: jstring(&v["name"]),
        },
        "pre" => Op::Preamble {
            dvi_format: v["fmt"].as_u64().unwrap() as u8,
            unit_numerator: ju(&v["num"]),
            unit_denominator: ju(&v["den"]),
            magnification: ju(&v["mag"]),
            comment: jstring(&v["comment"]),
        },
        "post" => Op::BeginPostamble {
            final_begin_page: ji(&v["last"]),
            unit_numerator: ju(&v["num"]),
            unit_denominator: ju(&v["den"]),
            magnification: ju(&v["mag"]),
            largest_height: ju(&v["ht"]),
            largest_width: ju(&v["wd"]),
            max_stack_depth: v["depth"].as_u64().unwrap() as u16,
            num_pages: v["pages"].as_u64().unwrap() as u16,
        },
        "postpost" => Op::EndPostamble {
            postamble: ji(&v["post"]),
            dvi_format: v["fmt"].as_u64().unwrap() as u8,
            num_223_bytes: v["n223"].as_u64().unwrap() as usize,
        },
        k => panic!("unknown op kind {k}"),
    }
}

fn ops_json(ops: &[Op]) -> Value {
    Value::Array(ops.iter().map(op_json).collect())
}

fn err_json(r: &Result<(), InvalidDviData>) -> Value {
    match r {
        Ok(()) => json!(["ok"]),
        Err(InvalidDviData::InvalidOpCode(c)) => json!(["invalid", c]),
        Err(InvalidDviData::Truncated(c)) => json!(["truncated", c]),
    }
}

// ------------------------------------------------------------------------------------------
// the code under test, wrapped so that a panic is data
// ------------------------------------------------------------------------------------------

/// Run the real VarRemover over `ops`, one `next()` at a time.  Returns the ops produced and the
/// panic (site, message) if one happened.
fn run_remover(ops: &[Op]) -> (Vec<Op>, Option<(String, String)>) {
    let mut it = VarRemover::new(ops.to_vec());
    let mut out = vec![];
    loop {
        match catch(|| it.next()) {
            Ok(Some(op)) => out.push(op),
            Ok(None) => return (out, None),
            Err(p) => return (out, Some(p)),
        }
    }
}

/// Deserialize with the public one-op API so that the unconsumed tail is observable.
fn run_decode(b: &[u8]) -> Result<(Vec<Op>, Result<(), InvalidDviData>, usize), (String, String)> {
    catch(|| {
        let mut ops = vec![];
        let mut rest = b;
        loop {
            match Op::deserialize(rest) {
                Ok(None) => return (ops, Ok(()), rest.len()),
                Ok(Some((op, tail))) => {
                    ops.push(op);
                    rest = tail;
                }
                Err(e) => return (ops, Err(e), rest.len()),
            }
        }
    })
}

/// The iterator API must agree with the one-op API (it is what dvitools uses).
fn run_decode_iter(b: &[u8]) -> Result<(Vec<Op>, Result<(), InvalidDviData>), (String, String)> {
    catch(|| {
        let mut result = Ok(());
        let ops: Vec<Op> = dvi::Deserializer::new(b, &mut result).collect();
        (ops, result)
    })
}

// ------------------------------------------------------------------------------------------
// binding R: table walk
// ------------------------------------------------------------------------------------------
fn walk(args: &Args) -> i32 {
    quiet_panics();
    let lts = Lts::load(args.req("lts"));
    let maxlen: usize = args.num("maxlen", 4);
    let mut out = Out::new(args.str("out"));
    let ops: Vec<Op> = lts.ops.iter().map(op_of).collect();
    // the initial state is the one with zero variables and an empty stack
    let init_key = serde_json::to_string(&json!({"stack":[],"vars":[0,0,0,0]})).unwrap();
    let init = match lts.index.get(&init_key) {
        Some(i) => *i,
        None => {
            eprintln!("initial state not in the table");
            return 2;
        }
    };
    struct W<'a> {
        lts: &'a Lts,
        ops: &'a [Op],
        nodes: u64,
        leaves: u64,
        checked: u64,
        with_var: u64,
        violations: Vec<Value>,
        sample: Option<Value>,
    }
    impl<'a> W<'a> {
        fn check(&mut self, hist: &[usize], path: &[usize]) {
            let input: Vec<Op> = hist.iter().map(|i| self.ops[*i].clone()).collect();
            let (got, panic) = run_remover(&input);
            self.checked += 1;
            let mut err = None;
            if let Some((site, msg)) = panic {
                err = Some(format!("panic at {site}: {msg}"));
            } else if got.len() != input.len() {
                err = Some(format!("{} ops in, {} ops out", input.len(), got.len()));
            } else {
                for (i, g) in got.iter().enumerate() {
                    let (_, res) = self.lts.edges[path[i]][hist[i]].as_ref().unwrap();
                    let want = op_of(res);
                    if *g != want {
                        err = Some(format!(
                            "output op {} is {}, the table says {}",
                            i + 1,
                            op_json(g),
                            res
                        ));
                        break;
                    }
                }
            }
            if let Some(e) = err {
                if self.violations.len() < 10 {
                    self.violations.push(json!({
                        "kind":"violation","part":"walk","error":e,
                        "history": ops_json(&input), "got": ops_json(&got)}));
                }
            }
        }
        fn dfs(&mut self, hist: &mut Vec<usize>, path: &mut Vec<usize>, left: usize) {
            let st = *path.last().unwrap();
            let mut extended = false;
            if left > 0 {
                for oi in 0..self.ops.len() {
                    let t = match &self.lts.edges[st][oi] {
                        Some((t, _)) => *t as usize,
                        None => continue, // beyond the depth bound of the table
                    };
                    extended = true;
                    hist.push(oi);
                    path.push(t);
                    self.nodes += 1;
                    self.dfs(hist, path, left - 1);
                    hist.pop();
                    path.pop();
                }
            }
            if !extended && !hist.is_empty() {
                // maximal history: its output covers every prefix
                self.leaves += 1;
                if hist.iter().any(|i| matches!(self.ops[*i], Op::Move(_) | Op::SetVar(..))) {
                    self.with_var += 1;
                }
                if self.sample.is_none() && self.leaves == 77_777 % (self.ops.len() as u64).pow(3).max(2) {
                    self.sample = Some(ops_json(&hist.iter().map(|i| self.ops[*i].clone()).collect::<Vec<_>>()));
                }
                self.check(hist, path);
            }
        }
    }
    // partition the histories by their first op over `threads` workers (deterministic)
    let threads: usize = args.num("threads", 4).max(1);
    let first: Vec<usize> = (0..ops.len()).filter(|oi| lts.edges[init][*oi].is_some()).collect();
    let results: Vec<(u64, u64, u64, Vec<Value>, Option<Value>)> = std::thread::scope(|sc| {
        let hs: Vec<_> = (0..threads)
            .map(|ti| {
                let (lts, ops, first) = (&lts, &ops, &first);
                sc.spawn(move || {
                    quiet_panics();
                    let mut w = W {
                        lts,
                        ops,
                        nodes: 0,
                        leaves: 0,
                        checked: 0,
                        with_var: 0,
                        violations: vec![],
                        sample: None,
                    };
                    for (j, oi) in first.iter().enumerate() {
                        if j % threads != ti {
                            continue;
                        }
                        let t = lts.edges[init][*oi].as_ref().unwrap().0 as usize;
                        w.nodes += 1;
                        w.dfs(&mut vec![*oi], &mut vec![init, t], maxlen.saturating_sub(1));
                    }
                    (w.nodes, w.leaves, w.with_var, w.violations, w.sample)
                })
            })
            .collect();
        hs.into_iter().map(|h| h.join().expect("walker thread")).collect()
    });
    let (mut nodes, mut leaves, mut with_var, mut sample) = (0, 0, 0, None);
    for (n, l, wv, viol, s) in results {
        nodes += n;
        leaves += l;
        with_var += wv;
        for v in viol.iter().take(4) {
            out.line(v);
        }
        if sample.is_none() {
            sample = s;
        }
    }
    out.line(&json!({
        "kind":"summary","part":"walk","maxlen":maxlen,"nodes":nodes,"histories":leaves,
        "with_var_op":with_var,"lts_states":lts.states.len(),"lts_edges":lts.n_edges,
        "alphabet":ops.len(),"sample":sample}));
    0
}

// ------------------------------------------------------------------------------------------
// generators (inputs only -- no expected values are computed here)
// ------------------------------------------------------------------------------------------
const I_BOUNDS: [i64; 9] = [0, 1 << 7, 1 << 15, 1 << 23, (1 << 31) - 1, -(1 << 7), -(1 << 15), -(1 << 23), -(1 << 31)];

/// a signed operand near a width boundary, or uniformly inside a width class
fn gen_i32(r: &mut Rng) -> i32 {
    let v: i64 = match r.below(4) {
        0 => *r.pick(&I_BOUNDS) + r.range(-2, 2),
        1 => r.range(-130, 130),
        2 => {
            let bits = r.range(1, 31) as u32;
            let m = r.below(1u64 << bits) as i64;
            if r.chance(1, 2) {
                m
            } else {
                -m - 1
            }
        }
        _ => *r.pick(&I_BOUNDS),
    };
    v.clamp(i32::MIN as i64, i32::MAX as i64) as i32
}

const U_BOUNDS: [u64; 9] = [0, 64, 128, 256, 1 << 16, 1 << 24, 1 << 31, (1 << 32) - 1, 223];

fn gen_u32(r: &mut Rng) -> u32 {
    let v: i64 = match r.below(4) {
        0 => *r.pick(&U_BOUNDS) as i64 + r.range(-2, 2),
        1 => r.range(0, 300),
        2 => {
            let bits = r.range(1, 32) as u32;
            r.below(1u64 << bits) as i64
        }
        _ => *r.pick(&U_BOUNDS) as i64,
    };
    v.clamp(0, u32::MAX as i64) as u32
}

/// a string of at most `max` bytes: ASCII, or valid multi-byte UTF-8
fn gen_string(r: &mut Rng, max: usize) -> String {
    let target = match r.below(6) {
        0 => 0,
        1 => max,
        2 => max.saturating_sub(1),
        3 => r.below(6) as usize,
        _ => r.below(max as u64 + 1) as usize,
    };
    let mut s = String::new();
    let multi = r.chance(1, 3);
    while s.len() < target {
        let c = if multi && r.chance(1, 3) {
            *r.pick(&['é', 'ß', '€', '𝕏', '\u{7ff}', '\u{800}', '\u{ffff}'])
        } else {
            (r.range(0, 127) as u8) as char
        };
        if s.len() + c.len_utf8() > target {
            if s.len() + 1 <= target {
                s.push('a');
            }
            continue;
        }
        s.push(c);
    }
    s
}

fn gen_payload(r: &mut Rng) -> Vec<u8> {
    let len = match r.below(8) {
        0 => 0,
        1 => 255,
        2 => 256,
        3 => r.range(1, 4) as usize,
        4 => r.range(250, 300) as usize,
        _ => r.below(40) as usize,
    };
    (0..len).map(|_| if r.chance(1, 6) { 223 } else { r.below(256) as u8 }).collect()
}

fn gen_var(r: &mut Rng) -> Var {
    var_of(r.below(4))
}

/// any op of the format, operands over the full 32-bit range
fn gen_op(r: &mut Rng) -> Op {
    match r.below(19) {
        0 | 1 => Op::TypesetChar { char: gen_u32(r), move_h: r.chance(1, 2) },
        2 => Op::TypesetRule { height: gen_i32(r), width: gen_i32(r), move_h: r.chance(1, 2) },
        3 => Op::NoOp,
        4 => {
            let mut parameters = [0i32; 10];
            for p in parameters.iter_mut() {
                *p = gen_i32(r);
            }
            Op::BeginPage { parameters, previous_begin_page: gen_i32(r) }
        }
        5 => Op::EndPage,
        6 => Op::Push,
        7 => Op::Pop,
        8 => Op::Right(gen_i32(r)),
        9 => Op::Move(gen_var(r)),
        10 | 11 => Op::SetVar(gen_var(r), gen_i32(r)),
        12 => Op::Down(gen_i32(r)),
        13 => Op::EnableFont(if r.chance(1, 4) { r.range(48, 66) as u32 } else { gen_u32(r) }),
        14 => Op::Extension(gen_payload(r)),
        15 => Op::DefineFont {
            number: gen_u32(r),
            checksum: gen_u32(r),
            at_size: gen_u32(r),
            design_size: gen_u32(r),
            area: gen_string(r, 255),
            name: gen_string(r, 255),
        },
        16 => Op::Preamble {
            dvi_format: r.below(256) as u8,
            unit_numerator: gen_u32(r),
            unit_denominator: gen_u32(r),
            magnification: gen_u32(r),
            comment: gen_string(r, 255),
        },
        17 => Op::BeginPostamble {
            final_begin_page: gen_i32(r),
            unit_numerator: gen_u32(r),
            unit_denominator: gen_u32(r),
            magnification: gen_u32(r),
            largest_height: gen_u32(r),
            largest_width: gen_u32(r),
            max_stack_depth: *r.pick(&[0u16, 1, 255, 256, 65535]),
            num_pages: r.below(65536) as u16,
        },
        _ => Op::EndPostamble {
            postamble: gen_i32(r),
            dvi_format: *r.pick(&[2u8, 3, 223, 0, 255]),
            num_223_bytes: r.below(9) as usize,
        },
    }
}

/// an op for the register machine traces: distances bounded by `mag` so that no position can
/// leave the 32-bit range within one trace (the generator does not track positions)
fn gen_machine_op(r: &mut Rng, mag: i64, page_bias: bool) -> Op {
    let dist = |r: &mut Rng| -> i32 {
        let v = match r.below(5) {
            0 => r.range(-3, 3),
            1 => *r.pick(&[127i64, 128, -128, -129, 32767, 32768, -32768, -32769, 65536]),
            2 => 0,
            _ => r.range(-mag, mag),
        };
        v.clamp(-mag, mag) as i32
    };
    match r.below(if page_bias { 34 } else { 32 }) {
        0..=3 => Op::TypesetChar { char: *r.pick(&[65u32, 66, 300, 70000]), move_h: r.chance(2, 3) },
        4 | 5 => Op::TypesetRule { height: dist(r), width: dist(r), move_h: r.chance(1, 2) },
        6..=8 => Op::Push,
        9..=11 => Op::Pop,
        12 | 13 => Op::Right(dist(r)),
        14 | 15 => Op::Down(dist(r)),
        16..=20 => Op::SetVar(gen_var(r), dist(r)),
        21..=26 => Op::Move(gen_var(r)),
        27 | 28 => Op::EnableFont(*r.pick(&[0u32, 1, 63, 64, 1000])),
        29 => Op::NoOp,
        30 => Op::Extension(vec![b'x'; r.below(3) as usize]),
        31 => Op::EndPage,
        _ => Op::BeginPage { parameters: [r.range(-1, 9) as i32; 10], previous_begin_page: -1 },
    }
}

// ------------------------------------------------------------------------------------------
// binding T: VarRemover + Values traces
// ------------------------------------------------------------------------------------------
fn values_json(v: &Values) -> Value {
    let (h, cs) = v.h();
    json!({
        "h": h,
        "cs": cs.iter().map(|(c, f)| json!([u(*c), u(*f)])).collect::<Vec<_>>(),
        "v": v.v(),
        "vars": [v.w(), v.x(), v.y(), v.z()],
        "f": u(v.f()),
    })
}

fn emit_trace(out: &mut Out, ops: &[Op]) {
    out.raw(r#"{"ev":"reset"}"#);
    let (got, panic) = run_remover(ops);
    let mut values: Values = Default::default();
    for (i, op) in ops.iter().enumerate() {
        if i >= got.len() {
            break;
        }
        match catch(|| {
            values.update(op);
        }) {
            Ok(()) => {}
            Err((site, msg)) => {
                out.line(&json!({"ev":"panic","site":site,"msg":msg,"in":op_json(op),"where":"Values::update"}));
                return;
            }
        }
        out.line(&json!({"ev":"op","in":op_json(op),"out":op_json(&got[i]),"val":values_json(&values)}));
    }
    if let Some((site, msg)) = panic {
        out.line(&json!({"ev":"panic","site":site,"msg":msg,"where":"VarRemover::next"}));
        return;
    }
    out.line(&json!({"ev":"end","nin":ops.len(),"nout":got.len()}));
}

fn trace(args: &Args) -> i32 {
    quiet_panics();
    let seed: u64 = args.num("seed", 1);
    let n: usize = args.num("n", 10);
    let len: usize = args.num("len", 200);
    let mut out = Out::new(args.str("out"));
    let mut r = Rng::new(seed ^ 0xC16);
    // |sum of distances| < len * mag must stay below 2^31
    let mag: i64 = ((1i64 << 30) / (len.max(1) as i64)).min(1 << 22);
    for i in 0..n {
        let mut ops = vec![];
        let l = if i % 4 == 0 { len } else { r.range(1, len as i64) as usize };
        let pages = i % 3 != 0;
        for _ in 0..l {
            ops.push(gen_machine_op(&mut r, mag, pages));
        }
        // make sure the last position is observed by something typeset
        ops.push(Op::TypesetChar { char: 90, move_h: false });
        emit_trace(&mut out, &ops);
    }
    0
}

// ------------------------------------------------------------------------------------------
// binding F: codec call events
// ------------------------------------------------------------------------------------------
fn emit_rt(out: &mut Out, ops: &[Op]) {
    let ops_v = ops.to_vec();
    let bytes = match catch(|| dvi::serialize(ops_v)) {
        Ok(b) => b,
        Err((site, msg)) => {
            out.line(&json!({"fn":"rt","ops":ops_json(ops),"panic":[site,msg],"where":"serialize"}));
            return;
        }
    };
    match run_decode(&bytes) {
        Ok((dec, res, rest)) => {
            // the iterator API must tell the same story
            let same = match run_decode_iter(&bytes) {
                Ok((d2, r2)) => d2 == dec && r2 == res,
                Err(_) => false,
            };
            if !same {
                out.line(&json!({"fn":"rt","ops":ops_json(ops),"bytes":bytes_json(&bytes),
                    "panic":["crates/dvi/src/lib.rs","Deserializer iterator disagrees with Op::deserialize"]}));
                return;
            }
            out.line(&json!({"fn":"rt","ops":ops_json(ops),"bytes":bytes_json(&bytes),
                "dec":ops_json(&dec),"err":err_json(&res),"rest":rest}));
        }
        Err((site, msg)) => {
            out.line(&json!({"fn":"rt","ops":ops_json(ops),"bytes":bytes_json(&bytes),"panic":[site,msg],"where":"deserialize"}));
        }
    }
}

fn emit_dec(out: &mut Out, bytes: &[u8]) -> bool {
    match run_decode(bytes) {
        Ok((dec, res, rest)) => {
            let same = match run_decode_iter(bytes) {
                Ok((d2, r2)) => d2 == dec && r2 == res,
                Err(_) => false,
            };
            if !same {
                out.line(&json!({"fn":"dec","bytes":bytes_json(bytes),
                    "panic":["crates/dvi/src/lib.rs","Deserializer iterator disagrees with Op::deserialize"]}));
                return false;
            }
            let lossy = dec.iter().any(|o| match o {
                Op::DefineFont { area, name, .. } => !area.is_ascii() || !name.is_ascii(),
                Op::Preamble { comment, .. } => !comment.is_ascii(),
                _ => false,
            });
            out.line(&json!({"fn":"dec","bytes":bytes_json(bytes),"ops":ops_json(&dec),"err":err_json(&res),"rest":rest}));
            lossy
        }
        Err((site, msg)) => {
            out.line(&json!({"fn":"dec","bytes":bytes_json(bytes),"panic":[site,msg]}));
            false
        }
    }
}

/// bytes biased towards the values that sit on width and sign boundaries
fn gen_byte(r: &mut Rng) -> u8 {
    match r.below(8) {
        0 => 0,
        1 => 255,
        2 => 128,
        3 => 127,
        4 => 223,
        5 => r.below(8) as u8,
        _ => r.below(256) as u8,
    }
}

/// every op kind with every boundary operand (the directed part of the "rt" events)
fn directed_ops() -> Vec<Op> {
    let mut v = vec![];
    let mut ib: Vec<i32> = vec![];
    for b in I_BOUNDS {
        for d in -2..=2 {
            let x = b + d;
            if x >= i32::MIN as i64 && x <= i32::MAX as i64 {
                ib.push(x as i32);
            }
        }
    }
    let mut ub: Vec<u32> = vec![];
    for b in U_BOUNDS {
        for d in -2i64..=2 {
            let x = b as i64 + d;
            if x >= 0 && x <= u32::MAX as i64 {
                ub.push(x as u32);
            }
        }
    }
    for x in &ib {
        v.push(Op::Right(*x));
        v.push(Op::Down(*x));
        for var in 0..4 {
            v.push(Op::SetVar(var_of(var), *x));
        }
        v.push(Op::TypesetRule { height: *x, width: x.wrapping_neg(), move_h: x % 2 == 0 });
        v.push(Op::BeginPage { parameters: [*x, 0, -1, 1, *x, 127, 128, -128, -129, *x], previous_begin_page: *x });
        v.push(Op::BeginPostamble {
            final_begin_page: *x,
            unit_numerator: 25400000,
            unit_denominator: 473628672,
            magnification: 1000,
            largest_height: 1,
            largest_width: 2,
            max_stack_depth: 3,
            num_pages: 4,
        });
        v.push(Op::EndPostamble { postamble: *x, dvi_format: 2, num_223_bytes: 4 });
    }
    for x in &ub {
        v.push(Op::TypesetChar { char: *x, move_h: true });
        v.push(Op::TypesetChar { char: *x, move_h: false });
        v.push(Op::EnableFont(*x));
        v.push(Op::DefineFont {
            number: *x,
            checksum: x.wrapping_mul(2654435761),
            at_size: *x,
            design_size: !*x,
            area: String::new(),
            name: "cmr10".to_string(),
        });
        v.push(Op::Preamble {
            dvi_format: 2,
            unit_numerator: *x,
            unit_denominator: !*x,
            magnification: x.rotate_left(8),
            comment: " TeX output".to_string(),
        });
        v.push(Op::BeginPostamble {
            final_begin_page: -1,
            unit_numerator: *x,
            unit_denominator: x.rotate_left(8),
            magnification: x.rotate_left(16),
            largest_height: x.rotate_left(24),
            largest_width: !*x,
            max_stack_depth: (*x & 0xffff) as u16,
            num_pages: (*x >> 16) as u16,
        });
    }
    for c in 0..=255u32 {
        v.push(Op::TypesetChar { char: c, move_h: true });
        v.push(Op::EnableFont(c));
    }
    for var in 0..4 {
        v.push(Op::Move(var_of(var)));
    }
    for op in [Op::NoOp, Op::EndPage, Op::Push, Op::Pop] {
        v.push(op);
    }
    for len in [0usize, 1, 2, 127, 128, 254, 255] {
        let s: String = (0..len).map(|i| (b'a' + (i % 26) as u8) as char).collect();
        v.push(Op::Preamble { dvi_format: 2, unit_numerator: 1, unit_denominator: 2, magnification: 3, comment: s.clone() });
        v.push(Op::DefineFont { number: 1, checksum: 2, at_size: 3, design_size: 4, area: s.clone(), name: String::new() });
        v.push(Op::DefineFont { number: 1, checksum: 2, at_size: 3, design_size: 4, area: String::new(), name: s.clone() });
        v.push(Op::DefineFont { number: 1, checksum: 2, at_size: 3, design_size: 4, area: s.clone(), name: s.clone() });
        v.push(Op::Extension(s.as_bytes().to_vec()));
    }
    for len in [256usize, 257, 1000] {
        v.push(Op::Extension((0..len).map(|i| (i * 7) as u8).collect()));
    }
    for n in [0usize, 1, 3, 4, 7, 20] {
        v.push(Op::EndPostamble { postamble: 100, dvi_format: 2, num_223_bytes: n });
    }
    v
}

fn codec(args: &Args) -> i32 {
    quiet_panics();
    let seed: u64 = args.num("seed", 1);
    let n: usize = args.num("n", 1000);
    let reps: usize = args.num("reps", 1);
    let mut out = Out::new(args.str("out"));
    let mut r = Rng::new(seed ^ 0xC16C0DEC);
    let mut lossy = 0u64;
    // ---- rt: directed single ops
    let directed = directed_ops();
    for op in &directed {
        emit_rt(&mut out, std::slice::from_ref(op));
    }
    // ---- rt: the concatenation ambiguity, directed
    let pp = |n| Op::EndPostamble { postamble: 7, dvi_format: 2, num_223_bytes: n };
    for seq in [
        vec![pp(0), Op::EnableFont(52)],
        vec![pp(4), Op::EnableFont(52), Op::NoOp],
        vec![pp(4), Op::EnableFont(51)],
        vec![pp(4), Op::EnableFont(53), Op::EnableFont(52)],
        vec![pp(2), pp(2)],
        vec![pp(4), Op::TypesetChar { char: 223, move_h: true }],
        vec![pp(4), Op::TypesetChar { char: 223, move_h: false }],
        vec![pp(1), Op::Extension(vec![223, 223])],
        vec![Op::EnableFont(52), pp(3)],
    ] {
        emit_rt(&mut out, &seq);
    }
    // ---- rt: random sequences
    for _ in 0..n {
        let l = r.range(1, 10) as usize;
        let ops: Vec<Op> = (0..l).map(|_| gen_op(&mut r)).collect();
        emit_rt(&mut out, &ops);
    }
    // ---- dec: every opcode with every payload length (all truncations of every command)
    for _ in 0..reps {
        for c in 0..=255u8 {
            for k in 0..=48usize {
                let mut b = vec![c];
                for _ in 0..k {
                    b.push(gen_byte(&mut r));
                }
                if (243..=247).contains(&c) && r.chance(2, 3) {
                    // keep the string lengths small so that complete commands occur too
                    let at = match c {
                        247 => 14,
                        _ => (c - 242) as usize + 13,
                    };
                    if at < b.len() {
                        b[at] = r.below(6) as u8;
                    }
                    if c != 247 && at + 1 < b.len() {
                        b[at + 1] = r.below(6) as u8;
                    }
                }
                if (239..=242).contains(&c) && b.len() > 1 && r.chance(2, 3) {
                    let w = (c - 238) as usize;
                    for j in 1..w.min(b.len()) {
                        b[j] = 0;
                    }
                    if w < b.len() {
                        b[w] = r.below(8) as u8;
                    }
                }
                lossy += emit_dec(&mut out, &b) as u64;
            }
        }
    }
    // ---- dec: random byte strings
    for _ in 0..n {
        let l = r.below(40) as usize;
        let b: Vec<u8> = (0..l).map(|_| if r.chance(1, 2) { gen_byte(&mut r) } else { r.below(256) as u8 }).collect();
        lossy += emit_dec(&mut out, &b) as u64;
    }
    // ---- dec: truncations and one-byte mutations of valid streams
    for i in 0..n {
        let l = r.range(1, 6) as usize;
        let ops: Vec<Op> = (0..l)
            .map(|_| loop {
                let op = gen_op(&mut r);
                // keep the streams short: long strings are covered by the rt events
                let big = match &op {
                    Op::Extension(d) => d.len() > 12,
                    Op::DefineFont { area, name, .. } => area.len() + name.len() > 12,
                    Op::Preamble { comment, .. } => comment.len() > 12,
                    _ => false,
                };
                if !big {
                    break op;
                }
            })
            .collect();
        let mut b = dvi::serialize(ops);
        if b.is_empty() {
            continue;
        }
        if i % 2 == 0 {
            let cut = r.below(b.len() as u64) as usize;
            b.truncate(cut);
        } else {
            let at = r.below(b.len() as u64) as usize;
            b[at] = gen_byte(&mut r);
            if r.chance(1, 3) {
                let cut = r.below(b.len() as u64 + 1) as usize;
                b.truncate(cut);
            }
        }
        lossy += emit_dec(&mut out, &b) as u64;
    }
    out.flush();
    eprintln!("{}", json!({"directed": directed.len(), "lossy_strings": lossy}));
    0
}

// ------------------------------------------------------------------------------------------
// binding F: whole-stream events with unrestricted operands (fn = "rv" | "pipe")
// ------------------------------------------------------------------------------------------
fn emit_rv(out: &mut Out, ops: &[Op]) {
    let (got, panic) = run_remover(ops);
    match panic {
        None => out.line(&json!({"fn":"rv","in":ops_json(ops),"out":ops_json(&got)})),
        Some((site, msg)) => {
            out.line(&json!({"fn":"rv","in":ops_json(ops),"out":ops_json(&got),"panic":[site,msg]}))
        }
    }
}

/// dvitools normalize: Deserializer -> VarRemover -> serialize (crates/dvi-bin/src/dvitools.rs)
fn emit_pipe(out: &mut Out, bytes: &[u8]) {
    let r = catch(|| {
        let mut result = Ok(());
        let mut i1 = dvi::Deserializer::new(bytes, &mut result);
        let i2 = VarRemover::new(&mut i1);
        let b = dvi::serialize(i2);
        (b, result)
    });
    match r {
        Ok((b, res)) => out.line(&json!({"fn":"pipe","bytes":bytes_json(bytes),"out":bytes_json(&b),"err":err_json(&res)})),
        Err((site, msg)) => out.line(&json!({"fn":"pipe","bytes":bytes_json(bytes),"panic":[site,msg]})),
    }
}

fn gen_small_machine_op(r: &mut Rng, full: bool) -> Op {
    // short streams; `full`: operands over the whole 32-bit range (positions often overflow),
    // otherwise |operand| <= 2^26 so that 14 ops cannot overflow
    let mut gen_i32 = |r: &mut Rng| -> i32 {
        let x = gen_i32(r);
        if full {
            x
        } else {
            x.clamp(-(1 << 26), 1 << 26)
        }
    };
    match r.below(14) {
        0 => Op::TypesetChar { char: gen_u32(r), move_h: r.chance(1, 2) },
        1 => Op::TypesetRule { height: gen_i32(r), width: gen_i32(r), move_h: r.chance(1, 2) },
        2 | 3 => Op::Push,
        4 | 5 => Op::Pop,
        6 => Op::Right(gen_i32(r)),
        7 => Op::Down(gen_i32(r)),
        8 | 9 | 10 => Op::SetVar(gen_var(r), gen_i32(r)),
        11 | 12 => Op::Move(gen_var(r)),
        _ => {
            if r.chance(1, 2) {
                Op::EnableFont(gen_u32(r))
            } else {
                Op::BeginPage { parameters: [0; 10], previous_begin_page: -1 }
            }
        }
    }
}

fn pipe(args: &Args) -> i32 {
    quiet_panics();
    let seed: u64 = args.num("seed", 1);
    let n: usize = args.num("n", 500);
    let mut out = Out::new(args.str("out"));
    let mut r = Rng::new(seed ^ 0xC16_F1FE);
    // directed: positions that leave the 32-bit range (DVI registers are 32-bit, TeX.2021.584)
    let big = i32::MAX;
    let directed: Vec<Vec<Op>> = vec![
        vec![Op::Right(big), Op::Right(1), Op::Move(Var::W)],
        vec![Op::SetVar(Var::W, big), Op::Move(Var::W), Op::Move(Var::W)],
        vec![Op::SetVar(Var::Y, i32::MIN), Op::Move(Var::Y)],
        vec![Op::Down(i32::MIN), Op::Down(-1), Op::SetVar(Var::Z, 5)],
        vec![Op::TypesetRule { height: 1, width: big, move_h: true }, Op::SetVar(Var::X, 1), Op::Move(Var::X)],
        vec![Op::SetVar(Var::X, 1 << 30), Op::Push, Op::Move(Var::X), Op::Pop, Op::Move(Var::X), Op::Move(Var::X)],
        vec![Op::SetVar(Var::W, big), Op::BeginPage { parameters: [0; 10], previous_begin_page: -1 }, Op::SetVar(Var::W, big), Op::Move(Var::X)],
        vec![Op::Right(big), Op::Right(i32::MIN), Op::SetVar(Var::W, -1), Op::Move(Var::W)],
    ];
    for ops in &directed {
        emit_rv(&mut out, ops);
    }
    for _ in 0..n {
        let l = r.range(1, 14) as usize;
        let full = r.chance(1, 4);
        let ops: Vec<Op> = (0..l).map(|_| gen_small_machine_op(&mut r, full)).collect();
        emit_rv(&mut out, &ops);
    }
    // pipeline on valid streams (moderate operands so that most do not overflow), their
    // truncations, and on random bytes
    for i in 0..n {
        let l = r.range(1, 12) as usize;
        let ops: Vec<Op> = (0..l)
            .map(|_| {
                if r.chance(1, 5) {
                    loop {
                        let op = gen_op(&mut r);
                        let big = match &op {
                            Op::Extension(d) => d.len() > 8,
                            Op::DefineFont { area, name, .. } => area.len() + name.len() > 8 || !area.is_ascii() || !name.is_ascii(),
                            Op::Preamble { comment, .. } => comment.len() > 8 || !comment.is_ascii(),
                            _ => false,
                        };
                        if !big {
                            break op;
                        }
                    }
                } else {
                    gen_machine_op(&mut r, 1 << 24, true)
                }
            })
            .collect();
        let mut b = dvi::serialize(ops);
        match i % 4 {
            0 => {
                let cut = r.below(b.len() as u64 + 1) as usize;
                b.truncate(cut);
            }
            1 => {
                if !b.is_empty() {
                    let at = r.below(b.len() as u64) as usize;
                    b[at] = gen_byte(&mut r);
                }
            }
            _ => {}
        }
        emit_pipe(&mut out, &b);
    }
    0
}

// ------------------------------------------------------------------------------------------
// replay
// ------------------------------------------------------------------------------------------
fn replay(args: &Args) -> i32 {
    quiet_panics();
    let txt = std::fs::read_to_string(args.req("in")).expect("replay file");
    let v: Value = serde_json::from_str(&txt).expect("replay json");
    let mut out = Out::new(None);
    // find the recorded input, whatever part produced it
    let ev = if v.get("event").is_some() { &v["event"] } else { &v };
    if let Some(h) = ev.get("history") {
        let ops: Vec<Op> = h.as_array().unwrap().iter().map(op_of).collect();
        emit_rv(&mut out, &ops);
    } else if let Some(evs) = ev.get("events") {
        let ops: Vec<Op> = evs
            .as_array()
            .unwrap()
            .iter()
            .filter(|e| e["ev"] == "op")
            .map(|e| op_of(&e["in"]))
            .collect();
        emit_trace(&mut out, &ops);
    } else if ev["fn"] == "rt" {
        let ops: Vec<Op> = ev["ops"].as_array().unwrap().iter().map(op_of).collect();
        emit_rt(&mut out, &ops);
    } else if ev["fn"] == "dec" {
        emit_dec(&mut out, &jbytes(&ev["bytes"]));
    } else if ev["fn"] == "rv" {
        let ops: Vec<Op> = ev["in"].as_array().unwrap().iter().map(op_of).collect();
        emit_rv(&mut out, &ops);
    } else if ev["fn"] == "pipe" {
        emit_pipe(&mut out, &jbytes(&ev["bytes"]));
    } else {
        eprintln!("replay file has no recognisable input");
        return 2;
    }
    0
}
