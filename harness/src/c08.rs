//! C08 -- checkpointing is transparent.
//!
//! Every program the C01 generator derives from the TexGroups table is cut at an operation boundary;
//! the VM is serialised and deserialised there (JSON / MessagePack / bincode, same built-ins) and the
//! rest of the program runs on the restored VM.  `Checkpoint` is a stuttering step of the spec, so
//! the expected reads are exactly those of the uncut program -- looked up in the same table.
use crate::c01::{binding_list, build_program, run_segments, Bind, K};
use crate::lts::Lts;
use crate::util::{quiet_panics, Args, Out};
use crate::vmh;
use serde_json::{json, Value};

pub fn dispatch(cmd: &str, args: &Args) -> Option<i32> {
    Some(match cmd {
        "c08-edges" => edges(args),
        "c08-probe" => probe(args),
        "c08-diff" => diff(args),
        _ => return None,
    })
}

pub fn edges(args: &Args) -> i32 {
    quiet_panics();
    let lts = Lts::load(args.req("lts"));
    let dev: Option<Lts> = args.str("devlts").map(Lts::load);
    let seed: u64 = args.num("seed", 1);
    let stride: usize = args.num("stride", 1); // use every stride-th edge
    let all_positions = args.str("positions") == Some("all");
    let n = lts.states.len();
    let mut parent: Vec<Option<(usize, usize)>> = vec![None; n];
    let mut seen = vec![false; n];
    let mut order = vec![lts.init];
    seen[lts.init] = true;
    let mut qi = 0;
    while qi < order.len() {
        let s = order[qi];
        qi += 1;
        for oi in 0..lts.ops.len() {
            if let Some((t, _)) = &lts.edges[s][oi] {
                let t = *t as usize;
                if !seen[t] {
                    seen[t] = true;
                    parent[t] = Some((s, oi));
                    order.push(t);
                }
            }
        }
    }
    let path_to = |s: usize| -> Vec<usize> {
        let mut p = vec![];
        let mut cur = s;
        while let Some((ps, oi)) = parent[cur] {
            p.push(oi);
            cur = ps;
        }
        p.reverse();
        p
    };
    let mut edge_list: Vec<(usize, usize)> = vec![];
    for s in 0..n {
        for oi in 0..lts.ops.len() {
            if let Some((_, res)) = &lts.edges[s][oi] {
                let k = lts.ops[oi]["k"].as_str().unwrap();
                if k == "checkpoint" || (k == "end" && res == &json!(false)) {
                    continue;
                }
                edge_list.push((s, oi));
            }
        }
    }
    let edge_list: Vec<(usize, usize)> = edge_list
        .into_iter()
        .enumerate()
        .filter(|(i, _)| (i + seed as usize) % stride == 0)
        .map(|(_, e)| e)
        .collect();
    let bindings = binding_list(true);
    let nb = bindings.len();
    let fmts = [vmh::Format::Json, vmh::Format::MessagePack, vmh::Format::Bincode];
    let nthreads = std::thread::available_parallelism().map(|n| n.get()).unwrap_or(4);
    let next = std::sync::atomic::AtomicUsize::new(0);
    struct Acc {
        runs: u64,
        viol: Vec<Value>,
        samples: Vec<Value>,
        per_fmt: [u64; 3],
    }
    let acc = std::sync::Mutex::new(Acc { runs: 0, viol: vec![], samples: vec![], per_fmt: [0; 3] });
    std::thread::scope(|sc| {
        for _ in 0..nthreads {
            sc.spawn(|| {
                let mut runs = 0u64;
                let mut viol: Vec<Value> = vec![];
                let mut samples: Vec<Value> = vec![];
                let mut per_fmt = [0u64; 3];
                loop {
                    let i = next.fetch_add(1, std::sync::atomic::Ordering::SeqCst);
                    if i >= edge_list.len() {
                        break;
                    }
                    let (s, oi) = edge_list[i];
                    let mut ops = path_to(s);
                    ops.push(oi);
                    let bi = (i.wrapping_mul(7919) + seed as usize) % nb;
                    let (ka, kb) = bindings[bi];
                    let binds = [Bind { kind: ka, slot: 1 }, Bind { kind: kb, slot: 2 }, Bind { kind: K::GlobalDefs, slot: 3 }];
                    let Some(prog) = build_program(&lts, &binds, &ops) else { continue };
                    let np = prog.parts.len();
                    // cut positions: after part k (1 <= k < np); part 0 is the depth-0 setup
                    let positions: Vec<usize> = if all_positions { (1..np).collect() } else { vec![1 + (i + seed as usize) % (np - 1)] };
                    for (pi, k) in positions.iter().enumerate() {
                        let fmt_list: Vec<usize> = if all_positions { vec![0, 1, 2] } else { vec![(i + pi) % 3] };
                        for fi in fmt_list {
                            let mut a = prog.parts[..*k].concat();
                            a.push('\n');
                            let b = prog.parts[*k..].concat();
                            let (got, outcome) = run_segments(&[a.clone(), b.clone()], &[fmts[fi]]);
                            runs += 1;
                            per_fmt[fi] += 1;
                            if got != prog.expect || outcome != "ok" {
                                // is the disagreement already present without the checkpoint, and explained
                                // by a recorded deviation of C01?  (then it is not C08's to report)
                                let (plain, plain_outcome) = crate::c01::run_program(&prog.src);
                                let same_as_uncut = plain == got && plain_outcome == outcome;
                                let mut explained = false;
                                if let (Some(d), true) = (&dev, same_as_uncut) {
                                    let dops: Option<Vec<usize>> = ops.iter().map(|oi| {
                                        let mut o = lts.ops[*oi].clone();
                                        o.as_object_mut().unwrap().remove("res");
                                        d.op_index.get(&serde_json::to_string(&o).unwrap()).copied()
                                    }).collect();
                                    if let Some(dp) = dops.and_then(|dops| build_program(d, &binds, &dops)) {
                                        explained = dp.src == prog.src && dp.expect == got;
                                    }
                                }
                                if viol.len() < 100 {
                                    viol.push(json!({"kind":"violation","part":"checkpoint-edges","before":a,"after":b,
                                        "format":format!("{:?}", fmts[fi]),"expected":prog.expect,"got":got,"outcome":outcome,
                                        "uncut_reads":plain,"same_as_uncut":same_as_uncut,"explained_by_c01_deviation":explained,
                                        "kinds":[format!("{ka:?}"),format!("{kb:?}"),"GlobalDefs"],"path_len":ops.len()}));
                                }
                            } else if samples.is_empty() && ops.len() >= 4 {
                                samples.push(json!({"before":a,"after":b,"format":format!("{:?}", fmts[fi]),"reads":got}));
                            }
                        }
                    }
                }
                let mut a = acc.lock().unwrap();
                a.runs += runs;
                a.viol.extend(viol);
                if a.samples.len() < 3 {
                    a.samples.extend(samples);
                }
                for i in 0..3 {
                    a.per_fmt[i] += per_fmt[i];
                }
            });
        }
    });
    let a = acc.into_inner().unwrap();
    let mut out = Out::new(args.str("out"));
    let mut v = a.viol;
    v.sort_by_key(|x| x["path_len"].as_u64().unwrap_or(0));
    for x in v.iter().take(args.num("maxviol", 60)) {
        out.line(x);
    }
    out.line(&json!({"kind":"summary","part":"checkpoint-edges","edges":edge_list.len(),"runs":a.runs,
        "json":a.per_fmt[0],"messagepack":a.per_fmt[1],"bincode":a.per_fmt[2],"samples":a.samples}));
    0
}

/// Run `a`, checkpoint in every format, run `b`: prints the reads.  (debug / replay helper)
pub fn probe(args: &Args) -> i32 {
    quiet_panics();
    let a = args.req("a").replace("\\n", "\n");
    let b = args.req("b").to_string();
    for f in [vmh::Format::Json, vmh::Format::MessagePack, vmh::Format::Bincode] {
        let (got, outcome) = run_segments(&[a.clone(), b.clone()], &[f]);
        println!("{f:?}: {got:?} {outcome}");
    }
    0
}

/// Observation of a run given as segments: delivered text, outcome kind, recoverable errors.
fn observe(segs: &[String], fmt: Option<vmh::Format>) -> (String, String, usize) {
    let term: Vec<String> = vec![];
    let files = crate::c09::fs_files();
    let mut vm = vmh::new_vm(&files, &term);
    let mut text = String::new();
    let mut nrec = 0usize;
    for (i, seg) in segs.iter().enumerate() {
        if i > 0 {
            if let Some(f) = fmt {
                match crate::util::catch(|| vmh::checkpoint(&vm, f, &files, &term)) {
                    Ok(Ok(v)) => vm = v,
                    Ok(Err(e)) => return (text, format!("checkpoint failed: {e}"), nrec),
                    Err((site, msg)) => return (text, format!("checkpoint panicked at {site}: {msg}"), nrec),
                }
            }
        }
        vmh::recov_start();
        let r = vmh::run_src::<vmh::H>(&mut vm, "main.tex", seg, 50_000);
        nrec += vmh::recov_take().len();
        text.push_str(&vmh::render(&r.toks));
        match r.outcome {
            vmh::Outcome::Ok => {}
            vmh::Outcome::Err { title, .. } => return (text, format!("error: {title}"), nrec),
            vmh::Outcome::Panic { site, msg } => return (text, format!("panic at {site}: {msg}"), nrec),
            vmh::Outcome::Budget => return (text, "budget".to_string(), nrec),
        }
    }
    (text, "ok".to_string(), nrec)
}

/// The same run observed through texlang-stdlib's own output path (script.rs): the text written, outcome kind.
fn observe_script(segs: &[String], fmt: Option<vmh::Format>) -> (String, String) {
    let term: Vec<String> = vec![];
    let files = crate::c09::fs_files();
    let mut vm = vmh::new_vm(&files, &term);
    let mut text = String::new();
    for (i, seg) in segs.iter().enumerate() {
        if i > 0 {
            if let Some(f) = fmt {
                match crate::util::catch(|| vmh::checkpoint(&vm, f, &files, &term)) {
                    Ok(Ok(v)) => vm = v,
                    Ok(Err(e)) => return (text, format!("checkpoint failed: {e}")),
                    Err((site, msg)) => return (text, format!("checkpoint panicked at {site}: {msg}")),
                }
            }
        }
        let (t, outcome) = vmh::run_script(&mut vm, "main.tex", seg, 50_000);
        text.push_str(&t);
        match outcome {
            vmh::Outcome::Ok => {}
            vmh::Outcome::Err { title, .. } => return (text, format!("error: {title}")),
            vmh::Outcome::Panic { site, msg } => return (text, format!("panic at {site}: {msg}")),
            vmh::Outcome::Budget => return (text, "budget".to_string()),
        }
    }
    (text, "ok".to_string())
}

/// Differential form of the stuttering obligation on arbitrary generated programs: P = A \n B is run
/// (1) as two sources on one VM and (2) with a serialise/deserialise between them; every observation
/// must agree.  Only cuts where A itself ends normally (pending input exhausted without error) count.
pub fn diff(args: &Args) -> i32 {
    quiet_panics();
    let seed: u64 = args.num("seed", 1);
    let n: usize = args.num("n", 500);
    let pairs = crate::c09::gen_pairs(seed, n);
    let fmts = [vmh::Format::Json, vmh::Format::MessagePack, vmh::Format::Bincode];
    let nthreads = std::thread::available_parallelism().map(|n| n.get()).unwrap_or(4);
    let next = std::sync::atomic::AtomicUsize::new(0);
    let acc = std::sync::Mutex::new((0u64, 0u64, Vec::<Value>::new(), None::<Value>));
    std::thread::scope(|sc| {
        for _ in 0..nthreads {
            std::thread::Builder::new().stack_size(256 << 20).spawn_scoped(sc, || {
                let (mut runs, mut skipped) = (0u64, 0u64);
                let mut viol = vec![];
                let mut sample = None;
                loop {
                    let i = next.fetch_add(1, std::sync::atomic::Ordering::SeqCst);
                    if i >= pairs.len() {
                        break;
                    }
                    let (a, b) = &pairs[i];
                    let segs = [format!("\\scrollmode {a}\n"), b.clone()];
                    // A must end normally for the cut to be a checkpointable state
                    let (_, oa, _) = observe(&segs[..1], None);
                    if oa != "ok" {
                        skipped += 1;
                        continue;
                    }
                    let base = observe(&segs, None);
                    let f = fmts[i % 3];
                    let cut = observe(&segs, Some(f));
                    runs += 1;
                    if base != cut {
                        if viol.len() < 50 {
                            viol.push(json!({"kind":"violation","part":"checkpoint-diff","before":segs[0],"after":segs[1],
                                "format":format!("{f:?}"),"uncut":{"text":base.0,"outcome":base.1,"recoverable":base.2},
                                "checkpointed":{"text":cut.0,"outcome":cut.1,"recoverable":cut.2}}));
                        }
                    } else if {
                        // the same pair through the repository's own writer (blanks and newlines owed to the next token)
                        let sb = observe_script(&segs, None);
                        let sc_ = observe_script(&segs, Some(f));
                        if sb != sc_ && viol.len() < 50 {
                            viol.push(json!({"kind":"violation","part":"checkpoint-diff-script-output","before":segs[0],"after":segs[1],
                                "format":format!("{f:?}"),"uncut":{"text":sb.0,"outcome":sb.1,"recoverable":0},
                                "checkpointed":{"text":sc_.0,"outcome":sc_.1,"recoverable":0}}));
                        }
                        sb != sc_
                    } {
                    } else if sample.is_none() && base.2 > 0 && segs[1].contains("\\fi") {
                        sample = Some(json!({"before":segs[0],"after":segs[1],"format":format!("{f:?}"),"text":base.0,"outcome":base.1}));
                    }
                }
                let mut g = acc.lock().unwrap();
                g.0 += runs;
                g.1 += skipped;
                g.2.extend(viol);
                if g.3.is_none() {
                    g.3 = sample;
                }
            }).unwrap();
        }
    });
    let g = acc.into_inner().unwrap();
    let mut out = Out::new(args.str("out"));
    for v in g.2.iter().take(40) {
        out.line(v);
    }
    out.line(&json!({"kind":"summary","part":"checkpoint-diff","pairs":pairs.len(),"runs":g.0,"skipped_A_does_not_end_normally":g.1,"sample":g.3}));
    0
}
