//! C02 -- macro parameter binding and substitution.
//!
//! A case is (definition, call input) over the token alphabet of TexMacro.tla.  The harness spells
//! it as TeX source (`\def\!...{...}` then `\!` + input), runs it and records what the VM's
//! post-macro-expansion hook saw: the arguments bound and the expansion produced, plus the tokens
//! delivered afterwards.  R: cases printed by TLC with the expected binding; F: random larger cases
//! recorded as events for TLC.
use crate::util::{quiet_panics, Args, Out, Rng};
use crate::vmh::{self, TokV};
use serde_json::{json, Value};
use std::io::BufRead;

pub fn dispatch(cmd: &str, args: &Args) -> Option<i32> {
    Some(match cmd {
        "c02-replay" => replay(args),
        "c02-events" => events(args),
        _ => return None,
    })
}

const CHARS: [char; 10] = ['?', 'a', 'b', 'c', '.', ',', '!', '[', '|', ']'];
const CSN: [&str; 3] = ["", "x", "y"];

/// Spell a token list.  Returns None when the list cannot be produced by TeX's lexer from one line
/// (two spaces in a row, a space after a control word): such cases are skipped and counted.
fn render(toks: &[Value], in_body: bool) -> Option<String> {
    let mut s = String::new();
    let mut prev_cs_word = false;
    let mut prev_sp = false;
    for t in toks {
        let c = t["c"].as_u64().unwrap_or(0) as usize;
        let kind = t["t"].as_str().unwrap();
        if kind == "sp" && (prev_cs_word || prev_sp) {
            return None;
        }
        let mut now_cs_word = false;
        match kind {
            "c" => {
                if prev_cs_word && CHARS[c].is_ascii_alphabetic() {
                    s.push(' ');
                }
                s.push(CHARS[c]);
            }
            "sp" => s.push(' '),
            "lb" => s.push('{'),
            "rb" => s.push('}'),
            "cs" => {
                s.push('\\');
                s.push_str(CSN[c]);
                now_cs_word = true;
            }
            "hash" => {
                if !in_body {
                    return None;
                }
                s.push_str("##");
            }
            "par" => {
                s.push('#');
                s.push_str(&c.to_string());
            }
            _ => return None,
        }
        prev_sp = kind == "sp";
        prev_cs_word = now_cs_word;
    }
    Some(s)
}

fn ends_with_cs(toks: &[Value]) -> bool {
    toks.last().map(|t| t["t"] == "cs").unwrap_or(false)
}

fn render_case(d: &Value, input: &[Value]) -> Option<String> {
    let mut s = String::from("\\endlinechar=-1 \n\\def\\!");
    let prefix = d["prefix"].as_array().unwrap();
    s.push_str(&render(prefix, false)?);
    let mut last_cs = ends_with_cs(prefix);
    for (i, dl) in d["params"].as_array().unwrap().iter().enumerate() {
        let _ = last_cs;
        s.push('#');
        s.push_str(&(i + 1).to_string());
        let dl = dl.as_array().unwrap();
        // a delimiter that starts with a space right after #n is fine (#1 is not a control word)
        s.push_str(&render(dl, false)?);
        last_cs = ends_with_cs(dl);
    }
    if d["hb"].as_bool().unwrap() {
        s.push('#');
    }
    s.push('{');
    s.push_str(&render(d["body"].as_array().unwrap(), true)?);
    s.push('}');
    // \! is a control symbol: a following space *is* a token.  TeX removes trailing spaces of a line before
    // lexing it, and no line contains two space tokens in a row: such inputs are assembled by a second macro
    // from brace groups (they arise in real documents exactly like this, by substitution).
    let direct = if input.last().map(|t| t["t"] == "sp").unwrap_or(false) { None } else { render(input, false) };
    match direct {
        Some(text) => {
            s.push_str("\\!");
            s.push_str(&text);
        }
        None => s.push_str(&render_wrapped(input)?),
    }
    Some(s)
}

/// `\def\?#1..#k{\!#1..#k}\?{chunk 1}..{chunk k}`: every space token is a chunk of its own, the tokens between
/// spaces are chunks (they must be brace-balanced to be written in braces); at most nine chunks.
fn render_wrapped(input: &[Value]) -> Option<String> {
    let mut chunks: Vec<Vec<Value>> = vec![];
    let mut cur: Vec<Value> = vec![];
    for t in input {
        if t["t"] == "sp" {
            if !cur.is_empty() {
                chunks.push(std::mem::take(&mut cur));
            }
            chunks.push(vec![t.clone()]);
        } else {
            cur.push(t.clone());
        }
    }
    if !cur.is_empty() {
        chunks.push(cur);
    }
    if chunks.is_empty() || chunks.len() > 9 {
        return None;
    }
    for c in &chunks {
        let mut depth = 0i32;
        for t in c {
            match t["t"].as_str().unwrap_or("") {
                "lb" => depth += 1,
                "rb" => {
                    depth -= 1;
                    if depth < 0 {
                        return None;
                    }
                }
                "hash" | "par" => return None,
                _ => {}
            }
        }
        if depth != 0 {
            return None;
        }
    }
    let mut s = String::from("\\def\\?");
    for i in 1..=chunks.len() {
        s.push_str(&format!("#{i}"));
    }
    s.push_str("{\\!");
    for i in 1..=chunks.len() {
        s.push_str(&format!("#{i}"));
    }
    s.push_str("}\\?");
    for c in &chunks {
        s.push('{');
        s.push_str(&render(c, false)?);
        s.push('}');
    }
    Some(s)
}

fn tokv_json(t: &TokV) -> Value {
    match t {
        TokV::Char(' ', 10) => json!({"t":"sp","c":0}),
        TokV::Char(_, 1) => json!({"t":"lb","c":0}),
        TokV::Char(_, 2) => json!({"t":"rb","c":0}),
        TokV::Char(_, 6) => json!({"t":"hash","c":0}),
        TokV::Char(c, _) => json!({"t":"c","c":CHARS.iter().position(|x| x == c).map(|i| i as i64).unwrap_or(-1)}),
        TokV::Cs(n) => json!({"t":"cs","c":CSN.iter().position(|x| x == n).map(|i| i as i64).unwrap_or(-1)}),
        TokV::Active(_) => json!({"t":"active","c":-1}),
    }
}

/// Run one case; returns the observation {args, expansion, delivered, err} or None if unrenderable.
fn run_case(d: &Value, input: &[Value]) -> Option<Value> {
    let src = render_case(d, input)?;
    let mut vm = vmh::new_vm(&[], &[]);
    vmh::macro_rec_start();
    let r = vmh::run_src::<vmh::H>(&mut vm, "main.tex", &src, 100_000);
    let calls = vmh::macro_rec_take();
    let first = calls.iter().find(|c| c.name == TokV::Cs("!".to_string()));
    let delivered: Vec<Value> = r
        .toks
        .iter()
        .map(|t| match t {
            vmh::Tok::Char(' ', _) => json!({"t":"sp","c":0}),
            vmh::Tok::Char(_, 6) => json!({"t":"hash","c":0}),
            vmh::Tok::Char(c, _) => json!({"t":"c","c":CHARS.iter().position(|x| x == c).map(|i| i as i64).unwrap_or(-1)}),
            vmh::Tok::Undef(n) => json!({"t":"cs","c":CSN.iter().position(|x| x == n).map(|i| i as i64).unwrap_or(-1)}),
            vmh::Tok::Unexp(_) => json!({"t":"unexp","c":-1}),
        })
        .collect();
    let err = match &r.outcome {
        vmh::Outcome::Ok => String::new(),
        vmh::Outcome::Err { title, .. } => format!("error: {title}"),
        vmh::Outcome::Panic { site, msg } => format!("panic at {site}: {msg}"),
        vmh::Outcome::Budget => "budget".to_string(),
    };
    Some(match first {
        Some(c) => json!({"called":true,
            "args": c.args.iter().map(|a| a.iter().map(tokv_json).collect::<Vec<_>>()).collect::<Vec<_>>(),
            "expansion": c.expansion.iter().map(tokv_json).collect::<Vec<_>>(),
            "delivered": delivered, "err": err, "program": src}),
        None => json!({"called":false,"args":[],"expansion":[],"delivered":delivered,"err":err,"program":src}),
    })
}

fn read_lines(path: &str) -> Vec<Value> {
    let f = std::fs::File::open(path).unwrap_or_else(|e| {
        eprintln!("cannot open {path}: {e}");
        std::process::exit(2)
    });
    std::io::BufReader::new(f).lines().map(|l| serde_json::from_str(&l.unwrap()).unwrap()).collect()
}

pub fn replay(args: &Args) -> i32 {
    quiet_panics();
    let cases = read_lines(args.req("in"));
    let mut out = Out::new(args.str("out"));
    let (mut run, mut skipped, mut nv) = (0u64, 0u64, 0u64);
    let mut sample = Value::Null;
    for c in &cases {
        let input = c["input"].as_array().unwrap();
        let Some(obs) = run_case(&c["d"], input) else {
            skipped += 1;
            continue;
        };
        run += 1;
        let want = &c["want"];
        let ok = obs["called"] == true && obs["args"] == want["args"] && obs["expansion"] == want["expansion"];
        if !ok {
            nv += 1;
            if nv <= 30 {
                out.line(&json!({"kind":"violation","part":"macro-replay","d":c["d"],"input":input,"want":want,"got":obs}));
            }
        } else if sample.is_null() && input.len() >= 4 {
            sample = json!({"program":obs["program"],"args":obs["args"]});
        }
    }
    out.line(&json!({"kind":"summary","part":"macro-replay","cases":cases.len(),"run":run,"skipped_unrenderable":skipped,"violations":nv,"sample":sample}));
    0
}

// ---- random larger cases --------------------------------------------------------------------

fn tk(t: &str, c: u64) -> Value {
    json!({"t":t,"c":c})
}

fn gen_plain(rng: &mut Rng) -> Value {
    match rng.below(10) {
        0..=5 => tk("c", 1 + rng.below(5)),
        6 => tk("sp", 0),
        _ => tk("cs", 1 + rng.below(2)),
    }
}

/// brace-balanced token list
fn gen_balanced(rng: &mut Rng, depth: u32, out: &mut Vec<Value>, maxlen: usize) {
    let n = rng.below(4);
    for _ in 0..n {
        if out.len() >= maxlen {
            return;
        }
        if depth > 0 && rng.chance(1, 4) {
            out.push(tk("lb", 0));
            gen_balanced(rng, depth - 1, out, maxlen);
            out.push(tk("rb", 0));
        } else {
            out.push(gen_plain(rng));
        }
    }
}

pub fn events(args: &Args) -> i32 {
    quiet_panics();
    let seed: u64 = args.num("seed", 1);
    let n: usize = args.num("n", 1000);
    let mut rng = Rng::new(seed);
    let mut out = Out::new(args.str("out"));
    let mut skipped = 0u64;
    for _ in 0..n {
        // definition
        let np = rng.below(5) as usize + if rng.chance(1, 10) { 5 } else { 0 };
        let np = np.min(9);
        let mut prefix = vec![];
        for _ in 0..rng.below(3) {
            prefix.push(tk("c", 1 + rng.below(5)));
        }
        let mut params: Vec<Vec<Value>> = vec![];
        // delimiters with a repeated prefix (aab, aaab, aaabb, aabaab...) stress the streaming matcher's
        // fall-back; the argument in front of them is then made of near misses of the delimiter
        let mut near_miss: Vec<Option<(u64, u64)>> = vec![];
        for _ in 0..np {
            let mut dl = vec![];
            if rng.chance(1, 4) {
                let (x, y) = (1 + rng.below(5), 1 + rng.below(5));
                if x != y {
                    let k = 2 + rng.below(3);
                    for _ in 0..k {
                        dl.push(tk("c", x));
                    }
                    dl.push(tk("c", y));
                    match rng.below(4) {
                        0 => dl.push(tk("c", y)),
                        1 => { dl.push(tk("c", x)); dl.push(tk("c", x)); dl.push(tk("c", y)); dl.push(tk("c", y)); }
                        _ => {}
                    }
                    params.push(dl);
                    near_miss.push(Some((x, y)));
                    continue;
                }
            }
            near_miss.push(None);
            if rng.chance(3, 5) {
                for _ in 0..(1 + rng.below(3)) {
                    dl.push(match rng.below(8) {
                        0 => tk("cs", 1 + rng.below(2)),
                        1 => tk("sp", 0),
                        _ => tk("c", 1 + rng.below(5)),
                    });
                }
            }
            params.push(dl);
        }
        let hb = np > 0 && rng.chance(1, 6);
        let mut body = vec![tk("c", 7)];
        for _ in 0..rng.below(2 * np as u64 + 3) {
            match rng.below(6) {
                0..=2 if np > 0 => body.push(tk("par", 1 + rng.below(np as u64))),
                3 => body.push(tk("hash", 0)),
                4 => body.push(tk("c", 8)),
                _ => body.push(tk("c", 1 + rng.below(3))),
            }
        }
        body.push(tk("c", 9));
        let d = json!({"prefix":prefix,"params":params,"hb":hb,"body":body});
        // call input: prefix, then per parameter an argument of a chosen shape followed by its delimiter
        let mut input: Vec<Value> = prefix.clone();
        for (i, dl) in params.iter().enumerate() {
            let mut arg = vec![];
            match rng.below(7) {
                0 => {} // empty (only meaningful for delimited parameters)
                1 => arg.push(tk("c", 1 + rng.below(5))),
                2 => {
                    arg.push(tk("lb", 0));
                    gen_balanced(&mut rng, 2, &mut arg, 8);
                    arg.push(tk("rb", 0));
                }
                3 => {
                    // several groups
                    for _ in 0..(2 + rng.below(2)) {
                        arg.push(tk("lb", 0));
                        gen_balanced(&mut rng, 1, &mut arg, 10);
                        arg.push(tk("rb", 0));
                    }
                }
                4 => {
                    arg.push(tk("sp", 0));
                    gen_balanced(&mut rng, 2, &mut arg, 8);
                }
                _ => gen_balanced(&mut rng, 3, &mut arg, 10),
            }
            if dl.is_empty() && !(hb && i + 1 == np) {
                // undelimited: must be one token or one group (possibly after spaces)
                let lead_sp = rng.chance(1, 4);
                let one: Vec<Value> = if rng.chance(1, 2) {
                    let mut g = vec![tk("lb", 0)];
                    gen_balanced(&mut rng, 2, &mut g, 8);
                    g.push(tk("rb", 0));
                    g
                } else {
                    vec![match rng.below(4) { 0 => tk("cs", 1 + rng.below(2)), _ => tk("c", 1 + rng.below(5)) }]
                };
                if lead_sp {
                    input.push(tk("sp", 0));
                }
                input.extend(one);
            } else {
                if let Some((x, y)) = near_miss[i] {
                    // replace the argument by near misses of the delimiter: proper prefixes and proper
                    // suffixes of it glued together (the classic stress for a streaming matcher), or a
                    // random string over its two letters
                    arg.clear();
                    if rng.chance(3, 4) {
                        for _ in 0..(1 + rng.below(4)) {
                            let n = dl.len();
                            let k = 1 + rng.below(n as u64 - 1) as usize;
                            if rng.chance(1, 2) {
                                arg.extend(dl[..k].iter().cloned());
                            } else {
                                arg.extend(dl[n - k..].iter().cloned());
                            }
                        }
                    } else {
                        for _ in 0..rng.below(12) {
                            arg.push(tk("c", if rng.chance(2, 3) { x } else { y }));
                        }
                    }
                }
                input.extend(arg);
                input.extend(dl.iter().cloned());
            }
        }
        if hb {
            input.push(tk("lb", 0));
            gen_balanced(&mut rng, 1, &mut input, 60);
            input.push(tk("rb", 0));
        }
        // tokens after the call
        for _ in 0..rng.below(4) {
            input.push(tk("c", 1 + rng.below(5)));
        }
        match run_case(&d, &input) {
            None => skipped += 1,
            Some(obs) => out.line(&json!({"d":d,"input":input,"obs":obs})),
        }
    }
    eprintln!("{}", json!({"generated":n,"skipped_unrenderable":skipped}));
    0
}
