//! C06 -- integers, dimensions, glue: scan, print and compute exactly as TeX does.
//!
//! Nothing here knows what the right answer is.  The subcommands only *record* what the real
//! code does (binding F: one ndjson call event per line, validated by specs/Trace_TexArith.tla)
//! or compare the real code with tables of its own output that TLC has validated entry by entry
//! (the exhaustive print/scan sweep).
//!
//!   c06-direct  out=F seed=N n=N            call events of common::Scaled / common::Glue
//!   c06-vm      out=F seed=N n=N [pairs=0]  generated TeX programs run on a texlang VM
//!   c06-sweep   out=F mode=stride|full seed=N count=N threads=N
//!   c06-run     src=...  [em=N ex=N]        run one program (replay / debugging)
use crate::util::{catch, quiet_panics, Args, Out, Rng};
use common::{Glue, GlueOrder, Scaled, ScaledUnit};
use serde_json::{json, Value};
use std::cell::{Cell, RefCell};
use std::collections::HashMap;
use std::fmt::Write as _;
use texlang::command;
use texlang::prelude as txl;
use texlang::traits::*;
use texlang::vm::implement_has_component;
use texlang::*;
use texlang_stdlib::{expansion, math, registers, the};

pub fn dispatch(cmd: &str, args: &Args) -> Option<i32> {
    Some(match cmd {
        "c06-direct" => direct(args),
        "c06-vm" => vm_events(args),
        "c06-sweep" => sweep(args),
        "c06-run" => run_one(args),
        _ => return None,
    })
}

// ------------------------------------------------------------------------------------------
// the VM under test: the stdlib's register, \the and arithmetic primitives, wired exactly as in
// texlang_stdlib::built_in_commands(), on a state that supplies the font dimensions for em / ex
// ------------------------------------------------------------------------------------------

#[derive(Default)]
struct State {
    count: registers::Component<i32, 256>,
    dimen: registers::Component<Scaled, 256>,
    skip: registers::Component<Glue, 256>,
    em: Scaled,
    ex: Scaled,
}

thread_local! {
    // what the program has delivered so far; kept outside the VM so that it survives a panic
    static DELIVERED: RefCell<String> = const { RefCell::new(String::new()) };
    static ERRORS: Cell<usize> = const { Cell::new(0) };
}

impl TexlangState for State {
    fn em_width(&self) -> Scaled {
        self.em
    }
    fn ex_height(&self) -> Scaled {
        self.ex
    }
    fn recoverable_error_hook(
        &self,
        _: error::TracedTexError,
    ) -> Result<(), Box<dyn error::TexError>> {
        ERRORS.with(|e| e.set(e.get() + 1));
        Ok(())
    }
}

impl the::TheCompatible for State {}

implement_has_component![State {
    count: registers::Component<i32, 256>,
    dimen: registers::Component<Scaled, 256>,
    skip: registers::Component<Glue, 256>,
}];

struct Handlers;

impl vm::Handlers<State> for Handlers {
    fn character_handler(
        input: &mut vm::ExecutionInput<State>,
        _: token::Token,
        c: char,
    ) -> txl::Result<()> {
        _ = input;
        DELIVERED.with(|d| d.borrow_mut().push(c));
        Ok(())
    }
}

fn commands() -> HashMap<&'static str, command::BuiltIn<State>> {
    HashMap::from([
        ("advance", math::get_advance()),
        ("count", registers::get_count()),
        ("dimen", registers::get_dimen()),
        ("divide", math::get_divide()),
        ("multiply", math::get_multiply()),
        ("relax", expansion::get_relax()),
        ("skip", registers::get_skip()),
        ("the", the::get_the()),
    ])
}

enum Outcome {
    Done { out: String, errs: usize },
    /// message, characters delivered before the fatal error
    Fatal(String, String),
    /// site, message, characters delivered before the panic
    Panic(String, String, String),
}

fn run_program(src: &str, em: i32, ex: i32) -> Outcome {
    DELIVERED.with(|d| d.borrow_mut().clear());
    ERRORS.with(|e| e.set(0));
    let r = catch(|| {
        let mut vm = vm::VM::<State>::new_with_built_in_commands(commands());
        vm.state.em = Scaled(em);
        vm.state.ex = Scaled(ex);
        if vm.push_source("c06.tex", src).is_err() {
            return Err("push_source failed".to_string());
        }
        match vm.run::<Handlers>() {
            Ok(()) => Ok(()),
            Err(e) => Err(e.error.title()),
        }
    });
    let mut out = DELIVERED.with(|d| d.borrow().clone());
    match r {
        Ok(Ok(())) => {
            // the end of the (single) input line yields one space token
            if out.ends_with(' ') {
                out.pop();
            }
            Outcome::Done { out, errs: ERRORS.with(|e| e.get()) }
        }
        Ok(Err(msg)) => Outcome::Fatal(msg, out),
        Err((site, msg)) => Outcome::Panic(site, msg, out),
    }
}

// ------------------------------------------------------------------------------------------
// programs: structured steps, rendered to TeX source for the VM and to token codes for TLC
// ------------------------------------------------------------------------------------------

#[derive(Clone, Debug, PartialEq)]
enum Tok {
    Ch(char),
    /// single-character control sequence, only used after `
    Cs1(char),
    /// \count i (1), \dimen i (2), \skip i (3); rendered with the space that ends the number
    Reg(u8, u8),
}

const REG_NAMES: [&str; 4] = ["", "count", "dimen", "skip"];

#[derive(Clone, Debug)]
struct Step {
    op: &'static str, // set adv mul div the
    t: u8,
    i: u8,
    /// a space between the register number and the rest (consumed by the number)
    idx_space: bool,
    rhs: Vec<Tok>,
}

fn render_toks(toks: &[Tok], s: &mut String) {
    for t in toks {
        match t {
            Tok::Ch(c) => s.push(*c),
            Tok::Cs1(c) => {
                s.push('\\');
                s.push(*c);
            }
            Tok::Reg(k, i) => {
                let _ = write!(s, "\\{}{} ", REG_NAMES[*k as usize], i);
            }
        }
    }
}

fn render(steps: &[Step]) -> String {
    let mut s = String::new();
    for st in steps {
        let reg = format!("\\{}{}", REG_NAMES[st.t as usize], st.i);
        match st.op {
            "the" => {
                let _ = write!(s, "\\the{reg};");
                continue;
            }
            "set" => s.push_str(&reg),
            "adv" => {
                let _ = write!(s, "\\advance{reg}");
            }
            "mul" => {
                let _ = write!(s, "\\multiply{reg}");
            }
            "div" => {
                let _ = write!(s, "\\divide{reg}");
            }
            _ => unreachable!(),
        }
        if st.idx_space {
            s.push(' ');
        }
        render_toks(&st.rhs, &mut s);
        s.push_str("\\relax ");
    }
    s
}

fn encode_toks(toks: &[Tok]) -> Vec<i64> {
    toks.iter()
        .map(|t| match t {
            Tok::Ch(c) => *c as i64,
            Tok::Cs1(c) => 1000 + *c as i64,
            Tok::Reg(k, i) => -(100 * *k as i64 + *i as i64),
        })
        .collect()
}

fn encode(steps: &[Step]) -> Value {
    Value::Array(
        steps
            .iter()
            .map(|s| json!({"op": s.op, "t": s.t, "i": s.i, "rhs": encode_toks(&s.rhs)}))
            .collect(),
    )
}

fn codes(s: &str) -> Vec<u32> {
    s.chars().map(|c| c as u32).collect()
}

fn emit_program(out: &mut Out, steps: &[Step], em: i32, ex: i32, tag: &str) {
    let src = render(steps);
    let mut ev = json!({"k": "vm", "tag": tag, "src": src, "em": em, "ex": ex, "steps": encode(steps)});
    match run_program(&src, em, ex) {
        Outcome::Done { out: o, errs } => {
            ev["out"] = json!(codes(&o));
            ev["errs"] = json!(errs);
        }
        Outcome::Fatal(msg, o) => {
            ev["panic"] = json!(["fatal-error", msg]);
            ev["out"] = json!(codes(&o));
        }
        Outcome::Panic(site, msg, o) => {
            ev["panic"] = json!([site, msg]);
            ev["out"] = json!(codes(&o));
            // which primitive was executing: the shortest prefix of the program that panics
            for k in 1..=steps.len() {
                if let Outcome::Panic(..) = run_program(&render(&steps[..k]), em, ex) {
                    ev["pstep"] = json!(format!("{}-{}", steps[k - 1].op, REG_NAMES[steps[k - 1].t as usize]));
                    break;
                }
            }
        }
    }
    out.line(&ev);
}

// ---- generator -----------------------------------------------------------------------------

const B32: [i64; 18] = [
    0,
    1,
    -1,
    2,
    -2,
    1 << 15,
    -(1 << 15),
    1 << 16,
    -(1 << 16),
    (1 << 30) - 1,
    -((1 << 30) - 1),
    1 << 30,
    -(1 << 30),
    (1 << 31) - 1,
    -((1 << 31) - 1),
    -(1 << 31),
    3,
    -7,
];

struct Gen {
    rng: Rng,
    /// the last call of tail() appended something
    tailed: bool,
    /// inside a glue specification (what follows a dimension there may name registers)
    in_glue: bool,
    /// the dimension being written is the last part of its glue specification
    last_part: bool,
}

fn ends_blank(v: &[Tok]) -> bool {
    // a following space character would not produce a second space token
    match v.last() {
        None => false,
        Some(Tok::Ch(' ')) | Some(Tok::Reg(..)) => true,
        Some(Tok::Cs1(c)) => c.is_ascii_alphabetic(),
        _ => false,
    }
}

fn push_str(v: &mut Vec<Tok>, s: &str) {
    for c in s.chars() {
        v.push(Tok::Ch(c));
    }
}

impl Gen {
    fn maybe_space(&mut self, v: &mut Vec<Tok>, num: u64, den: u64) {
        if !v.is_empty() && !ends_blank(v) && self.rng.chance(num, den) {
            v.push(Tok::Ch(' '));
        }
    }

    fn kw(&mut self, v: &mut Vec<Tok>, word: &str) {
        let style = self.rng.below(8);
        for (k, c) in word.chars().enumerate() {
            let up = match style {
                0 => true,
                1 => k == 0,
                2 => self.rng.chance(1, 2),
                _ => false,
            };
            v.push(Tok::Ch(if up { c.to_ascii_uppercase() } else { c }));
        }
    }

    fn signs(&mut self, v: &mut Vec<Tok>, first_may_be_space: bool) {
        let n = match self.rng.below(10) {
            0..=4 => 0,
            5..=7 => 1,
            8 => 2,
            _ => 3,
        };
        if first_may_be_space && self.rng.chance(1, 6) && !ends_blank(v) && !v.is_empty() {
            v.push(Tok::Ch(' '));
        }
        for _ in 0..n {
            v.push(Tok::Ch(if self.rng.chance(2, 3) { '-' } else { '+' }));
            if self.rng.chance(1, 4) {
                v.push(Tok::Ch(' '));
            }
        }
    }

    fn big_unsigned(&mut self) -> u64 {
        const V: [u64; 30] = [
            0,
            1,
            7,
            8,
            9,
            10,
            255,
            256,
            32767,
            32768,
            65535,
            65536,
            16383,
            16384,
            1073741823,
            1073741824,
            214748364,
            214748365,
            2147483639,
            2147483640,
            2147483647,
            2147483648,
            2147483649,
            4294967295,
            4294967296,
            21474836470,
            99999999999,
            268435455,
            268435456,
            134217728,
        ];
        match self.rng.below(20) {
            0..=5 => *self.rng.pick(&V),
            6..=8 => self.rng.below(1 << 16),
            9..=10 => self.rng.below(1 << 31),
            11 => self.rng.below(1 << 33),
            _ => self.rng.below(100),
        }
    }

    /// a numeric constant (no sign); returns true if it is decimal
    fn constant(&mut self, v: &mut Vec<Tok>, n: u64, allow_radix: bool) -> bool {
        self.constant_sp(v, n, allow_radix, true)
    }

    fn constant_sp(&mut self, v: &mut Vec<Tok>, n: u64, allow_radix: bool, hex_space: bool) -> bool {
        let kind = if allow_radix { self.rng.below(10) } else { 0 };
        match kind {
            7 => {
                push_str(v, &format!("'{n:o}"));
                false
            }
            8 | 9 => {
                push_str(v, &format!("\"{n:X}"));
                // a following unit in capitals must not be read as hex digits
                if hex_space {
                    v.push(Tok::Ch(' '));
                }
                false
            }
            _ => {
                if self.rng.chance(1, 8) {
                    let z = self.rng.below(3) + 1;
                    for _ in 0..z {
                        v.push(Tok::Ch('0'));
                    }
                }
                push_str(v, &n.to_string());
                true
            }
        }
    }

    fn alpha(&mut self, v: &mut Vec<Tok>, last: bool) {
        const PLAIN: &str = "AZaz09!?*+-=<>@[]()/.,;:'\"|`m";
        const CS: &str = "%&#$_{}-7.";
        v.push(Tok::Ch('`'));
        match self.rng.below(3) {
            0 if last => v.push(Tok::Cs1(*self.rng.pick(&['A', 'z', 'q']))),
            1 => {
                let c: Vec<char> = CS.chars().collect();
                v.push(Tok::Cs1(*self.rng.pick(&c)));
            }
            _ => {
                let c: Vec<char> = PLAIN.chars().collect();
                v.push(Tok::Ch(*self.rng.pick(&c)));
            }
        }
    }

    /// <number>: signs, then a constant / alphabetic constant / internal quantity
    fn int_text(&mut self, v: &mut Vec<Tok>, regs: &[(u8, u8)]) {
        self.signs(v, true);
        match self.rng.below(12) {
            0 if !regs.is_empty() => {
                let (k, i) = *self.rng.pick(regs);
                v.push(Tok::Reg(k, i));
            }
            1 => {
                self.alpha(v, true);
                if !ends_blank(v) && self.rng.chance(1, 2) {
                    v.push(Tok::Ch(' '));
                }
            }
            2 => {
                // a constant directly followed by characters that may or may not belong to it:
                // whatever the scanner leaves is typeset and shows up in the output
                let n = self.big_unsigned();
                self.constant_sp(v, n, true, false);
                const TAIL: [&str; 14] = ["8", "9", "a", "f", "g", "G", "A", "F", "pt", ".5", "x", "e", "l", "-1"];
                let t = *self.rng.pick(&TAIL);
                push_str(v, t);
            }
            _ => {
                let n = self.big_unsigned();
                self.constant(v, n, true);
                self.maybe_space(v, 1, 2);
            }
        }
    }

    /// characters after a complete dimension or glue: left for the typesetter
    fn tail(&mut self, v: &mut Vec<Tok>) {
        self.tailed = false;
        // (not after a blank: TeX's scan_keyword skips blanks before a further `l' of fil, texcraft
        // does not; that difference belongs to keyword scanning, not to this property)
        if self.rng.chance(1, 10) && !ends_blank(v) && !matches!(v.last(), Some(Tok::Cs1(_))) {
            const TAIL: [&str; 8] = ["l", "L", "x", "8", "pt", "fil", "em", ".5"];
            let t = *self.rng.pick(&TAIL);
            push_str(v, t);
            self.tailed = true;
        }
    }

    fn fraction_digits(&mut self) -> String {
        const F: [&str; 22] = [
            "",
            "0",
            "5",
            "9",
            "25",
            "99999",
            "999999",
            "99998",
            "99997",
            "00001",
            "00000762939453125",
            "00000762939453124",
            "000007629394531250000",
            "0000076293945312499999",
            "00000762939453126",
            "0000076293945312",
            "00002288818359375",
            "000022888183593749",
            "99999237060546875",
            "9999923706054687499",
            "5000076293945312500",
            "33333333333333333333",
        ];
        if self.rng.chance(1, 3) {
            (*self.rng.pick(&F)).to_string()
        } else {
            let n = self.rng.below(21);
            (0..n).map(|_| char::from(b'0' + self.rng.below(10) as u8)).collect()
        }
    }

    fn int_part(&mut self) -> u64 {
        const I: [u64; 34] = [
            0, 1, 2, 9, 12, 100, 226, 227, 575, 576, 1276, 1277, 1365, 1366, 5758, 5759, 15311, 15312,
            16322, 16323, 16382, 16383, 16384, 32767, 32768, 65535, 65536, 99999, 1073741823,
            1073741824, 2147483647, 2147483648, 300000000, 99999999999,
        ];
        match self.rng.below(20) {
            0..=4 => *self.rng.pick(&I),
            5..=13 => self.rng.below(20),
            14..=16 => self.rng.below(600),
            17..=18 => self.rng.below(17000),
            _ => self.rng.below(1 << 32),
        }
    }

    fn unit(&mut self, v: &mut Vec<Tok>, inf: bool, regs: &[(u8, u8)]) {
        const PHYS: [&str; 9] = ["pt", "pc", "in", "bp", "cm", "mm", "dd", "cc", "sp"];
        let r = self.rng.below(20);
        if inf && r < 7 {
            self.kw(v, "fil");
            let extra = match self.rng.below(8) {
                0..=2 => 0,
                3..=4 => 1,
                5..=6 => 2,
                _ => 3 + self.rng.below(2),
            };
            for _ in 0..extra {
                // every further l is a keyword of its own (TeX 454): a blank may stand in front of it.  Only in the
                // last part of a glue specification: where the blank ends the unit (recorded finding) the rest is
                // typeset, and it must be plain letters
                if self.last_part && self.rng.chance(1, 5) {
                    v.push(Tok::Ch(' '));
                }
                v.push(Tok::Ch(if self.rng.chance(1, 6) { 'L' } else { 'l' }));
            }
            self.maybe_space(v, 2, 3);
        } else if r < 9 && !regs.is_empty() {
            let (k, i) = *self.rng.pick(regs);
            v.push(Tok::Reg(k, i));
        } else if r < 11 {
            let w = if self.rng.chance(1, 2) { "em" } else { "ex" };
            self.kw(v, w);
            self.maybe_space(v, 2, 3);
        } else {
            // TeX 457: `true' in front of a physical unit; scan_keyword passes over blanks in front of the unit
            if self.rng.chance(1, 6) {
                self.kw(v, "true");
                self.maybe_space(v, 1, 2);
            }
            let w = *self.rng.pick(&PHYS);
            self.kw(v, w);
            self.maybe_space(v, 2, 3);
        }
    }

    /// <dimen>: signs, then coefficient and unit, or an internal dimension
    fn dimen_text(&mut self, v: &mut Vec<Tok>, inf: bool, regs: &[(u8, u8)]) {
        self.signs(v, true);
        let dim_regs: Vec<(u8, u8)> = regs.iter().copied().filter(|r| r.0 != 1).collect();
        let int_regs: Vec<(u8, u8)> = regs.iter().copied().filter(|r| r.0 == 1).collect();
        match self.rng.below(14) {
            0 if !dim_regs.is_empty() => {
                let (k, i) = *self.rng.pick(&dim_regs);
                v.push(Tok::Reg(k, i));
            }
            1 if !int_regs.is_empty() => {
                let (k, i) = *self.rng.pick(&int_regs);
                v.push(Tok::Reg(k, i));
                self.unit(v, inf, regs);
            }
            2 => {
                // octal / hexadecimal / alphabetic coefficient
                if self.rng.chance(1, 3) {
                    self.alpha(v, false);
                } else {
                    let n = self.int_part();
                    let mut tmp = Vec::new();
                    while self.constant(&mut tmp, n, true) {
                        tmp.clear();
                    }
                    v.extend(tmp);
                }
                self.maybe_space(v, 1, 2);
                self.unit(v, inf, regs);
            }
            k => {
                let mut blank_before_point = false;
                let point = if self.rng.chance(1, 8) { ',' } else { '.' };
                if k == 3 {
                    // fraction only
                    v.push(Tok::Ch(point));
                    let f = self.fraction_digits();
                    push_str(v, &f);
                } else {
                    let n = self.int_part();
                    self.constant(v, n, false);
                    if self.rng.chance(2, 3) {
                        // a blank ends the integer: the point after it is no longer part of the number (TeX 448);
                        // what follows is then typeset, so it must not be a register (that would be an assignment)
                        if !self.in_glue && self.rng.chance(1, 8) && !ends_blank(v) {
                            v.push(Tok::Ch(' '));
                            blank_before_point = true;
                        }
                        v.push(Tok::Ch(point));
                        let f = self.fraction_digits();
                        push_str(v, &f);
                    }
                }
                self.maybe_space(v, 1, 3);
                self.unit(v, inf, if blank_before_point { &[] } else { regs });
            }
        }
    }

    fn glue_text(&mut self, v: &mut Vec<Tok>, regs: &[(u8, u8)]) {
        self.in_glue = true;
        self.glue_text_impl(v, regs);
        self.in_glue = false;
    }

    fn glue_text_impl(&mut self, v: &mut Vec<Tok>, regs: &[(u8, u8)]) {
        let skips: Vec<(u8, u8)> = regs.iter().copied().filter(|r| r.0 == 3).collect();
        if !skips.is_empty() && self.rng.chance(1, 8) {
            self.signs(v, true);
            let (k, i) = *self.rng.pick(&skips);
            v.push(Tok::Reg(k, i));
            return;
        }
        // the width may not be just an internal glue (that would end the scan); a \skip register
        // can still be used as a *unit* inside dimen_text
        let mut w = Vec::new();
        loop {
            w.clear();
            self.dimen_text(&mut w, false, regs);
            // reject a width that is just an internal glue
            let body: Vec<&Tok> =
                w.iter().filter(|t| !matches!(t, Tok::Ch(' ' | '+' | '-'))).collect();
            if !(body.len() == 1 && matches!(body[0], Tok::Reg(3, _))) {
                break;
            }
        }
        v.extend(w);
        let plus = self.rng.chance(3, 5);
        let minus = self.rng.chance(3, 5);
        if plus {
            self.maybe_space(v, 1, 2);
            self.kw(v, "plus");
            self.maybe_space(v, 1, 2);
            self.last_part = !minus;
            self.dimen_text(v, true, regs);
            self.last_part = false;
        }
        if minus {
            self.maybe_space(v, 1, 2);
            self.kw(v, "minus");
            self.maybe_space(v, 1, 2);
            self.last_part = true;
            self.dimen_text(v, true, regs);
            self.last_part = false;
        }
    }

    /// the text between the register number and the value of an assignment
    fn lead_set(&mut self, body: Vec<Tok>) -> (bool, Vec<Tok>) {
        let mut rhs = Vec::new();
        let idx_space;
        match self.rng.below(6) {
            0 => {
                // no equals sign: the space ends the register number
                idx_space = true;
            }
            1 => {
                idx_space = true;
                rhs.push(Tok::Ch('='));
            }
            2 => {
                idx_space = false;
                rhs.push(Tok::Ch('='));
                rhs.push(Tok::Ch(' '));
            }
            _ => {
                idx_space = false;
                rhs.push(Tok::Ch('='));
            }
        }
        let mut body = body;
        if (idx_space && rhs.is_empty() || ends_blank(&rhs)) && body.first() == Some(&Tok::Ch(' ')) {
            body.remove(0);
        }
        rhs.extend(body);
        (idx_space, rhs)
    }

    fn lead_by(&mut self, body: Vec<Tok>) -> (bool, Vec<Tok>) {
        let mut rhs = Vec::new();
        let idx_space;
        match self.rng.below(6) {
            0 => {
                idx_space = true; // no `by`
            }
            1 => {
                idx_space = false;
                self.kw(&mut rhs, "by");
            }
            2 => {
                idx_space = true;
                self.kw(&mut rhs, "by");
            }
            _ => {
                idx_space = true;
                push_str(&mut rhs, "by ");
            }
        }
        let mut body = body;
        if (idx_space && rhs.is_empty() || ends_blank(&rhs)) && body.first() == Some(&Tok::Ch(' ')) {
            body.remove(0);
        }
        // "by" directly followed by a letter-like start cannot happen: values start with
        // sign / digit / point / quote / register
        rhs.extend(body);
        (idx_space, rhs)
    }

    fn step_set(&mut self, t: u8, i: u8, body: Vec<Tok>) -> Step {
        let (idx_space, rhs) = self.lead_set(body);
        Step { op: "set", t, i, idx_space, rhs }
    }

    fn step_op(&mut self, op: &'static str, t: u8, i: u8, body: Vec<Tok>) -> Step {
        let (idx_space, rhs) = self.lead_by(body);
        Step { op, t, i, idx_space, rhs }
    }
}

fn the(t: u8, i: u8) -> Step {
    Step { op: "the", t, i, idx_space: false, rhs: vec![] }
}

fn plain_set(t: u8, i: u8, text: &str) -> Step {
    let mut rhs = vec![Tok::Ch('=')];
    push_str(&mut rhs, text);
    Step { op: "set", t, i, idx_space: false, rhs }
}

fn plain_op(op: &'static str, t: u8, i: u8, text: &str) -> Step {
    let mut rhs = Vec::new();
    push_str(&mut rhs, "by ");
    push_str(&mut rhs, text);
    Step { op, t, i, idx_space: true, rhs }
}

fn plain_op_reg(op: &'static str, t: u8, i: u8, k: u8, j: u8) -> Step {
    let mut rhs = Vec::new();
    push_str(&mut rhs, "by ");
    rhs.push(Tok::Reg(k, j));
    Step { op, t, i, idx_space: true, rhs }
}

const MAXD: i64 = (1 << 30) - 1;

/// steps that bring a 32-bit value into \count i or (in sp) into \dimen i
fn load(steps: &mut Vec<Step>, t: u8, i: u8, v: i64) {
    match t {
        1 => {
            if v == -(1 << 31) {
                steps.push(plain_set(1, i, "-2147483647"));
                steps.push(plain_op("adv", 1, i, "-1"));
            } else {
                steps.push(plain_set(1, i, &v.to_string()));
            }
        }
        2 => {
            let mut rest = v;
            let mut first = true;
            loop {
                let c = rest.clamp(-MAXD, MAXD);
                if first {
                    steps.push(plain_set(2, i, &format!("{c}sp")));
                    first = false;
                } else {
                    steps.push(plain_op("adv", 2, i, &format!("{c}sp")));
                }
                rest -= c;
                if rest == 0 {
                    break;
                }
            }
        }
        _ => unreachable!(),
    }
}

/// the decimal text of `amount` sp as a multiple of the unit, taken from the code under test
/// (input generation only: the specification evaluates whatever text results)
fn coefficient(amount: i64) -> String {
    let a = amount.clamp(-MAXD, MAXD) as i32;
    format!("{}", Scaled(a).display_no_units())
}

const ORDER_UNITS: [&str; 4] = ["pt", "fil", "fill", "filll"];

fn glue_literal(g: &[i64; 5]) -> String {
    let mut s = format!("{}sp", g[0].clamp(-MAXD, MAXD));
    if g[1] != 0 || g[2] != 0 {
        if g[2] == 0 {
            let _ = write!(s, " plus {}sp", g[1].clamp(-MAXD, MAXD));
        } else {
            let _ = write!(s, " plus {}{}", coefficient(g[1]), ORDER_UNITS[g[2] as usize]);
        }
    }
    if g[3] != 0 || g[4] != 0 {
        if g[4] == 0 {
            let _ = write!(s, " minus {}sp", g[3].clamp(-MAXD, MAXD));
        } else {
            let _ = write!(s, " minus {}{}", coefficient(g[3]), ORDER_UNITS[g[4] as usize]);
        }
    }
    s
}

fn random_glue(rng: &mut Rng) -> [i64; 5] {
    let amt = |rng: &mut Rng| -> i64 {
        match rng.below(6) {
            0 => 0,
            1 => *rng.pick(&B32[..11]),
            2 => rng.range(-200000, 200000),
            3 => 65536 * rng.range(-20, 20),
            _ => rng.range(-MAXD, MAXD),
        }
    };
    let ord = |rng: &mut Rng| -> i64 {
        if rng.chance(1, 2) {
            0
        } else {
            rng.range(1, 3)
        }
    };
    [amt(rng), amt(rng), ord(rng), amt(rng), ord(rng)]
}

fn font_dims(rng: &mut Rng) -> (i32, i32) {
    let pick = |rng: &mut Rng| -> i32 {
        match rng.below(6) {
            0 => 0,
            1 => 655360,
            2 => 282168,
            3 => -65536,
            4 => *rng.pick(&[1, 65535, 65537, (1 << 30) - 1, -((1 << 30) - 1), 1 << 29]),
            _ => rng.range(-(1 << 22), 1 << 22) as i32,
        }
    };
    (pick(rng), pick(rng))
}

fn vm_events(args: &Args) -> i32 {
    quiet_panics();
    let seed: u64 = args.num("seed", 1);
    let n: u64 = args.num("n", 1000);
    let pairs: u64 = args.num("pairs", 1);
    let mut out = Out::new(args.str("out"));
    let mut g = Gen { rng: Rng::new(seed ^ 0xC06), tailed: false, in_glue: false, last_part: false };

    // ---- (a) every ordered pair of boundary operands, for each primitive and register type
    if pairs != 0 {
        for &a in B32.iter() {
            for &b in B32.iter() {
                for op in ["adv", "mul", "div"] {
                    // integers
                    let mut s = Vec::new();
                    load(&mut s, 1, 1, a);
                    load(&mut s, 1, 2, b);
                    s.push(plain_op_reg(op, 1, 1, 1, 2));
                    s.push(the(1, 1));
                    emit_program(&mut out, &s, 655360, 282168, "pair-int");
                    // dimensions (the second operand of \advance is a dimension)
                    let mut s = Vec::new();
                    load(&mut s, 2, 1, a);
                    if op == "adv" {
                        load(&mut s, 2, 2, b);
                        s.push(plain_op_reg(op, 2, 1, 2, 2));
                    } else {
                        load(&mut s, 1, 2, b);
                        s.push(plain_op_reg(op, 2, 1, 1, 2));
                    }
                    s.push(the(2, 1));
                    emit_program(&mut out, &s, 655360, 282168, "pair-dimen");
                    // glue: the operand pair is used for the width and, rotated, for stretch/shrink
                    if a.abs() <= MAXD && (op != "adv" || b.abs() <= MAXD) {
                        let c = B32[((a.unsigned_abs() + b.unsigned_abs()) % 11) as usize];
                        let ga = [a, c, (a.unsigned_abs() % 4) as i64, a, (b.unsigned_abs() % 3) as i64];
                        let mut s = vec![plain_set(3, 1, &glue_literal(&ga))];
                        if op == "adv" {
                            let gb = [b, a, (b.unsigned_abs() % 4) as i64, c, 0];
                            s.push(plain_op("adv", 3, 1, &glue_literal(&gb)));
                        } else {
                            load(&mut s, 1, 2, b);
                            s.push(plain_op_reg(op, 3, 1, 1, 2));
                        }
                        s.push(the(3, 1));
                        emit_program(&mut out, &s, 655360, 282168, "pair-glue");
                    }
                }
                // coercions with the pair: <count a><dimen b>, -<dimen>, count<-dimen, skip<-...
                let mut s = Vec::new();
                load(&mut s, 1, 1, a);
                load(&mut s, 2, 2, b);
                s.push(Step { op: "set", t: 2, i: 3, idx_space: false, rhs: vec![Tok::Ch('='), Tok::Reg(1, 1), Tok::Reg(2, 2)] });
                s.push(the(2, 3));
                s.push(Step { op: "set", t: 1, i: 4, idx_space: false, rhs: vec![Tok::Ch('='), Tok::Ch('-'), Tok::Reg(2, 2)] });
                s.push(the(1, 4));
                emit_program(&mut out, &s, 655360, 282168, "pair-coerce");
                for unit in ["sp", "pt", "in"] {
                    let mut s = Vec::new();
                    load(&mut s, 1, 1, a);
                    let mut rhs = vec![Tok::Ch('='), Tok::Reg(1, 1)];
                    push_str(&mut rhs, unit);
                    s.push(Step { op: "set", t: 2, i: 3, idx_space: false, rhs: rhs.clone() });
                    s.push(the(2, 3));
                    rhs.insert(1, Tok::Ch('-'));
                    push_str(&mut rhs, " plus ");
                    rhs.push(Tok::Reg(1, 1));
                    push_str(&mut rhs, "fil");
                    s.push(Step { op: "set", t: 3, i: 4, idx_space: false, rhs });
                    s.push(the(3, 4));
                    emit_program(&mut out, &s, 655360, 282168, "pair-coerce-unit");
                    if b != a {
                        break;
                    }
                }
            }
            // single-operand coercions of a dimension that may be out of TeX's range
            let mut s = Vec::new();
            load(&mut s, 2, 1, a);
            s.push(Step { op: "set", t: 2, i: 2, idx_space: false, rhs: vec![Tok::Ch('='), Tok::Reg(2, 1)] });
            s.push(the(2, 2));
            s.push(Step { op: "set", t: 2, i: 3, idx_space: false, rhs: vec![Tok::Ch('='), Tok::Ch('-'), Tok::Reg(2, 1)] });
            s.push(the(2, 3));
            emit_program(&mut out, &s, 655360, 282168, "copy-dimen");
            let mut s = Vec::new();
            load(&mut s, 2, 1, a);
            s.push(Step { op: "set", t: 3, i: 2, idx_space: false, rhs: vec![Tok::Ch('='), Tok::Reg(2, 1)] });
            s.push(the(3, 2));
            s.push(Step { op: "set", t: 3, i: 3, idx_space: false, rhs: vec![Tok::Ch('='), Tok::Ch('-'), Tok::Reg(2, 1)] });
            s.push(the(3, 3));
            s.push(Step { op: "set", t: 1, i: 3, idx_space: false, rhs: vec![Tok::Ch('='), Tok::Reg(3, 3)] });
            s.push(the(1, 3));
            emit_program(&mut out, &s, 655360, 282168, "copy-skip");
            for f in ["0.5", "1.5", ".99999", "0"] {
                let mut s = Vec::new();
                load(&mut s, 2, 1, a);
                let mut rhs = vec![Tok::Ch('=')];
                push_str(&mut rhs, f);
                rhs.push(Tok::Reg(2, 1));
                s.push(Step { op: "set", t: 2, i: 2, idx_space: false, rhs });
                s.push(the(2, 2));
                emit_program(&mut out, &s, 655360, 282168, "frac-of-dimen");
            }
        }
    }

    // ---- (a') the fraction that rounds up to 2^16 (102) next to the largest integer parts
    if pairs != 0 {
        for ip in ["16383", "16382", "0", "1365", "226"] {
            for fr in [".99999237060546875", ".9999923706054687499", ".99999", ".999992"] {
                for unit in ["pt", "sp", "em", "ex", "in", "pc", "fil", "fill", "filll", "\\dimen2 "] {
                    let mut s = vec![plain_set(2, 2, "1pt")];
                    let text = if unit.starts_with("fil") {
                        s.push(plain_set(3, 1, &format!("0pt plus {ip}{fr}{unit} minus -{ip}{fr}{unit}")));
                        s.push(the(3, 1));
                        emit_program(&mut out, &s, 65536, 131072, "carry");
                        continue;
                    } else {
                        format!("{ip}{fr}{unit}")
                    };
                    if unit.starts_with('\\') {
                        let mut rhs = vec![Tok::Ch('=')];
                        push_str(&mut rhs, &format!("{ip}{fr}"));
                        rhs.push(Tok::Reg(2, 2));
                        s.push(Step { op: "set", t: 2, i: 1, idx_space: false, rhs });
                    } else {
                        s.push(plain_set(2, 1, &text));
                    }
                    s.push(the(2, 1));
                    emit_program(&mut out, &s, 65536, 131072, "carry");
                }
            }
        }
    }

    // ---- (b) seeded random programs
    for k in 0..n {
        let (em, ex) = font_dims(&mut g.rng);
        let mut steps: Vec<Step> = Vec::new();
        let mut regs: Vec<(u8, u8)> = Vec::new();
        match k % 8 {
            0 => {
                // an integer constant
                let mut b = Vec::new();
                g.int_text(&mut b, &[]);
                steps.push(g.step_set(1, 1, b));
                steps.push(the(1, 1));
            }
            1 | 2 => {
                // a dimension constant
                let mut b = Vec::new();
                g.dimen_text(&mut b, false, &[]);
                g.tail(&mut b);
                steps.push(g.step_set(2, 1, b));
                steps.push(the(2, 1));
            }
            3 => {
                // a glue constant
                let mut b = Vec::new();
                g.glue_text(&mut b, &[]);
                g.tail(&mut b);
                steps.push(g.step_set(3, 1, b));
                steps.push(the(3, 1));
            }
            4 => {
                // random operand pair for one arithmetic primitive
                let t = 1 + g.rng.below(3) as u8;
                let op = *g.rng.pick(&["adv", "mul", "div"]);
                let val = |g: &mut Gen| -> i64 {
                    match g.rng.below(5) {
                        0 => *g.rng.pick(&B32),
                        1 => g.rng.range(-100, 100),
                        2 => g.rng.range(-70000, 70000),
                        _ => g.rng.range(-(1 << 31), (1 << 31) - 1),
                    }
                };
                let (a, b) = (val(&mut g), val(&mut g));
                if t == 3 {
                    let ga = random_glue(&mut g.rng);
                    steps.push(plain_set(3, 1, &glue_literal(&ga)));
                    if op == "adv" {
                        let gb = random_glue(&mut g.rng);
                        let mut body = Vec::new();
                        push_str(&mut body, &glue_literal(&gb));
                        steps.push(g.step_op("adv", 3, 1, body));
                    } else {
                        load(&mut steps, 1, 2, b);
                        steps.push(plain_op_reg(op, 3, 1, 1, 2));
                    }
                } else {
                    load(&mut steps, t, 1, a);
                    if op == "adv" && t == 2 {
                        load(&mut steps, 2, 2, b);
                        steps.push(plain_op_reg(op, 2, 1, 2, 2));
                    } else if b > -(1 << 31) && g.rng.chance(1, 2) {
                        let mut body = Vec::new();
                        push_str(&mut body, &b.to_string());
                        g.maybe_space(&mut body, 1, 2);
                        steps.push(g.step_op(op, t, 1, body));
                    } else {
                        load(&mut steps, 1, 2, b);
                        steps.push(plain_op_reg(op, t, 1, 1, 2));
                    }
                }
                steps.push(the(t, 1));
            }
            _ => {
                // a longer program: registers are filled, combined and read
                let len = 3 + g.rng.below(6);
                for _ in 0..len {
                    let t = 1 + g.rng.below(3) as u8;
                    let i = g.rng.below(4) as u8;
                    let op = if regs.contains(&(t, i)) { g.rng.below(6) } else { 0 };
                    let mut b = Vec::new();
                    match (op, t) {
                        (0 | 1, 1) => {
                            g.int_text(&mut b, &regs);
                            steps.push(g.step_set(t, i, b));
                        }
                        (0 | 1, 2) => {
                            g.dimen_text(&mut b, false, &regs);
                            g.tail(&mut b);
                            steps.push(g.step_set(t, i, b));
                        }
                        (0 | 1, _) => {
                            g.glue_text(&mut b, &regs);
                            g.tail(&mut b);
                            steps.push(g.step_set(t, i, b));
                        }
                        (2 | 3, 1) => {
                            g.int_text(&mut b, &regs);
                            steps.push(g.step_op("adv", t, i, b));
                        }
                        (2 | 3, 2) => {
                            g.dimen_text(&mut b, false, &regs);
                            steps.push(g.step_op("adv", t, i, b));
                        }
                        (2 | 3, _) => {
                            g.glue_text(&mut b, &regs);
                            steps.push(g.step_op("adv", t, i, b));
                        }
                        (4, _) => {
                            g.int_text(&mut b, &regs);
                            steps.push(g.step_op("mul", t, i, b));
                        }
                        _ => {
                            g.int_text(&mut b, &regs);
                            steps.push(g.step_op("div", t, i, b));
                        }
                    }
                    if !regs.contains(&(t, i)) {
                        regs.push((t, i));
                    }
                    steps.push(the(t, i));
                }
            }
        }
        // `by` must not be followed directly by a letter; a leading `b`/`B` of the rhs right after
        // the register number is only ever the keyword.
        emit_program(&mut out, &steps, em, ex, "random");

        // ---- (c) what \the printed is scanned back (print -> scan round trip inside the VM)
        if (k % 8 == 1 || k % 8 == 3) && !g.tailed {
            let src = render(&steps);
            if let Outcome::Done { out: o, errs: 0 } = run_program(&src, em, ex) {
                if let Some(text) = o.strip_suffix(';') {
                    let starts_ok = text.starts_with(|c: char| c == '-' || c.is_ascii_digit());
                    if !text.contains(';') && starts_ok {
                        let t = steps[0].t;
                        let s2 = vec![plain_set(t, 2, text), the(t, 2)];
                        emit_program(&mut out, &s2, em, ex, "reread");
                    }
                }
            }
        }
    }
    out.flush();
    0
}

fn run_one(args: &Args) -> i32 {
    quiet_panics();
    let src = args.req("src");
    match run_program(src, args.num("em", 655360), args.num("ex", 282168)) {
        Outcome::Done { out, errs } => println!("{}", json!({"out": out, "errs": errs})),
        Outcome::Fatal(m, o) => println!("{}", json!({"fatal": m, "out": o})),
        Outcome::Panic(s, m, o) => println!("{}", json!({"panic": [s, m], "out": o})),
    }
    0
}

// ------------------------------------------------------------------------------------------
// direct call events
// ------------------------------------------------------------------------------------------

fn frac_digits(f: i32) -> String {
    // "0.ddddd" -> "ddddd"
    let s = format!("{}", Scaled(f).display_no_units());
    s.strip_prefix("0.").map(|x| x.to_string()).unwrap_or(s)
}

fn with_panic(mut ev: Value, r: Result<Value, (String, String)>) -> Value {
    match r {
        Ok(Value::Object(m)) => {
            for (k, v) in m {
                ev[k] = v;
            }
        }
        Ok(_) => unreachable!(),
        Err((site, msg)) => ev["panic"] = json!([site, msg]),
    }
    ev
}

/// any 32-bit value except -2^31 (which is outside the domain of Knuth's routines: negate)
fn any32(rng: &mut Rng) -> i32 {
    any32_min(rng).max(-i32::MAX)
}

fn any32_min(rng: &mut Rng) -> i32 {
    match rng.below(6) {
        0 => *rng.pick(&B32) as i32,
        1 => rng.range(-70000, 70000) as i32,
        2 => rng.range(-MAXD, MAXD) as i32,
        3 => (*rng.pick(&B32) + rng.range(-2, 2)).clamp(-(1 << 31), (1 << 31) - 1) as i32,
        _ => rng.range(-(1 << 31), (1 << 31) - 1) as i32,
    }
}

const UNITS: [ScaledUnit; 9] = [
    ScaledUnit::Point,
    ScaledUnit::Inch,
    ScaledUnit::Pica,
    ScaledUnit::Centimeter,
    ScaledUnit::Millimeter,
    ScaledUnit::BigPoint,
    ScaledUnit::DidotPoint,
    ScaledUnit::Cicero,
    ScaledUnit::ScaledPoint,
];
const UNIT_NAMES: [&str; 9] = ["pt", "in", "pc", "cm", "mm", "bp", "dd", "cc", "sp"];

fn order_of(o: i64) -> GlueOrder {
    match o {
        0 => GlueOrder::Normal,
        1 => GlueOrder::Fil,
        2 => GlueOrder::Fill,
        _ => GlueOrder::Filll,
    }
}

fn glue_of(g: &[i64; 5]) -> Glue {
    Glue {
        width: Scaled(g[0] as i32),
        stretch: Scaled(g[1] as i32),
        stretch_order: order_of(g[2]),
        shrink: Scaled(g[3] as i32),
        shrink_order: order_of(g[4]),
    }
}

fn glue_arr(g: &Glue) -> Value {
    json!([g.width.0, g.stretch.0, g.stretch_order as u8, g.shrink.0, g.shrink_order as u8])
}

fn direct(args: &Args) -> i32 {
    quiet_panics();
    let seed: u64 = args.num("seed", 1);
    let n: u64 = args.num("n", 2000);
    let mut out = Out::new(args.str("out"));
    let mut rng = Rng::new(seed ^ 0xD1);

    // all 2^16 fractions, as printed by the code under test
    for f in 0..65536i32 {
        let ev = json!({"k": "frac", "f": f});
        let r = catch(|| {
            let d: Vec<u32> = frac_digits(f).chars().map(|c| (c as u32).wrapping_sub('0' as u32)).collect();
            json!({"d": d})
        });
        out.line(&with_panic(ev, r));
    }
    // every integer part (the sweep uses this table), then boundary and random values
    let mut print = |s: i32, out: &mut Out| {
        let ev = json!({"k": "print", "s": s});
        let r = catch(|| json!({"txt": codes(&format!("{}", Scaled(s)))}));
        out.line(&with_panic(ev, r));
    };
    for i in 0..16384i32 {
        print(i << 16, &mut out);
    }
    for &b in B32.iter() {
        for d in -2..=2 {
            print((b + d).clamp(-(1 << 31), (1 << 31) - 1) as i32, &mut out);
        }
    }
    for _ in 0..n {
        print(any32_min(&mut rng), &mut out);
    }
    // round_decimals
    const DIG: [&str; 12] = [
        "", "0", "5", "9", "99999", "999999", "00000762939453125", "00000762939453124", "99999999999999999",
        "00001", "49999999999999999", "50000000000000000",
    ];
    for k in 0..n {
        let dig: Vec<u8> = if (k as usize) < DIG.len() {
            DIG[k as usize].bytes().map(|b| b - b'0').collect()
        } else {
            let len = rng.below(18);
            (0..len).map(|_| rng.below(10) as u8).collect()
        };
        let ev = json!({"k": "rd", "dig": dig});
        let r = catch(|| json!({"v": Scaled::from_decimal_digits(&dig).0}));
        out.line(&with_panic(ev, r));
    }
    // xn_over_d
    for k in 0..n {
        let x = any32(&mut rng);
        let (nn, d) = match k % 4 {
            0 => {
                let (a, b) = UNITS[rng.below(8) as usize].conversion_fraction();
                (a, b)
            }
            1 => (rng.below(65536) as i32, 65536),
            2 => (*rng.pick(&[0, 1, 2, 65535, 65536, 32768]), *rng.pick(&[1, 2, 3, 65535, 65536, 32768])),
            _ => (rng.below(65537) as i32, 1 + rng.below(65536) as i32),
        };
        let ev = json!({"k": "xnd", "x": x, "n": nn, "d": d});
        let r = catch(|| match Scaled(x).xn_over_d(nn, d) {
            Ok((q, r)) => json!({"ok": true, "v": q.0, "rem": r.0}),
            Err(_) => json!({"ok": false, "v": 0, "rem": 0}),
        });
        out.line(&with_panic(ev, r));
    }
    // nx_plus_y, checked_div
    for k in 0..n {
        let x = any32(&mut rng);
        let nn = any32(&mut rng);
        // y is a legal dimension (105 computes max_answer - y)
        let y = if k % 3 == 0 { 0 } else { (any32(&mut rng) as i64).clamp(-MAXD, MAXD) as i32 };
        let ev = json!({"k": "nxy", "x": x, "n": nn, "y": y});
        let r = catch(|| match Scaled(x).nx_plus_y(nn, Scaled(y)) {
            Ok(v) => json!({"ok": true, "v": v.0}),
            Err(_) => json!({"ok": false, "v": 0}),
        });
        out.line(&with_panic(ev, r));
        let ev = json!({"k": "xon", "x": x, "n": nn});
        let r = catch(|| match Scaled(x).checked_div(nn) {
            Some(v) => json!({"ok": true, "v": v.0}),
            None => json!({"ok": false, "v": 0}),
        });
        out.line(&with_panic(ev, r));
    }
    // Scaled::new: integer part, fraction, unit
    for k in 0..(2 * n) {
        let i: i32 = match rng.below(5) {
            0 => *rng.pick(&[0, 1, 226, 227, 575, 576, 1365, 1366, 5758, 5759, 16383, 16384, 1073741823, 1073741824, 2147483647]),
            1 => rng.below(20) as i32,
            2 => rng.below(17000) as i32,
            3 => rng.below(1 << 31) as i32,
            _ => rng.below(600) as i32,
        };
        let f: i32 = if k % 4 == 0 { *rng.pick(&[0, 1, 32768, 65535]) } else { rng.below(65536) as i32 };
        let u = rng.below(9) as usize;
        // the specification numbers units as TeX's table does: pt, in pc cm mm bp dd cc, sp
        let ev = json!({"k": "new", "i": i, "f": f, "unit": u, "name": UNIT_NAMES[u]});
        let r = catch(|| match Scaled::new(i, Scaled(f), UNITS[u]) {
            Ok(v) => json!({"ok": true, "v": v.0}),
            Err(_) => json!({"ok": false, "v": 0}),
        });
        out.line(&with_panic(ev, r));
    }
    // parse_no_units / parse_from_string on generated decimal texts
    for k in 0..(2 * n) {
        let ip: u64 = match rng.below(4) {
            0 => *rng.pick(&[0, 1, 16382, 16383, 16384, 99999, 2147483647]),
            1 => rng.below(10),
            _ => rng.below(17000),
        };
        let nd = 1 + rng.below(if k % 5 == 0 { 17 } else { 6 });
        let fr: String = (0..nd).map(|_| char::from(b'0' + rng.below(10) as u8)).collect();
        let neg = rng.chance(1, 3);
        let txt = format!("{}{}.{}", if neg { "-" } else { "" }, ip, fr);
        let ev = json!({"k": "pnu", "s": txt, "txt": codes(&txt)});
        let r = catch(|| match Scaled::parse_no_units(&txt) {
            Ok(v) => json!({"ok": true, "v": v.0}),
            Err(_) => json!({"ok": false, "v": 0}),
        });
        out.line(&with_panic(ev, r));
        let u = rng.below(9) as usize;
        let txt = match k % 3 {
            0 => format!("{}{}", ip, UNIT_NAMES[u]),
            1 => format!("{}.{}{}", ip, fr, UNIT_NAMES[u]),
            _ => format!("{}{}.{}{}", if neg && k % 15 == 2 { "-" } else { "" }, ip, fr, UNIT_NAMES[u]),
        };
        let ev = json!({"k": "pfs", "s": txt, "txt": codes(&txt)});
        let r = catch(|| match Scaled::parse_from_string(&txt) {
            Ok(v) => json!({"ok": true, "v": v.0}),
            Err(_) => json!({"ok": false, "v": 0}),
        });
        out.line(&with_panic(ev, r));
    }
    // glue printing and addition
    for _ in 0..n {
        let mut a = random_glue(&mut rng);
        let b = random_glue(&mut rng);
        if rng.chance(1, 10) {
            a[0] = any32(&mut rng) as i64;
        }
        let ev = json!({"k": "gprint", "g": a});
        let r = catch(|| json!({"txt": codes(&format!("{}", glue_of(&a)))}));
        out.line(&with_panic(ev, r));
        let ev = json!({"k": "gadd", "a": a, "b": b});
        let r = catch(|| json!({"r": glue_arr(&glue_of(&a).wrapping_add(glue_of(&b)))}));
        out.line(&with_panic(ev, r));
    }
    out.flush();
    0
}

// ------------------------------------------------------------------------------------------
// exhaustive sweep: print(s) against the two TLC-validated tables, and scan(print(s)) = s
// ------------------------------------------------------------------------------------------

fn sweep(args: &Args) -> i32 {
    quiet_panics();
    let mode = args.str("mode").unwrap_or("stride").to_string();
    let seed: u64 = args.num("seed", 1);
    let count: u64 = args.num("count", 1 << 22);
    let threads: u64 = args.num("threads", 8);
    let mut out = Out::new(args.str("out"));

    // tables of the code under test's own output: exactly the texts of the `frac` events and of
    // the first 16384 `print` events of c06-direct, each of which TLC has validated.
    let frac: Vec<String> = (0..65536).map(frac_digits).collect();
    let ints: Vec<String> = (0..16384i32)
        .map(|i| {
            let s = format!("{}", Scaled(i << 16));
            s.strip_suffix(".0pt").map(|x| x.to_string()).unwrap_or(s)
        })
        .collect();
    let frac = std::sync::Arc::new(frac);
    let ints = std::sync::Arc::new(ints);

    const SIZE: u64 = (1 << 31) - 1; // |s| <= 2^30-1
    let total: u64 = if mode == "full" { SIZE } else { count.min(SIZE) };
    // 2^31-1 is prime, so every step in 1..SIZE-1 generates the whole residue ring
    let step: u64 = if mode == "full" { 1 } else { 1 + (Rng::new(seed).next() % (SIZE - 2)) };
    let start: u64 = if mode == "full" { 0 } else { Rng::new(seed ^ 77).next() % SIZE };

    let mut handles = Vec::new();
    for th in 0..threads {
        let frac = frac.clone();
        let ints = ints.clone();
        handles.push(std::thread::spawn(move || {
            let lo = th * total / threads;
            let hi = (th + 1) * total / threads;
            let mut buf = String::with_capacity(32);
            let mut want = String::with_capacity(32);
            let mut bad: Vec<Value> = Vec::new();
            let mut nbad = 0u64;
            let mut pos = (start + (lo % SIZE) * (step % SIZE) % SIZE) % SIZE;
            // (lo*step may exceed u64 only if both near 2^31: 2^62 fits)
            for _ in lo..hi {
                let s = pos as i64 - MAXD;
                pos += step;
                if pos >= SIZE {
                    pos -= SIZE;
                }
                let s = s as i32;
                let r = catch(|| {
                    buf.clear();
                    let _ = write!(buf, "{}", Scaled(s));
                    want.clear();
                    if s < 0 {
                        want.push('-');
                    }
                    let a = s.unsigned_abs();
                    want.push_str(&ints[(a >> 16) as usize]);
                    want.push('.');
                    want.push_str(&frac[(a & 0xFFFF) as usize]);
                    want.push_str("pt");
                    if buf != want {
                        return Some(json!({"s": s, "what": "print", "got": buf.clone(), "want": want.clone()}));
                    }
                    let body = &buf[..buf.len() - 2];
                    match Scaled::parse_no_units(body) {
                        Ok(Scaled(v)) if v == s => {}
                        other => {
                            return Some(json!({"s": s, "what": "parse_no_units", "text": body, "got": format!("{other:?}")}))
                        }
                    }
                    if s >= 0 {
                        match Scaled::parse_from_string(&buf) {
                            Ok(Scaled(v)) if v == s => {}
                            other => {
                                return Some(json!({"s": s, "what": "parse_from_string", "text": buf.clone(), "got": format!("{other:?}")}))
                            }
                        }
                    }
                    None
                });
                let problem = match r {
                    Ok(p) => p,
                    Err((site, msg)) => Some(json!({"s": s, "what": "panic", "panic": [site, msg]})),
                };
                if let Some(p) = problem {
                    nbad += 1;
                    if bad.len() < 5 {
                        bad.push(p);
                    }
                }
            }
            (hi - lo, nbad, bad)
        }));
    }
    let mut checked = 0u64;
    let mut nbad = 0u64;
    let mut bad = Vec::new();
    for h in handles {
        let (c, n, b) = h.join().expect("sweep thread");
        checked += c;
        nbad += n;
        bad.extend(b);
    }
    bad.truncate(10);
    out.line(&json!({"kind": "sweep", "mode": mode, "checked": checked, "step": step, "start": start,
                     "bad": nbad, "examples": bad}));
    out.flush();
    0
}
