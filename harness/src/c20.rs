//! C20: scoped map, interner, streaming substring matcher, command tags.
use crate::lts::Lts;
use crate::util::{catch, quiet_panics, Args, Out, Rng};
use serde_json::{json, Value};
use texcraft_stdext::algorithms::substringsearch::Matcher;
use texcraft_stdext::collections::groupingmap::{
    BackingContainer, GroupingContainer, Item, Scope,
};
use texcraft_stdext::collections::interner::Interner;
use texcraft_stdext::collections::nevec::Nevec;

pub fn dispatch(cmd: &str, args: &Args) -> Option<i32> {
    Some(match cmd {
        "c20-map-walk" => map_walk(args),
        "c20-map-trace" => map_trace(args),
        "c20-interner" => interner(args),
        "c20-kmp" => kmp(args),
        "c20-tags" => tags(args),
        _ => return None,
    })
}

// ------------------------------------------------------------------------------------------
// scoped map: table walk (binding R)
// ------------------------------------------------------------------------------------------

#[derive(Clone, Copy, Debug)]
enum MOp {
    Begin,
    End,
    Rebuild,
    Local(usize, u8),
    Global(usize, u8),
}

fn mop_of(o: &Value) -> MOp {
    match o["k"].as_str().unwrap() {
        "begin" => MOp::Begin,
        "end" => MOp::End,
        "rebuild" => MOp::Rebuild,
        "local" => MOp::Local(o["key"].as_u64().unwrap() as usize, o["v"].as_u64().unwrap() as u8),
        "global" => MOp::Global(o["key"].as_u64().unwrap() as usize, o["v"].as_u64().unwrap() as u8),
        k => panic!("unknown op {k}"),
    }
}

fn mop_json(o: &MOp) -> Value {
    match o {
        MOp::Begin => json!({"k":"begin"}),
        MOp::End => json!({"k":"end"}),
        MOp::Rebuild => json!({"k":"rebuild"}),
        MOp::Local(k, v) => json!({"k":"local","key":k,"v":v}),
        MOp::Global(k, v) => json!({"k":"global","key":k,"v":v}),
    }
}

struct MapImpl<T: BackingContainer<usize, u8>> {
    m: GroupingContainer<usize, u8, T>,
}

impl<T: BackingContainer<usize, u8>> MapImpl<T> {
    fn new() -> Self {
        MapImpl { m: Default::default() }
    }
    /// Apply one operation; the result is what the caller of the real API sees.
    fn apply(&mut self, op: &MOp) -> Value {
        match op {
            MOp::Begin => {
                self.m.begin_group();
                json!(true)
            }
            MOp::End => json!(self.m.end_group().is_ok()),
            MOp::Local(k, v) => json!(self.m.insert(*k, *v, Scope::Local)),
            MOp::Global(k, v) => json!(self.m.insert(*k, *v, Scope::Global)),
            MOp::Rebuild => {
                let items: Vec<Item<(usize, u8)>> = self
                    .m
                    .iter_all()
                    .map(Item::adapt_map(|(k, v): (usize, &u8)| (k, *v)))
                    .collect();
                self.m = items.into_iter().collect();
                json!(true)
            }
        }
    }
    /// Visible values for keys 1..=n (0 = absent); cross-checked with len() and iter().
    fn observe(&self, n: usize) -> Result<Vec<u8>, String> {
        let vals: Vec<u8> = (1..=n).map(|k| self.m.get(&k).copied().unwrap_or(0)).collect();
        let present = vals.iter().filter(|v| **v != 0).count();
        if self.m.len() != present {
            return Err(format!("len()={} but {} keys visible through get()", self.m.len(), present));
        }
        if self.m.is_empty() != (present == 0) {
            return Err("is_empty() disagrees with get()".to_string());
        }
        let mut it: Vec<(usize, u8)> = self.m.iter().map(|(k, v)| (k, *v)).collect();
        it.sort();
        let want: Vec<(usize, u8)> =
            vals.iter().enumerate().filter(|(_, v)| **v != 0).map(|(i, v)| (i + 1, *v)).collect();
        if it != want {
            return Err(format!("iter()={it:?} but get() shows {want:?}"));
        }
        Ok(vals)
    }
}

fn vals_of(state: &Value) -> Vec<u8> {
    state["val"].as_array().unwrap().iter().map(|v| v.as_u64().unwrap() as u8).collect()
}

fn snaps_of(state: &Value) -> Vec<Vec<u8>> {
    state["snaps"]
        .as_array()
        .unwrap()
        .iter()
        .map(|s| s.as_array().unwrap().iter().map(|v| v.as_u64().unwrap() as u8).collect())
        .collect()
}

struct Walker<'a> {
    lts: &'a Lts,
    ops: Vec<MOp>,
    nkeys: usize,
    exp_vals: Vec<Vec<u8>>,
    exp_snaps: Vec<Vec<Vec<u8>>>,
    nodes: u64,
    leaves: u64,
    violations: Vec<Value>,
    sample: Option<Value>,
}

impl<'a> Walker<'a> {
    /// Re-execute `hist` on a fresh container; check the result of the last op, the observation
    /// after it and (probe) the observation after closing each open group.
    fn check<T: BackingContainer<usize, u8>>(&mut self, backing: &str, hist: &[usize], path: &[usize]) {
        let r = catch(|| {
            let mut m = MapImpl::<T>::new();
            let mut last = Value::Null;
            for oi in hist {
                last = m.apply(&self.ops[*oi]);
            }
            let st = *path.last().unwrap();
            let prev = path[path.len() - 2];
            let (_, want_res) = self.lts.edges[prev][*hist.last().unwrap()].as_ref().unwrap();
            if &last != want_res {
                return Err(format!("result of last operation: expected {want_res}, got {last}"));
            }
            let got = m.observe(self.nkeys)?;
            if got != self.exp_vals[st] {
                return Err(format!("visible values: expected {:?}, got {:?}", self.exp_vals[st], got));
            }
            // unwind probe: hidden state must agree with the snapshots of the reference layer
            let snaps = &self.exp_snaps[st];
            for lvl in (0..snaps.len()).rev() {
                if m.m.end_group().is_err() {
                    return Err(format!("end_group failed with {} groups open in the model", lvl + 1));
                }
                let got = m.observe(self.nkeys)?;
                if got != snaps[lvl] {
                    return Err(format!(
                        "after closing to depth {lvl}: expected {:?}, got {:?}",
                        snaps[lvl], got
                    ));
                }
            }
            if m.m.end_group().is_ok() {
                return Err("end_group succeeded with no group open in the model".to_string());
            }
            Ok(())
        });
        let err = match r {
            Ok(Ok(())) => return,
            Ok(Err(e)) => e,
            Err((site, msg)) => format!("panic at {site}: {msg}"),
        };
        if self.violations.len() < 20 {
            self.violations.push(json!({
                "kind": "violation", "part": "map-walk", "backing": backing,
                "history": hist.iter().map(|i| mop_json(&self.ops[*i])).collect::<Vec<_>>(),
                "error": err,
            }));
        }
    }

    fn dfs(&mut self, hist: &mut Vec<usize>, path: &mut Vec<usize>, left: usize) {
        if left == 0 {
            self.leaves += 1;
            if self.sample.is_none() && hist.len() > 3 {
                self.sample = Some(json!(hist.iter().map(|i| mop_json(&self.ops[*i])).collect::<Vec<_>>()));
            }
            return;
        }
        let st = *path.last().unwrap();
        for oi in 0..self.ops.len() {
            let t = match &self.lts.edges[st][oi] {
                Some((t, _)) => *t as usize,
                None => continue, // beyond the depth bound of the table
            };
            hist.push(oi);
            path.push(t);
            self.nodes += 1;
            self.check::<std::collections::HashMap<usize, u8>>("hashmap", hist, path);
            self.check::<Vec<Option<u8>>>("vec", hist, path);
            self.dfs(hist, path, left - 1);
            hist.pop();
            path.pop();
        }
    }
}

pub fn map_walk(args: &Args) -> i32 {
    quiet_panics();
    let lts = Lts::load(args.req("lts"));
    let maxlen: usize = args.num("maxlen", 6);
    let ops: Vec<MOp> = lts.ops.iter().map(mop_of).collect();
    let nkeys = vals_of(&lts.states[lts.init]).len();
    let exp_vals: Vec<Vec<u8>> = lts.states.iter().map(vals_of).collect();
    let exp_snaps: Vec<Vec<Vec<u8>>> = lts.states.iter().map(snaps_of).collect();
    // parallelise over the first two operations
    let mut prefixes: Vec<(Vec<usize>, Vec<usize>)> = vec![];
    for a in 0..ops.len() {
        if let Some((t1, _)) = &lts.edges[lts.init][a] {
            for b in 0..ops.len() {
                if let Some((t2, _)) = &lts.edges[*t1 as usize][b] {
                    prefixes.push((vec![a, b], vec![lts.init, *t1 as usize, *t2 as usize]));
                }
            }
        }
    }
    let nthreads = std::thread::available_parallelism().map(|n| n.get()).unwrap_or(4);
    let next = std::sync::atomic::AtomicUsize::new(0);
    let results = std::sync::Mutex::new((0u64, 0u64, Vec::<Value>::new(), None::<Value>));
    std::thread::scope(|s| {
        for _ in 0..nthreads {
            s.spawn(|| {
                let mut w = Walker {
                    lts: &lts, ops: ops.clone(), nkeys, exp_vals: exp_vals.clone(),
                    exp_snaps: exp_snaps.clone(), nodes: 0, leaves: 0, violations: vec![], sample: None,
                };
                loop {
                    let i = next.fetch_add(1, std::sync::atomic::Ordering::SeqCst);
                    if i >= prefixes.len() {
                        break;
                    }
                    let (mut hist, mut path) = prefixes[i].clone();
                    // the prefix nodes themselves
                    if i % ops.len() == 0 || true {
                        let h1 = vec![hist[0]];
                        let p1 = vec![path[0], path[1]];
                        w.check::<std::collections::HashMap<usize, u8>>("hashmap", &h1, &p1);
                        w.check::<Vec<Option<u8>>>("vec", &h1, &p1);
                    }
                    w.nodes += 1;
                    w.check::<std::collections::HashMap<usize, u8>>("hashmap", &hist, &path);
                    w.check::<Vec<Option<u8>>>("vec", &hist, &path);
                    w.dfs(&mut hist, &mut path, maxlen.saturating_sub(2));
                }
                let mut r = results.lock().unwrap();
                r.0 += w.nodes;
                r.1 += w.leaves;
                r.2.extend(w.violations);
                if r.3.is_none() {
                    r.3 = w.sample;
                }
            });
        }
    });
    let r = results.into_inner().unwrap();
    let mut out = Out::new(args.str("out"));
    for v in r.2.iter().take(20) {
        out.line(v);
    }
    out.line(&json!({"kind":"summary","part":"map-walk","nodes":r.0,"histories":r.1,"maxlen":maxlen,
        "lts_states":lts.states.len(),"lts_edges":lts.n_edges,"ops":ops.len(),"sample":r.3}));
    0
}

// ------------------------------------------------------------------------------------------
// scoped map: long random histories recorded for TLC trace validation (binding T)
// ------------------------------------------------------------------------------------------

pub fn map_trace(args: &Args) -> i32 {
    quiet_panics();
    let seed: u64 = args.num("seed", 1);
    let n: usize = args.num("n", 20);
    let len: usize = args.num("len", 250);
    let nkeys: usize = args.num("keys", 16);
    let nvals: u64 = args.num("vals", 9);
    let mut out = Out::new(args.str("out"));
    let mut rng = Rng::new(seed);
    for t in 0..n {
        out.line(&json!({"ev":"reset","trace":t}));
        let vec_backed = t % 2 == 1;
        let mut h = MapImpl::<std::collections::HashMap<usize, u8>>::new();
        let mut v = MapImpl::<Vec<Option<u8>>>::new();
        let mut depth = 0usize;
        // each trace has its own bias so that some go deep and some stay shallow
        let open_bias = 2 + rng.below(4);
        for _ in 0..len {
            let r = rng.below(20);
            let op = if r < open_bias && depth < 12 {
                MOp::Begin
            } else if r < open_bias + 2 {
                MOp::End
            } else if r == 19 {
                MOp::Rebuild
            } else {
                let k = 1 + rng.below(nkeys as u64) as usize;
                let val = 1 + rng.below(nvals) as u8;
                if rng.chance(1, 3) { MOp::Global(k, val) } else { MOp::Local(k, val) }
            };
            let res = catch(|| {
                if vec_backed {
                    let r = v.apply(&op);
                    (r, v.observe(nkeys))
                } else {
                    let r = h.apply(&op);
                    (r, h.observe(nkeys))
                }
            });
            let mut e = mop_json(&op);
            e["ev"] = e["k"].take();
            e.as_object_mut().unwrap().remove("k");
            match res {
                Ok((r, Ok(obs))) => {
                    match op {
                        MOp::Begin => depth += 1,
                        MOp::End => depth = depth.saturating_sub(1),
                        _ => {}
                    }
                    e["res"] = r;
                    e["obs"] = json!(obs);
                    out.line(&e);
                }
                Ok((_, Err(msg))) => {
                    out.line(&json!({"ev":"inconsistent","msg":msg}));
                    break;
                }
                Err((site, msg)) => {
                    out.line(&json!({"ev":"panic","site":site,"msg":msg}));
                    break;
                }
            }
        }
    }
    0
}

// ------------------------------------------------------------------------------------------
// interner
// ------------------------------------------------------------------------------------------

#[derive(Default, Clone)]
pub struct ConstHasher;
impl std::hash::Hasher for ConstHasher {
    fn finish(&self) -> u64 {
        12
    }
    fn write(&mut self, _: &[u8]) {}
}
type CollidingInterner = Interner<std::num::NonZeroU32, std::hash::BuildHasherDefault<ConstHasher>>;

fn interner_apply(int: &mut CollidingInterner, op: &Value, strings: &[String]) -> Value {
    let key = |k: u64| std::num::NonZeroU32::new(k as u32);
    match op["k"].as_str().unwrap() {
        "intern" => {
            let s = &strings[op["s"].as_u64().unwrap() as usize - 1];
            json!(int.get_or_intern(s).get())
        }
        "get" => {
            let s = &strings[op["s"].as_u64().unwrap() as usize - 1];
            json!(int.get(s).map(|k| k.get()).unwrap_or(0))
        }
        "resolve" => match key(op["key"].as_u64().unwrap()) {
            None => json!(0),
            Some(k) => match int.resolve(k) {
                None => json!(0),
                Some(s) => json!(strings.iter().position(|x| x == s).map(|i| i as i64 + 1).unwrap_or(-1)),
            },
        },
        "serde" => {
            let ser = serde_json::to_string(&*int).unwrap();
            *int = serde_json::from_str(&ser).unwrap();
            json!(true)
        }
        k => panic!("unknown interner op {k}"),
    }
}

/// mode=walk: exhaustive walk of the TLC table (all op sequences up to maxlen, constant hasher).
/// mode=trace: long random op sequences over many strings, recorded for TLC.
pub fn interner(args: &Args) -> i32 {
    quiet_panics();
    let mut out = Out::new(args.str("out"));
    if args.str("mode") == Some("trace") {
        let seed: u64 = args.num("seed", 1);
        let n: usize = args.num("n", 4);
        let len: usize = args.num("len", 1500);
        let nstr: usize = args.num("strings", 300);
        let mut rng = Rng::new(seed);
        // string universe: "", prefixes of each other, multi-byte characters
        let mut strings: Vec<String> = vec!["".into(), "a".into(), "ab".into(), "abc".into(), "é".into(), "éa".into()];
        while strings.len() < nstr {
            let l = 1 + rng.below(6);
            let s: String = (0..l).map(|_| *rng.pick(&['a', 'b', 'c', 'é', '∀', ' '])).collect();
            if !strings.contains(&s) {
                strings.push(s);
            }
        }
        for t in 0..n {
            out.line(&json!({"ev":"reset","trace":t}));
            let mut int = CollidingInterner::default();
            let mut interned = 0u64;
            for _ in 0..len {
                let r = rng.below(10);
                let op = if r < 4 {
                    json!({"k":"intern","s":1 + rng.below(nstr as u64)})
                } else if r < 7 {
                    json!({"k":"get","s":1 + rng.below(nstr as u64)})
                } else if r < 9 {
                    json!({"k":"resolve","key":rng.below(interned + 3)})
                } else {
                    json!({"k":"serde"})
                };
                let res = catch(|| interner_apply(&mut int, &op, &strings));
                match res {
                    Ok(r) => {
                        if op["k"] == "intern" {
                            interned = interned.max(r.as_u64().unwrap_or(0));
                        }
                        let mut e = op.clone();
                        e["ev"] = e["k"].take();
                        e.as_object_mut().unwrap().remove("k");
                        e["res"] = r;
                        out.line(&e);
                    }
                    Err((site, msg)) => {
                        out.line(&json!({"ev":"panic","site":site,"msg":msg}));
                        break;
                    }
                }
            }
        }
        return 0;
    }
    let lts = Lts::load(args.req("lts"));
    let maxlen: usize = args.num("maxlen", 5);
    let strings: Vec<String> = vec!["".into(), "a".into(), "ab".into(), "b".into()];
    let mut nodes = 0u64;
    let mut leaves = 0u64;
    let mut viol: Vec<Value> = vec![];
    // iterative DFS with re-execution
    fn rec(
        lts: &Lts, strings: &[String], hist: &mut Vec<usize>, st: usize, left: usize,
        nodes: &mut u64, leaves: &mut u64, viol: &mut Vec<Value>,
    ) {
        if left == 0 {
            *leaves += 1;
            return;
        }
        for oi in 0..lts.ops.len() {
            let (t, want) = match &lts.edges[st][oi] {
                Some((t, w)) => (*t as usize, w),
                None => continue,
            };
            hist.push(oi);
            *nodes += 1;
            let r = catch(|| {
                let mut int = CollidingInterner::default();
                let mut last = Value::Null;
                for h in hist.iter() {
                    last = interner_apply(&mut int, &lts.ops[*h], strings);
                }
                last
            });
            let err = match r {
                Ok(got) if &got == want => None,
                Ok(got) => Some(format!("expected {want}, got {got}")),
                Err((site, msg)) => Some(format!("panic at {site}: {msg}")),
            };
            if let Some(e) = err {
                if viol.len() < 20 {
                    viol.push(json!({"kind":"violation","part":"interner-walk",
                        "history": hist.iter().map(|i| lts.ops[*i].clone()).collect::<Vec<_>>(),
                        "strings": strings, "error": e}));
                }
            }
            rec(lts, strings, hist, t, left - 1, nodes, leaves, viol);
            hist.pop();
        }
    }
    rec(&lts, &strings, &mut vec![], lts.init, maxlen, &mut nodes, &mut leaves, &mut viol);
    for v in &viol {
        out.line(v);
    }
    out.line(&json!({"kind":"summary","part":"interner-walk","nodes":nodes,"histories":leaves,
        "maxlen":maxlen,"lts_states":lts.states.len(),"lts_edges":lts.n_edges}));
    0
}

// ------------------------------------------------------------------------------------------
// streaming substring matcher: call events (binding F)
// ------------------------------------------------------------------------------------------

fn kmp_run(p: &[u8], t: &[u8]) -> Vec<usize> {
    let m = Matcher::new(Nevec::new_with_tail(p[0], p[1..].to_vec()));
    let mut s = m.start();
    let mut ends = vec![];
    for (i, c) in t.iter().enumerate() {
        if s.next(c) {
            ends.push(i + 1);
        }
    }
    ends
}

pub fn kmp(args: &Args) -> i32 {
    quiet_panics();
    let sigma: u8 = args.num("sigma", 2);
    let maxp: usize = args.num("maxp", 5);
    let tlen: usize = args.num("tlen", 12);
    let mut out = Out::new(args.str("out"));
    fn all(sigma: u8, len: usize) -> Vec<Vec<u8>> {
        let mut v: Vec<Vec<u8>> = vec![vec![]];
        for _ in 0..len {
            let mut n = vec![];
            for x in &v {
                for c in 1..=sigma {
                    let mut y = x.clone();
                    y.push(c);
                    n.push(y);
                }
            }
            v = n;
        }
        v
    }
    let texts = all(sigma, tlen);
    for pl in 1..=maxp {
        for p in all(sigma, pl) {
            for t in &texts {
                match catch(|| kmp_run(&p, t)) {
                    Ok(ends) => out.line(&json!({"p":p,"t":t,"ends":ends})),
                    Err((site, msg)) => out.line(&json!({"p":p,"t":t,"panic":format!("{site}: {msg}")})),
                }
            }
        }
    }
    0
}

// ------------------------------------------------------------------------------------------
// command tags under real threads (binding T)
// ------------------------------------------------------------------------------------------

pub fn tags(args: &Args) -> i32 {
    use texlang::command::{StaticTag, Tag};
    let threads: usize = args.num("threads", 8);
    let per: usize = args.num("per", 50);
    let reps: usize = args.num("reps", 20);
    let mut out = Out::new(args.str("out"));
    for rep in 0..reps {
        out.line(&json!({"ev":"reset","trace":rep,"threads":threads}));
        // A fresh static tag per repetition (leaked: StaticTag::get needs &'static? no, &self).
        let st: &'static StaticTag = Box::leak(Box::new(StaticTag::new()));
        let barrier = std::sync::Barrier::new(threads);
        let mut per_thread: Vec<(Vec<Tag>, Vec<Tag>)> = vec![];
        std::thread::scope(|s| {
            let hs: Vec<_> = (0..threads)
                .map(|_| {
                    s.spawn(|| {
                        let mut created = Vec::with_capacity(per);
                        let mut statics = Vec::with_capacity(2);
                        barrier.wait();
                        statics.push(st.get());
                        for _ in 0..per {
                            created.push(Tag::new());
                        }
                        statics.push(st.get());
                        (created, statics)
                    })
                })
                .collect();
            for h in hs {
                per_thread.push(h.join().unwrap());
            }
        });
        // identify tags by equality class only (rank among the distinct values of this repetition)
        let mut all: Vec<Tag> = per_thread.iter().flat_map(|(c, s)| c.iter().chain(s.iter()).copied()).collect();
        all.sort();
        all.dedup();
        let rank = |t: &Tag| all.binary_search(t).unwrap() + 1;
        for (th, (created, statics)) in per_thread.iter().enumerate() {
            out.line(&json!({"ev":"static","th":th + 1,"val":rank(&statics[0])}));
            for t in created {
                out.line(&json!({"ev":"tag","th":th + 1,"val":rank(t)}));
            }
            out.line(&json!({"ev":"static","th":th + 1,"val":rank(&statics[1])}));
        }
    }
    0
}
