//! C15: `boxworks::ds::HBox::pack` (TeX's hpack, tex.web 649-667) -- binding F.
//!
//! Every subcommand builds real boxworks horizontal lists, calls the real `HBox::pack` and writes
//! one call event per call:
//!
//! ```json
//! {"items":[{"k":"char","w":..,"h":..,"d":..}, {"k":"hbox","w":..,"h":..,"d":..,"s":..},
//!           {"k":"glue","w":..,"st":..,"sto":0..3,"sh":..,"sho":0..3}, {"k":"kern","w":..},
//!           {"k":"penalty"}, ...],
//!  "m":"exact"|"additional", "t":<dimension>,
//!  "res":{"w":..,"h":..,"d":..,"s":..,"o":0..3,"num":..,"den":..}}      or "panic":[file,msg]
//! ```
//!
//! `items` are the *inputs* with their dimensions resolved through the same `FontRepo` the packer
//! is given (characters and ligatures) or read off the node.  No expected value is computed here:
//! specs/Trace_HPack.tla recomputes the box from `items`, `m`, `t` with the transcription of
//! TeX's hpack in specs/HPack.tla and compares.
use crate::util::{catch, quiet_panics, Args, Out, Rng};
use boxworks::ds;
use boxworks::FontRepo;
use common::{GlueOrder, Scaled};
use serde_json::{json, Value};
use std::collections::HashMap;
use std::rc::Rc;

pub fn dispatch(cmd: &str, args: &Args) -> Option<i32> {
    Some(match cmd {
        "c15-exh" => exhaustive(args),
        "c15-rand" => random(args),
        "c15-replay" => replay(args),
        "c15-goldens" => goldens(args),
        _ => return None,
    })
}

// ------------------------------------------------------------------------------------------
// fonts: font 0 = the real cmr10.tfm through boxworks_text::TfmFontRepo, fonts >= 1 = tables
// ------------------------------------------------------------------------------------------

const CMR10: &[u8] = include_bytes!(concat!(
    env!("VH_REPO"),
    "/crates/tfm/corpus/computer-modern/cmr10.tfm"
));

struct Fonts {
    tfm: boxworks_text::TfmFontRepo,
    table: HashMap<(char, u32), [i32; 3]>,
}

impl Fonts {
    fn new() -> Fonts {
        let mut tfm: boxworks_text::TfmFontRepo = Default::default();
        let file = tfm::File::deserialize(CMR10).0.expect("cmr10.tfm deserializes");
        tfm.register_font(0, file);
        let mut table = HashMap::new();
        // synthetic font 1: small, pairwise different width / height / depth, zeros included
        for (c, whd) in [
            ('a', [2, 3, 1]),
            ('b', [1, 1, 2]),
            ('c', [3, 0, 0]),
            ('d', [0, 5, 0]),
            ('e', [1, 0, 4]),
            ('f', [-1, 2, 2]),
        ] {
            table.insert((c, 1), whd);
        }
        Fonts { tfm, table }
    }
}

impl FontRepo for Fonts {
    fn width(&self, c: char, font: u32) -> Option<Scaled> {
        match font {
            0 => self.tfm.width(c, 0),
            _ => self.table.get(&(c, font)).map(|x| Scaled(x[0])),
        }
    }
    fn height(&self, c: char, font: u32) -> Option<Scaled> {
        match font {
            0 => self.tfm.height(c, 0),
            _ => self.table.get(&(c, font)).map(|x| Scaled(x[1])),
        }
    }
    fn depth(&self, c: char, font: u32) -> Option<Scaled> {
        match font {
            0 => self.tfm.depth(c, 0),
            _ => self.table.get(&(c, font)).map(|x| Scaled(x[2])),
        }
    }
}

// ------------------------------------------------------------------------------------------
// node constructors and the event
// ------------------------------------------------------------------------------------------

#[derive(Debug)]
struct Note;
impl ds::Whatsit for Note {}

fn order_of(o: i64) -> GlueOrder {
    match o {
        0 => GlueOrder::Normal,
        1 => GlueOrder::Fil,
        2 => GlueOrder::Fill,
        3 => GlueOrder::Filll,
        _ => panic!("order {o}"),
    }
}

fn order_num(o: GlueOrder) -> i64 {
    match o {
        GlueOrder::Normal => 0,
        GlueOrder::Fil => 1,
        GlueOrder::Fill => 2,
        GlueOrder::Filll => 3,
    }
}

fn chr(c: char, font: u32) -> ds::Horizontal {
    ds::Char { char: c, font }.into()
}

fn lig(c: char, font: u32, orig: &str) -> ds::Horizontal {
    ds::Ligature {
        char: c,
        font,
        original_chars: orig.into(),
        includes_left_boundary: false,
        includes_right_boundary: false,
    }
    .into()
}

fn hbox(w: i32, h: i32, d: i32, s: i32, list: Vec<ds::Horizontal>) -> ds::Horizontal {
    ds::HBox {
        width: Scaled(w),
        height: Scaled(h),
        depth: Scaled(d),
        shift_amount: Scaled(s),
        list,
        ..Default::default()
    }
    .into()
}

fn vbox(w: i32, h: i32, d: i32, s: i32) -> ds::Horizontal {
    ds::VBox {
        width: Scaled(w),
        height: Scaled(h),
        depth: Scaled(d),
        shift_amount: Scaled(s),
        list: vec![ds::Vertical::Kern(ds::Kern { width: Scaled(h + d), kind: ds::KernKind::Explicit })],
        ..Default::default()
    }
    .into()
}

fn rule(w: i32, h: i32, d: i32) -> ds::Horizontal {
    ds::Rule { width: Scaled(w), height: Scaled(h), depth: Scaled(d) }.into()
}

fn glue(w: i32, st: i32, sto: i64, sh: i32, sho: i64, kind: ds::GlueKind) -> ds::Horizontal {
    ds::Glue {
        value: common::Glue {
            width: Scaled(w),
            stretch: Scaled(st),
            stretch_order: order_of(sto),
            shrink: Scaled(sh),
            shrink_order: order_of(sho),
        },
        kind,
    }
    .into()
}

fn kern(w: i32, kind: ds::KernKind) -> ds::Horizontal {
    ds::Kern { width: Scaled(w), kind }.into()
}

fn penalty(p: i32) -> ds::Horizontal {
    ds::Penalty(p).into()
}

/// A discretionary whose own pre/post-break material is wide and tall: hpack must ignore it
/// (tex.web 651: `othercases do_nothing`); the `replace_count` following nodes are ordinary nodes.
fn disc(replace: u32) -> ds::Horizontal {
    ds::Discretionary {
        pre_break: vec![ds::Char { char: 'a', font: 1 }.into(), ds::Kern { width: Scaled(7), kind: ds::KernKind::Normal }.into()],
        post_break: vec![ds::DiscretionaryElem::Rule(ds::Rule { width: Scaled(9), height: Scaled(9), depth: Scaled(9) })],
        replace_count: replace,
    }
    .into()
}

fn whatsit() -> ds::Horizontal {
    ds::Horizontal::Whatsit(Rc::new(Note))
}

/// The node as hpack's *input*: kind and the dimensions TeX's hpack reads from it.
fn describe(fonts: &Fonts, e: &ds::Horizontal) -> Value {
    use ds::Horizontal as H;
    let whd = |c: char, f: u32| -> [i32; 3] {
        [
            fonts.width(c, f).expect("generated characters exist in their font").0,
            fonts.height(c, f).expect("generated characters have a height").0,
            fonts.depth(c, f).expect("generated characters have a depth").0,
        ]
    };
    match e {
        H::Char(c) => {
            let [w, h, d] = whd(c.char, c.font);
            json!({"k":"char","w":w,"h":h,"d":d})
        }
        H::Ligature(l) => {
            let [w, h, d] = whd(l.char, l.font);
            json!({"k":"lig","w":w,"h":h,"d":d})
        }
        H::HBox(b) => json!({"k":"hbox","w":b.width.0,"h":b.height.0,"d":b.depth.0,"s":b.shift_amount.0}),
        H::VBox(b) => json!({"k":"vbox","w":b.width.0,"h":b.height.0,"d":b.depth.0,"s":b.shift_amount.0}),
        H::Rule(r) => json!({"k":"rule","w":r.width.0,"h":r.height.0,"d":r.depth.0}),
        H::Glue(g) => json!({"k":"glue","w":g.value.width.0,
            "st":g.value.stretch.0,"sto":order_num(g.value.stretch_order),
            "sh":g.value.shrink.0,"sho":order_num(g.value.shrink_order)}),
        H::Kern(k) => json!({"k":"kern","w":k.width.0}),
        H::Penalty(_) => json!({"k":"penalty"}),
        H::Discretionary(_) => json!({"k":"disc"}),
        H::Whatsit(_) => json!({"k":"whatsit"}),
        H::Mark(_) | H::Insertion(_) | H::Adjust(_) | H::Math(_) => {
            panic!("generator produced a node kind outside the supported subset")
        }
    }
}

#[derive(Clone, Copy, Debug)]
enum Target {
    Exact(i32),
    Additional(i32),
}

/// Measured counts for the evidence file (nothing here is an expectation).
#[derive(Default)]
struct Stats {
    seen: std::collections::HashSet<u64>,
    events: u64,
    distinct: u64,
    /// distinct events whose list has glue and whose target is not "natural width"
    nontrivial: u64,
    panics: u64,
    kinds: std::collections::BTreeMap<String, u64>,
    maxlen: usize,
}

thread_local! {
    static STATS: std::cell::RefCell<Stats> = std::cell::RefCell::new(Stats::default());
}

fn note(items: &[Value], m: &str, amount: i32, panicked: bool) {
    use std::hash::{Hash, Hasher};
    let mut h = std::collections::hash_map::DefaultHasher::new();
    serde_json::to_string(items).unwrap().hash(&mut h);
    m.hash(&mut h);
    amount.hash(&mut h);
    let key = h.finish();
    STATS.with(|s| {
        let mut s = s.borrow_mut();
        s.events += 1;
        if panicked {
            s.panics += 1;
        }
        if s.seen.insert(key) {
            s.distinct += 1;
            let has_glue = items.iter().any(|i| i["k"] == "glue");
            if has_glue && !(m == "additional" && amount == 0) {
                s.nontrivial += 1;
            }
            for i in items {
                *s.kinds.entry(i["k"].as_str().unwrap_or("?").to_string()).or_insert(0) += 1;
            }
            s.maxlen = s.maxlen.max(items.len());
        }
    });
}

fn write_stats(args: &Args, extra: Value) {
    if let Some(p) = args.str("stats") {
        let v = STATS.with(|s| {
            let s = s.borrow();
            json!({"events": s.events, "distinct": s.distinct, "nontrivial": s.nontrivial, "panics": s.panics,
                   "node_kinds": s.kinds, "longest_list": s.maxlen, "gen": extra})
        });
        std::fs::write(p, serde_json::to_string(&v).unwrap()).expect("write stats");
    }
}

/// Call the real packer once and write the event.  Returns the box (None if it panicked).
fn call(out: &mut Out, fonts: &Fonts, list: &[ds::Horizontal], t: Target, extra: Option<&Value>) -> Option<ds::HBox> {
    let items: Vec<Value> = list.iter().map(|e| describe(fonts, e)).collect();
    let (m, amount) = match t {
        Target::Exact(x) => ("exact", x),
        Target::Additional(x) => ("additional", x),
    };
    let owned: Vec<ds::Horizontal> = list.to_vec();
    let r = catch(|| {
        let pw = match t {
            Target::Exact(x) => ds::PackWidth::Exact(Scaled(x)),
            Target::Additional(x) => ds::PackWidth::Additional(Scaled(x)),
        };
        ds::HBox::pack(fonts, owned, pw)
    });
    let mut ev = json!({"items": &items, "m": m, "t": amount});
    if let Some(Value::Object(x)) = extra {
        for (k, v) in x {
            ev[k.as_str()] = v.clone();
        }
    }
    note(&items, m, amount, r.is_err());
    match r {
        Ok(b) => {
            ev["res"] = json!({"w": b.width.0, "h": b.height.0, "d": b.depth.0, "s": b.shift_amount.0,
                "o": order_num(b.glue_order), "num": b.glue_ratio.num.0, "den": b.glue_ratio.den.0});
            out.line(&ev);
            Some(b)
        }
        Err((site, msg)) => {
            ev["panic"] = json!([site, msg]);
            out.line(&ev);
            None
        }
    }
}

// ------------------------------------------------------------------------------------------
// exhaustive small space
// ------------------------------------------------------------------------------------------

/// The small alphabet: every node kind the packer supports; glue whose stretch side ranges over
/// (amount, order) pairs with positive, zero, negative amounts at several orders while the shrink
/// side is fixed, and vice versa; boxes with positive and negative shifts.
fn alphabet(level: u32) -> Vec<ds::Horizontal> {
    use ds::GlueKind as GK;
    let mut a = vec![
        chr('a', 1),                      // w2 h3 d1
        lig('b', 1, "xy"),                // w1 h1 d2
        hbox(2, 1, 1, 2, vec![chr('c', 1)]), // h-s = -1, d+s = 3
        vbox(1, 2, 0, -3),                // h-s = 5, d+s = -3
        rule(1, 4, 0),
        kern(-1, ds::KernKind::Explicit),
        penalty(50),
        disc(1),
    ];
    // (amount, order) specs
    let side: &[(i32, i64)] = if level == 0 {
        &[(1, 0), (-1, 0), (0, 1), (1, 1), (-1, 1), (2, 2)]
    } else {
        &[(1, 0), (-1, 0), (2, 0), (0, 1), (1, 1), (-1, 1), (0, 2), (2, 2), (0, 3), (1, 3)]
    };
    for &(amt, o) in side {
        a.push(glue(1, amt, o, 1, 0, GK::Normal)); // stretch side varies
        a.push(glue(1, 0, 0, amt, o, GK::Normal)); // shrink side varies
    }
    if level > 0 {
        a.push(whatsit());
        a.push(glue(0, 1, 1, 1, 1, GK::AlignedLeader));
        a.push(rule(2, ds::Rule::RUNNING.0, ds::Rule::RUNNING.0));
    }
    a
}

fn exhaustive(args: &Args) -> i32 {
    quiet_panics();
    let maxlen: usize = args.num("maxlen", 3);
    let level: u32 = args.num("level", 0);
    let span: i32 = args.num("span", 3);
    let fonts = Fonts::new();
    let mut out = Out::new(args.str("out"));
    let alpha = alphabet(level);
    let n = alpha.len();
    let mut lists: u64 = 0;
    for len in 0..=maxlen {
        let total = (n as u64).pow(len as u32);
        for code in 0..total {
            let mut c = code;
            let mut list: Vec<ds::Horizontal> = Vec::with_capacity(len);
            for _ in 0..len {
                list.push(alpha[(c % n as u64) as usize].clone());
                c /= n as u64;
            }
            lists += 1;
            // natural width as the implementation sees it, only to place the exact targets
            let nat = call(&mut out, &fonts, &list, Target::Additional(0), None).map(|b| b.width.0);
            for a in -span..=span {
                if a != 0 {
                    call(&mut out, &fonts, &list, Target::Additional(a), None);
                }
            }
            // (a natural width outside TeX's dimension range can only come out of a defect in the
            // packer; no exact targets are placed relative to it)
            if let Some(nat) = nat.filter(|n| n.unsigned_abs() < (1 << 30)) {
                for k in [-2, 0, 1] {
                    call(&mut out, &fonts, &list, Target::Exact(nat + k), None);
                }
            }
        }
    }
    out.flush();
    write_stats(args, json!({"alphabet": n, "lists": lists, "maxlen": maxlen, "level": level}));
    eprintln!("c15-exh: alphabet {} lists {} events {}", n, lists, out.lines);
    0
}

// ------------------------------------------------------------------------------------------
// seeded random lists with nested boxes
// ------------------------------------------------------------------------------------------

struct Gen<'a> {
    rng: Rng,
    fonts: &'a Fonts,
    out: Out,
    maxlen: usize,
}

#[derive(Clone)]
struct Style {
    /// dimension pool for widths / heights / depths / shifts
    dims: Vec<i32>,
    /// pool for stretch / shrink amounts (contains zero and cancelling pairs)
    amounts: Vec<i32>,
    /// orders glue may use in this list
    orders: Vec<i64>,
    /// no boxes and no rules in this list (characters, ligatures, kerns, glue, penalties, ...)
    flat: bool,
    /// a few items of 9000pt each: legal one by one, their sum is beyond TeX's largest dimension (hpack adds
    /// widths without a bound, TeX.2021.651); at most three, so that the sum stays a 32-bit number
    wide: bool,
}

const CM_CHARS: &[char] = &['a', 'g', 'f', 'l', 'x', 'Q', 'T', 'j', '(', '.', 'W', 'p', 'i', '1'];
const SY_CHARS: &[char] = &['a', 'b', 'c', 'd', 'e', 'f'];

impl<'a> Gen<'a> {
    fn style(&mut self) -> Style {
        let r = &mut self.rng;
        if r.chance(1, 12) {
            let b = 9000 * 65536;
            return Style { dims: vec![0, b, b, b, -b], amounts: vec![0, 65536, -65536, 1 << 17], orders: vec![0, r.range(0, 3)], flat: true, wide: true };
        }
        let scale: i32 = *r.pick(&[1, 1, 7, 100, 65536, 65536, 1 << 18, 655360]);
        let mut dims = vec![0];
        for _ in 0..4 {
            dims.push(r.range(-3, 12) as i32 * scale);
        }
        let a = r.range(1, 9) as i32 * scale;
        let b = r.range(1, 9) as i32 * scale;
        let mut amounts = vec![0, a, -a, b];
        if r.chance(1, 3) {
            amounts.push(-b);
        }
        if r.chance(1, 3) {
            amounts.push(a + b);
        }
        let mut orders: Vec<i64> = vec![];
        for o in 0..4 {
            if r.chance(1, 2) {
                orders.push(o);
            }
        }
        if orders.is_empty() {
            orders.push(r.range(0, 3));
        }
        let flat = r.chance(1, 3);
        Style { dims, amounts, orders, flat, wide: false }
    }

    fn dim(&mut self, st: &Style) -> i32 {
        *self.rng.pick(&st.dims)
    }

    fn pos_dim(&mut self, st: &Style) -> i32 {
        self.dim(st).abs()
    }

    fn list(&mut self, st: &Style, depth: u32) -> Vec<ds::Horizontal> {
        let len = if st.wide { 2 + self.rng.below(2) as usize } else { self.rng.below(self.maxlen as u64 + 1) as usize };
        let mut v = Vec::with_capacity(len);
        // how glue-heavy this list is
        let glue_w = *self.rng.pick(&[2u64, 4, 6]);
        while v.len() < len {
            let mut k = self.rng.below(12 + glue_w);
            if st.flat && (3..=5).contains(&k) {
                k = self.rng.below(3);
            }
            if st.wide {
                // kerns and glue carry the widths; characters would only add a little
                k = *self.rng.pick(&[6u64, 6, 7, 12, 8]);
            }
            let e = match k {
                0 => chr(*self.rng.pick(CM_CHARS), 0),
                1 => chr(*self.rng.pick(SY_CHARS), 1),
                2 => {
                    if self.rng.chance(1, 2) {
                        lig(*self.rng.pick(&['\u{b}', '\u{c}', '\u{e}']), 0, "ffi")
                    } else {
                        lig(*self.rng.pick(SY_CHARS), 1, "ab")
                    }
                }
                3 => {
                    // nested box packed by the real packer, then shifted
                    if depth < 2 && self.rng.chance(2, 3) {
                        let inner = self.list(st, depth + 1);
                        let t = if self.rng.chance(1, 2) {
                            Target::Additional(*self.rng.pick(&st.amounts))
                        } else {
                            Target::Additional(0)
                        };
                        match call(&mut self.out, self.fonts, &inner, t, None) {
                            Some(mut b) => {
                                b.shift_amount = Scaled(self.dim(st));
                                b.into()
                            }
                            None => hbox(1, 1, 1, 0, vec![]),
                        }
                    } else {
                        let (w, h, d, s) = (self.dim(st), self.pos_dim(st), self.pos_dim(st), self.dim(st));
                        hbox(w, h, d, s, vec![])
                    }
                }
                4 => {
                    let (w, h, d, s) = (self.pos_dim(st), self.pos_dim(st), self.pos_dim(st), self.dim(st));
                    vbox(w, h, d, s)
                }
                5 => {
                    let (w, h, d) = (self.pos_dim(st), self.dim(st), self.dim(st));
                    if self.rng.chance(1, 6) {
                        rule(w, ds::Rule::RUNNING.0, ds::Rule::RUNNING.0)
                    } else {
                        rule(w, h, d)
                    }
                }
                6 | 7 => {
                    let kind = *self.rng.pick(&[
                        ds::KernKind::Normal,
                        ds::KernKind::Explicit,
                        ds::KernKind::Accent,
                        ds::KernKind::Math,
                    ]);
                    kern(self.dim(st), kind)
                }
                8 => penalty(self.rng.range(-10000, 10000) as i32),
                9 => disc(self.rng.below(3) as u32),
                10 => whatsit(),
                _ => {
                    let kind = match self.rng.below(12) {
                        0 => ds::GlueKind::ConditionalMath,
                        1 => ds::GlueKind::Math,
                        2 => ds::GlueKind::AlignedLeader,
                        3 => ds::GlueKind::CenteredLeader,
                        4 => ds::GlueKind::ExpandedLeader,
                        _ => ds::GlueKind::Normal,
                    };
                    let w = self.dim(st);
                    let s1 = *self.rng.pick(&st.amounts);
                    let o1 = *self.rng.pick(&st.orders);
                    let s2 = *self.rng.pick(&st.amounts);
                    let o2 = *self.rng.pick(&st.orders);
                    glue(w, s1, o1, s2, o2, kind)
                }
            };
            v.push(e);
        }
        v
    }

    /// Targets for one list: natural, additional +-, exact at / around `natural +- total` of every
    /// order that occurs (these sums only choose *inputs*; nothing here is compared with the result).
    fn targets(&mut self, st: &Style, list: &[ds::Horizontal], nat: i32) -> Vec<Target> {
        // a natural width outside TeX's dimension range (|d| < 2^30) can only come out of a defect
        // in the packer; exact targets are then not placed relative to it
        let huge = nat.unsigned_abs() >= (1 << 30);
        let mut ts = if huge { vec![] } else { vec![Target::Exact(nat)] };
        let mut tot_st = [0i64; 4];
        let mut tot_sh = [0i64; 4];
        for e in list {
            if let ds::Horizontal::Glue(g) = e {
                tot_st[order_num(g.value.stretch_order) as usize] += g.value.stretch.0 as i64;
                tot_sh[order_num(g.value.shrink_order) as usize] += g.value.shrink.0 as i64;
            }
        }
        let mut cands: Vec<i64> = vec![1, -1];
        for o in 0..4 {
            for k in [-1i64, 0, 1] {
                if tot_st[o] != 0 {
                    cands.push(tot_st[o] + k);
                    cands.push(tot_st[o] / 2 + k);
                    cands.push(2 * tot_st[o] + k);
                }
                if tot_sh[o] != 0 {
                    cands.push(-tot_sh[o] + k);
                    cands.push(-tot_sh[o] / 2 + k);
                    cands.push(-2 * tot_sh[o] + k);
                }
            }
        }
        for _ in 0..3 {
            let a = *self.rng.pick(&st.amounts) as i64;
            cands.push(a);
            cands.push(-a);
            cands.push(self.rng.range(-5, 5) * (a.abs().max(1)) / 3);
        }
        // keep a bounded, seeded selection
        let want = 6;
        for _ in 0..want {
            let x = *self.rng.pick(&cands);
            if x.abs() < (1 << 29) {
                if huge || self.rng.chance(1, 2) {
                    ts.push(Target::Additional(x as i32));
                } else {
                    ts.push(Target::Exact((nat as i64 + x) as i32));
                }
            }
        }
        ts
    }
}

fn random(args: &Args) -> i32 {
    quiet_panics();
    let seed: u64 = args.num("seed", 1);
    let n: u64 = args.num("n", 1000);
    let maxlen: usize = args.num("maxlen", 12);
    let fonts = Fonts::new();
    let out = Out::new(args.str("out"));
    let mut g = Gen { rng: Rng::new(seed ^ 0xC15), fonts: &fonts, out, maxlen };
    for _ in 0..n {
        let st = g.style();
        let list = g.list(&st, 0);
        let nat = match call(&mut g.out, g.fonts, &list, Target::Additional(0), None) {
            Some(b) => b.width.0,
            None => continue,
        };
        let ts = g.targets(&st, &list, nat);
        for t in ts {
            call(&mut g.out, g.fonts, &list, t, None);
        }
    }
    g.out.flush();
    write_stats(args, json!({"lists": n, "maxlen": maxlen, "seed": seed}));
    eprintln!("c15-rand: events {}", g.out.lines);
    0
}

// ------------------------------------------------------------------------------------------
// replay: rebuild real nodes from the `items` of recorded events and pack them again
// ------------------------------------------------------------------------------------------

fn replay(args: &Args) -> i32 {
    quiet_panics();
    let text = std::fs::read_to_string(args.req("in")).expect("read input");
    let mut out = Out::new(args.str("out"));
    for line in text.lines().filter(|l| !l.trim().is_empty()) {
        let ev: Value = serde_json::from_str(line).expect("event json");
        let mut fonts = Fonts::new();
        let mut list = vec![];
        let g = |it: &Value, k: &str| it[k].as_i64().unwrap_or(0) as i32;
        for (i, it) in ev["items"].as_array().expect("items").iter().enumerate() {
            let c = char::from_u32(0xE000 + i as u32).unwrap();
            let e = match it["k"].as_str().unwrap_or("") {
                "char" => {
                    fonts.table.insert((c, 2), [g(it, "w"), g(it, "h"), g(it, "d")]);
                    chr(c, 2)
                }
                "lig" => {
                    fonts.table.insert((c, 2), [g(it, "w"), g(it, "h"), g(it, "d")]);
                    lig(c, 2, "xy")
                }
                "hbox" => hbox(g(it, "w"), g(it, "h"), g(it, "d"), g(it, "s"), vec![]),
                "vbox" => {
                    ds::VBox {
                        width: Scaled(g(it, "w")),
                        height: Scaled(g(it, "h")),
                        depth: Scaled(g(it, "d")),
                        shift_amount: Scaled(g(it, "s")),
                        ..Default::default()
                    }
                    .into()
                }
                "rule" => rule(g(it, "w"), g(it, "h"), g(it, "d")),
                "glue" => glue(
                    g(it, "w"),
                    g(it, "st"),
                    it["sto"].as_i64().unwrap_or(0),
                    g(it, "sh"),
                    it["sho"].as_i64().unwrap_or(0),
                    ds::GlueKind::Normal,
                ),
                "kern" => kern(g(it, "w"), ds::KernKind::Explicit),
                "penalty" => penalty(0),
                "disc" => disc(0),
                "whatsit" => whatsit(),
                k => {
                    eprintln!("unknown item kind {k}");
                    return 2;
                }
            };
            list.push(e);
        }
        let t = ev["t"].as_i64().unwrap_or(0) as i32;
        let t = if ev["m"].as_str() == Some("exact") { Target::Exact(t) } else { Target::Additional(t) };
        let b = call(&mut out, &fonts, &list, t, None);
        if let Some(b) = b {
            eprintln!("list: {}", b.list.iter().map(|e| format!("{e}")).collect::<Vec<_>>().join(" "));
            eprintln!(
                "pack -> width={} height={} depth={} glue_order={:?} glue_ratio={}/{}",
                b.width.0, b.height.0, b.depth.0, b.glue_order, b.glue_ratio.num.0, b.glue_ratio.den.0
            );
        }
    }
    out.flush();
    0
}

// ------------------------------------------------------------------------------------------
// the repository's golden paragraphs: lines set by real TeX (boxworks-knuthplass/testdata)
// ------------------------------------------------------------------------------------------

const GOLDEN_DIR: &str = concat!(
    env!("VH_REPO"),
    "/crates/boxworks-knuthplass/testdata"
);

/// Every `hbox` of every `*_want.txt` golden (written from real TeX's log by the repository's
/// TEXCRAFT_VERIFY mode) is one line of a paragraph: its list is packed again by the real packer
/// to the golden's width.  The event also carries TeX's own box as `tex` so that the
/// specification itself is compared with real TeX (to the precision TeX prints).
fn goldens(args: &Args) -> i32 {
    quiet_panics();
    let fonts = Fonts::new();
    let mut out = Out::new(args.str("out"));
    let dir = args.str("dir").unwrap_or(GOLDEN_DIR);
    let mut files: Vec<_> = match std::fs::read_dir(dir) {
        Ok(rd) => rd.filter_map(|e| e.ok()).map(|e| e.path()).collect(),
        Err(e) => {
            eprintln!("cannot read {dir}: {e}");
            return 2;
        }
    };
    files.retain(|p| p.file_name().and_then(|n| n.to_str()).map(|n| n.ends_with("_want.txt")).unwrap_or(false));
    files.sort();
    let mut lines = 0u64;
    for f in &files {
        let text = std::fs::read_to_string(f).expect("read golden");
        let list = match boxworks::lang::parse_horizontal_list(&text) {
            Ok(l) => l,
            Err(_) => {
                eprintln!("golden {} does not parse", f.display());
                return 2;
            }
        };
        let mut boxes: Vec<ds::HBox> = vec![];
        fn walk_h(l: &[ds::Horizontal], acc: &mut Vec<ds::HBox>) {
            for e in l {
                match e {
                    ds::Horizontal::VBox(v) => walk_v(&v.list, acc),
                    ds::Horizontal::HBox(h) => {
                        acc.push(h.clone());
                        walk_h(&h.list, acc);
                    }
                    _ => {}
                }
            }
        }
        fn walk_v(l: &[ds::Vertical], acc: &mut Vec<ds::HBox>) {
            for e in l {
                match e {
                    ds::Vertical::VBox(v) => walk_v(&v.list, acc),
                    ds::Vertical::HBox(h) => {
                        acc.push(h.clone());
                        walk_h(&h.list, acc);
                    }
                    _ => {}
                }
            }
        }
        walk_h(&list, &mut boxes);
        let name = f.file_name().unwrap().to_string_lossy().to_string();
        for b in boxes {
            if b.list.is_empty() {
                continue;
            }
            lines += 1;
            let tex = json!({"tex": {"w": b.width.0, "h": b.height.0, "d": b.depth.0, "o": order_num(b.glue_order),
                "num": b.glue_ratio.num.0, "den": b.glue_ratio.den.0}, "file": name});
            call(&mut out, &fonts, &b.list, Target::Exact(b.width.0), Some(&tex));
        }
    }
    out.flush();
    write_stats(args, json!({"golden_files": files.len(), "lines": lines}));
    eprintln!("c15-goldens: files {} lines {}", files.len(), lines);
    0
}
