//! TexVM: whole programs over the primitive set of texlang-stdlib, generated at token level, rendered
//! to source text, run on the real VM; every run is one call event for TLC (Trace_TexVM.tla), which
//! computes what TeX delivers with the executable model specs/TexVM.tla.
//!
//!   {"prog":[{"k":"cs","v":5},...], "src":"...", "out":[codes], "errat":-1|n, "fatal":0|1,
//!    "finals":[c0,c1,c2,c3] | [], "budget":0|1}
//!
//! Token kinds: cs (v = name number, see NAMES), ch (v = character code), sp, lb, rb, ha (#).
//! `out`: character codes delivered to the character handler; -(name number) for an expandable
//! command that reached execution unexpanded (\noexpand).  `errat`: number of output tokens
//! delivered when the first recoverable error was reported.  No specification logic lives here:
//! the generator only tries to make most programs meaningful, it never predicts a result.
use crate::util::{quiet_panics, Args, Out, Rng};
use crate::vmh;
use serde_json::{json, Value};

pub fn dispatch(cmd: &str, args: &Args) -> Option<i32> {
    Some(match cmd {
        "tv-events" => events(args),
        "tv-replay" => replay(args),
        "tv-suite" => suite(args),
        "tv-src" => src_events(args),
        _ => return None,
    })
}

/// Names in the numbering of specs/TexVM.tla (PrimNames, then the eight user names).
pub const NAMES: [&str; 39] = [
    "def", "gdef", "global", "let", "count", "countdef", "chardef", "advance", "multiply", "divide", "the", "relax",
    "expandafter", "noexpand", "iftrue", "iffalse", "ifnum", "ifodd", "ifcase", "or", "else", "fi", "globaldefs",
    "long", "outer", "toks", "toksdef", "catcode", "endlinechar", "va", "vb", "vc", "vd", "ve", "vf", "vg", "vh", "~~", "~!",
];
/// The last two names are the active characters ~ and ! (the prelude gives them category 13); vmh reports
/// an active character c as "~c".
const FIRST_ACTIVE: usize = 38;
const FIRST_USER: usize = 30;
const PRELUDE: &str = "\\catcode`\\~=13 \\catcode`\\!=13 \\endlinechar=-1 ";

fn id(name: &str) -> i64 {
    NAMES.iter().position(|n| *n == name).map(|i| i as i64 + 1).expect("name")
}

#[derive(Clone, Debug, PartialEq)]
pub enum T {
    Cs(i64),
    Ch(u8),
    Sp,
    Lb,
    Rb,
    Pm(u8), // generator's shorthand for the two tokens # and a digit
    Ha,     // a parameter character by itself
}

fn tjson(t: &T) -> Value {
    match t {
        T::Cs(v) => json!({"k":"cs","v":v}),
        T::Ch(c) => json!({"k":"ch","v":*c as i64}),
        T::Sp => json!({"k":"sp","v":32}),
        T::Lb => json!({"k":"lb","v":0}),
        T::Rb => json!({"k":"rb","v":0}),
        T::Pm(i) => json!({"k":"ch","v":48 + *i as i64}), // preceded by a "ha" token, see tjson_seq
        T::Ha => json!({"k":"ha","v":35}),
    }
}

/// The token list as the lexer produces it: `#1` is two tokens, a parameter character and a digit.
fn tjson_seq(toks: &[T]) -> Vec<Value> {
    let mut v = vec![];
    for t in toks {
        if matches!(t, T::Pm(_)) {
            v.push(json!({"k":"ha","v":35}));
        }
        v.push(tjson(t));
    }
    v
}

fn tfrom(v: &Value) -> T {
    let n = v["v"].as_i64().unwrap_or(0);
    match v["k"].as_str().unwrap_or("") {
        "cs" => T::Cs(n),
        "ch" => T::Ch(n as u8),
        "sp" => T::Sp,
        "lb" => T::Lb,
        "rb" => T::Rb,
        _ => T::Ha,
    }
}

/// Source text whose tokens (under plain category codes, \endlinechar=-1) are exactly `toks`, or None
/// if no such text exists (a space token cannot follow a control word, another space, or start a line).
pub fn render(toks: &[T]) -> Option<String> {
    let mut s = String::new();
    let mut prev: Option<&T> = None;
    for t in toks {
        match t {
            T::Cs(v) if *v as usize >= FIRST_ACTIVE => s.push_str(&NAMES[(*v - 1) as usize][1..]),
            T::Cs(v) => {
                s.push('\\');
                s.push_str(NAMES[(*v - 1) as usize]);
                s.push(' ');
            }
            T::Ch(c) => s.push(*c as char),
            T::Sp => {
                match prev {
                    None | Some(T::Sp) => return None,
                    Some(T::Cs(v)) if (*v as usize) < FIRST_ACTIVE => return None,
                    _ => {}
                }
                s.push(' ');
            }
            T::Lb => s.push('{'),
            T::Rb => s.push('}'),
            T::Pm(i) => {
                s.push('#');
                s.push((b'0' + *i) as char);
            }
            T::Ha => s.push('#'),
        }
        prev = Some(t);
    }
    // TeX removes the spaces at the end of a line (TeX.2021.31): a final space token cannot be written
    if matches!(prev, Some(T::Sp)) {
        return None;
    }
    Some(s)
}

// ------------------------------------------------------------------------------------------------
// generator
// ------------------------------------------------------------------------------------------------
#[derive(Clone, Debug, PartialEq)]
enum Guess {
    Undef,
    Macro { pre: Vec<T>, delims: Vec<Vec<T>> }, // one entry per parameter: its delimiter (empty = undelimited)
    CDef,
    ChDef,
    TDef,
    Alias, // \let to something
    Digits,
}

struct G<'a> {
    rng: &'a mut Rng,
    guess: Vec<Guess>, // per user name (index 0 = va)
    budget: i32,
    fi_alias: Option<i64>,   // a user name \let to \fi
    if_alias: Option<i64>,   // a user name \let to \iftrue
    else_alias: Option<i64>, // a user name \let to \else
    case_alias: Option<i64>, // a user name \let to \ifcase
    or_alias: Option<i64>,   // a user name \let to \or
    profile: usize,          // index into PROFILES
    active: [bool; 2],       // user names 0 / 1 are written as the active characters ~ / !
}

/// Statement mixes.  Columns: chars, group, def, call, assignment, countdef, chardef, the, conditional,
/// expandafter, noexpand, let, relax, stray brace, token list registers.
const PROFILES: [[u32; 15]; 4] = [
    [8, 3, 4, 5, 6, 2, 1, 3, 4, 1, 1, 1, 1, 0, 3],  // general
    [3, 9, 2, 3, 12, 1, 0, 7, 2, 0, 0, 2, 0, 0, 4], // scoping: few registers, small values, many groups and prefixes
    [5, 2, 8, 12, 2, 0, 0, 1, 2, 3, 1, 2, 0, 0, 3], // macros
    [6, 2, 2, 3, 3, 0, 0, 2, 14, 1, 0, 1, 0, 1, 2], // conditionals
];

const LETTERS: &[u8] = b"abcxyz";
const PUNCT: &[u8] = b".,;:?";

impl G<'_> {
    fn cs(&self, n: &str) -> T {
        T::Cs(id(n))
    }
    /// the i-th user name: a control sequence, or (for this whole program) an active character
    fn user(&self, i: usize) -> T {
        if i < 2 && self.active[i] {
            T::Cs((FIRST_ACTIVE + i) as i64)
        } else {
            T::Cs((FIRST_USER + i) as i64)
        }
    }
    fn chars(&mut self, out: &mut Vec<T>) {
        for _ in 0..1 + self.rng.below(3) {
            let c = if self.rng.chance(1, 5) { *self.rng.pick(PUNCT) } else { *self.rng.pick(LETTERS) };
            out.push(T::Ch(c));
        }
        if self.rng.chance(1, 4) {
            out.push(T::Sp);
        }
    }
    fn literal(&mut self, out: &mut Vec<T>) {
        if self.profile == 1 {
            out.push(T::Ch(b'0' + self.rng.below(3) as u8));
            return;
        }
        let n = match self.rng.below(6) {
            0 => 0,
            1 => self.rng.range(0, 3),
            2 => self.rng.range(0, 9),
            3 => self.rng.range(10, 99),
            4 => self.rng.range(100, 9999),
            _ => self.rng.range(0, 20),
        };
        for d in n.to_string().bytes() {
            out.push(T::Ch(d));
        }
    }
    /// a number: literal + terminating space, or an internal quantity, possibly signed
    fn int(&mut self, out: &mut Vec<T>, maxuser: usize) {
        if self.rng.chance(1, 8) {
            out.push(T::Ch(b'-'));
            if self.rng.chance(1, 4) {
                out.push(T::Ch(b'-'));
            }
        }
        let named: Vec<usize> = (0..maxuser.min(8))
            .filter(|i| matches!(self.guess[*i], Guess::CDef | Guess::ChDef | Guess::Digits))
            .collect();
        match self.rng.below(10) {
            0 | 1 => {
                out.push(self.cs("count"));
                out.push(T::Ch(b'0' + self.rng.below(4) as u8));
                self.term(out);
            }
            2 | 3 if !named.is_empty() => {
                let i = *self.rng.pick(&named);
                let is_digits = self.guess[i] == Guess::Digits;
                out.push(self.user(i));
                if is_digits {
                    self.term(out);
                }
            }
            4 if self.rng.chance(1, 3) => out.push(self.cs("globaldefs")),
            _ => {
                self.literal(out);
                self.term(out);
            }
        }
    }
    /// what ends a literal number: a space (usual), \relax, or nothing (the next token decides)
    fn term(&mut self, out: &mut Vec<T>) {
        match self.rng.below(12) {
            0 => out.push(self.cs("relax")),
            1 => {}
            _ => out.push(T::Sp),
        }
    }
    fn var(&mut self, out: &mut Vec<T>, maxuser: usize) {
        let cdefs: Vec<usize> = (0..maxuser.min(8)).filter(|i| self.guess[*i] == Guess::CDef).collect();
        if !cdefs.is_empty() && self.rng.chance(1, 3) {
            let i = *self.rng.pick(&cdefs);
            out.push(self.user(i));
        } else if self.rng.chance(1, 25) {
            out.push(self.cs("globaldefs"));
        } else {
            out.push(self.cs("count"));
            let nreg = if self.profile == 1 { 2 } else { 4 };
            out.push(T::Ch(b'0' + self.rng.below(nreg) as u8));
            out.push(T::Sp);
        }
    }
    fn prefix(&mut self, out: &mut Vec<T>) {
        let (n, d) = if self.profile == 1 { (2, 5) } else { (1, 4) };
        if self.rng.chance(n, d) {
            out.push(self.cs("global"));
        }
    }
    fn assignment(&mut self, out: &mut Vec<T>, maxuser: usize) {
        self.prefix(out);
        match self.rng.below(10) {
            0..=3 => {
                self.var(out, maxuser);
                if self.rng.chance(3, 4) {
                    out.push(T::Ch(b'='));
                }
                self.int(out, maxuser);
            }
            4..=6 => {
                out.push(self.cs("advance"));
                self.var(out, maxuser);
                if self.rng.chance(2, 3) {
                    out.push(T::Ch(b'b'));
                    out.push(T::Ch(b'y'));
                    if self.rng.chance(2, 3) {
                        out.push(T::Sp);
                    }
                }
                self.int(out, maxuser);
            }
            7 => {
                out.push(self.cs("multiply"));
                self.var(out, maxuser);
                out.push(T::Ch(b'b'));
                out.push(T::Ch(b'y'));
                out.push(T::Sp);
                out.push(T::Ch(b'0' + self.rng.below(4) as u8));
                out.push(T::Sp);
            }
            8 => {
                out.push(self.cs("divide"));
                self.var(out, maxuser);
                if self.rng.chance(1, 2) {
                    out.push(T::Ch(b'b'));
                    out.push(T::Ch(b'y'));
                    out.push(T::Sp);
                }
                self.int(out, maxuser);
            }
            _ => {
                out.push(self.cs("globaldefs"));
                out.push(T::Ch(b'='));
                match self.rng.below(4) {
                    0 => {
                        out.push(T::Ch(b'-'));
                        out.push(T::Ch(b'1'));
                    }
                    1 => out.push(T::Ch(b'1')),
                    _ => out.push(T::Ch(b'0')),
                }
                out.push(T::Sp);
            }
        }
    }
    /// parameter text shapes
    fn params(&mut self) -> (Vec<T>, Vec<T>, Vec<Vec<T>>) {
        // (tokens of the parameter text, prefix delimiters, delimiter per parameter)
        let shape = self.rng.below(10);
        let d = |c: u8| vec![T::Ch(c)];
        let (pre, delims): (Vec<T>, Vec<Vec<T>>) = match shape {
            0..=3 => (vec![], vec![]),
            4 | 5 => (vec![], vec![vec![]]),
            6 => (vec![], vec![vec![], vec![]]),
            7 => (vec![], vec![d(b'.')]),
            8 => (vec![], vec![d(b';'), vec![]]),
            _ if self.profile == 2 => match self.rng.below(4) {
                // delimiters with repeated prefixes (the matcher has to back up), several delimited parameters
                0 => (vec![], vec![vec![T::Ch(b'a'), T::Ch(b'a'), T::Ch(b'b')]]),
                1 => (vec![], vec![vec![T::Ch(b'a'), T::Ch(b'b'), T::Ch(b'a'), T::Ch(b'c')], vec![]]),
                2 => (vec![], vec![d(b','), d(b','), d(b'.')]),
                _ => (vec![], vec![vec![T::Ch(b'.'), T::Sp], vec![T::Cs(id("relax"))]]),
            },
            _ => (d(b':'), vec![vec![T::Ch(b'.'), T::Ch(b'.')]]),
        };
        let mut text = pre.clone();
        for (i, dl) in delims.iter().enumerate() {
            text.push(T::Pm(i as u8 + 1));
            text.extend(dl.iter().cloned());
        }
        (text, pre, delims)
    }
    fn def(&mut self, out: &mut Vec<T>, depth: u32, maxuser: usize, in_body: bool) {
        if maxuser == 0 {
            return self.chars(out);
        }
        let target = self.rng.below(maxuser.min(8) as u64) as usize;
        self.prefix(out);
        out.push(if self.rng.chance(1, 5) { self.cs("gdef") } else { self.cs("def") });
        out.push(self.user(target));
        if self.rng.chance(1, 6) {
            // a macro that expands to digits (used inside numbers)
            out.push(T::Lb);
            self.literal(out);
            out.push(T::Rb);
            self.guess[target] = Guess::Digits;
            return;
        }
        // a definition nested in a macro body writes its own parameters as ##1
        if in_body && self.rng.chance(1, 2) {
            let delimited = self.rng.chance(1, 2);
            out.extend([T::Ha, T::Pm(1)]);
            if delimited {
                out.push(T::Ch(b'.'));
            }
            out.push(T::Lb);
            for _ in 0..1 + self.rng.below(3) {
                if self.rng.chance(1, 2) {
                    out.extend([T::Ha, T::Pm(1)]);
                } else {
                    self.chars(out);
                }
            }
            out.push(T::Rb);
            self.guess[target] = Guess::Macro { pre: vec![], delims: vec![if delimited { vec![T::Ch(b'.')] } else { vec![] }] };
            return;
        }
        let (text, pre, delims) = if in_body { (vec![], vec![], vec![]) } else { self.params() };
        out.extend(text);
        out.push(T::Lb);
        let np = delims.len();
        // the body may call only names below the target: no recursion
        let n = 1 + self.rng.below(3);
        for _ in 0..n {
            if np > 0 && self.rng.chance(1, 2) {
                if self.rng.chance(1, 4) && !matches!(out.last(), Some(T::Sp) | Some(T::Cs(_)) | None) {
                    out.push(T::Sp);
                }
                out.push(T::Pm(1 + self.rng.below(np as u64) as u8));
            } else {
                self.stmt(out, depth + 1, target, true);
            }
        }
        out.push(T::Rb);
        self.guess[target] = Guess::Macro { pre, delims };
    }
    fn call(&mut self, out: &mut Vec<T>, depth: u32, maxuser: usize) {
        let macros: Vec<usize> = (0..maxuser.min(8)).filter(|i| matches!(self.guess[*i], Guess::Macro { .. })).collect();
        if macros.is_empty() {
            if maxuser > 0 && self.rng.chance(1, 12) {
                let i = self.rng.below(maxuser.min(8) as u64) as usize;
                out.push(self.user(i)); // whatever it is now (undefined, alias, constant)
            } else {
                self.chars(out);
            }
            return;
        }
        let i = *self.rng.pick(&macros);
        let Guess::Macro { pre, delims } = self.guess[i].clone() else { unreachable!() };
        out.push(self.user(i));
        out.extend(pre);
        for dl in &delims {
            // the argument
            match self.rng.below(6) {
                0 => out.push(T::Ch(*self.rng.pick(LETTERS))),
                1 => {
                    out.push(T::Lb);
                    self.chars(out);
                    out.push(T::Rb);
                }
                2 if dl.is_empty() => {
                    out.push(T::Lb);
                    out.push(T::Rb);
                }
                2 => {
                    // a group that starts with a space: substituted after a space in a body it gives two
                    // space tokens in a row, which no source line can contain
                    out.extend([T::Lb, T::Sp]);
                    self.chars(out);
                    out.push(T::Rb);
                }
                3 if !dl.is_empty() => {} // empty delimited argument
                4 => {
                    out.push(T::Lb);
                    self.stmt(out, depth + 1, i, true);
                    out.push(T::Rb);
                }
                _ => {
                    out.push(T::Ch(*self.rng.pick(LETTERS)));
                    if !dl.is_empty() {
                        out.push(T::Ch(*self.rng.pick(LETTERS)));
                    }
                }
            }
            // near misses: proper prefixes of the delimiter inside the argument, a delimiter hidden in braces
            if dl.len() > 1 && self.rng.chance(1, 2) {
                let k = 1 + self.rng.below(dl.len() as u64 - 1) as usize;
                out.extend(dl[..k].iter().cloned());
                if self.rng.chance(1, 2) {
                    out.extend(dl[..k].iter().cloned());
                }
            }
            if !dl.is_empty() && self.rng.chance(1, 6) {
                out.push(T::Lb);
                out.extend(dl.iter().cloned());
                out.push(T::Rb);
            }
            out.extend(dl.iter().cloned());
        }
    }
    /// a token list variable: \toks0 / \toks1 or a \toksdef alias
    fn tokvar(&mut self, out: &mut Vec<T>, maxuser: usize) {
        let tdefs: Vec<usize> = (0..maxuser.min(8)).filter(|i| self.guess[*i] == Guess::TDef).collect();
        if !tdefs.is_empty() && self.rng.chance(1, 3) {
            let i = *self.rng.pick(&tdefs);
            out.push(self.user(i));
        } else {
            out.push(self.cs("toks"));
            out.push(T::Ch(b'0' + self.rng.below(2) as u8));
            out.push(T::Sp);
        }
    }
    fn toks(&mut self, out: &mut Vec<T>, depth: u32, maxuser: usize, in_body: bool) {
        match self.rng.below(8) {
            0..=2 => {
                // assignment of a balanced text (it is stored unexpanded and runs when \the delivers it)
                self.prefix(out);
                self.tokvar(out, maxuser);
                if matches!(out.last(), Some(T::Cs(_))) && self.rng.chance(1, 2) || self.rng.chance(1, 2) {
                    out.push(T::Ch(b'='));
                }
                if self.rng.chance(1, 10) {
                    out.push(self.cs("expandafter")); // the brace is found by expanding
                }
                out.push(T::Lb);
                self.block(out, depth, maxuser, in_body);
                out.push(T::Rb);
            }
            3 => {
                self.prefix(out);
                self.tokvar(out, maxuser);
                out.push(T::Ch(b'='));
                self.tokvar(out, maxuser);
            }
            4 if maxuser > 0 => {
                let i = self.rng.below(maxuser.min(8) as u64) as usize;
                self.prefix(out);
                out.push(self.cs("toksdef"));
                out.push(self.user(i));
                out.push(T::Ch(b'='));
                out.push(T::Ch(b'0' + self.rng.below(2) as u8));
                out.push(T::Sp);
                self.guess[i] = Guess::TDef;
            }
            _ => {
                out.push(self.cs("the"));
                self.tokvar(out, maxuser);
            }
        }
    }
    fn fi(&mut self) -> T {
        match self.fi_alias {
            Some(a) if self.rng.chance(1, 3) => T::Cs(a),
            _ => self.cs("fi"),
        }
    }
    fn els(&mut self) -> T {
        match self.else_alias {
            Some(a) if self.rng.chance(1, 3) => T::Cs(a),
            _ => self.cs("else"),
        }
    }
    fn block(&mut self, out: &mut Vec<T>, depth: u32, maxuser: usize, in_body: bool) {
        for _ in 0..self.rng.below(3) {
            self.stmt(out, depth + 1, maxuser, in_body);
        }
    }
    fn conditional(&mut self, out: &mut Vec<T>, depth: u32, maxuser: usize, in_body: bool) {
        match self.rng.below(8) {
            0 => out.push(match self.if_alias {
                Some(a) if self.rng.chance(1, 2) => T::Cs(a),
                _ => self.cs("iftrue"),
            }),
            1 => out.push(self.cs("iffalse")),
            2 | 3 => {
                out.push(self.cs("ifnum"));
                self.int(out, maxuser);
                out.push(T::Ch(*self.rng.pick(b"<=>")));
                self.int(out, maxuser);
            }
            4 => {
                out.push(self.cs("ifodd"));
                self.int(out, maxuser);
            }
            _ => {
                out.push(match self.case_alias {
                    Some(a) if self.rng.chance(1, 3) => T::Cs(a),
                    _ => self.cs("ifcase"),
                });
                self.int(out, maxuser);
                self.block(out, depth, maxuser, in_body);
                for _ in 0..self.rng.below(4) {
                    out.push(match self.or_alias {
                        Some(a) if self.rng.chance(1, 3) => T::Cs(a),
                        _ => self.cs("or"),
                    });
                    self.block(out, depth, maxuser, in_body);
                }
                if self.rng.chance(1, 2) {
                    let e = self.els();
                    out.push(e);
                    self.block(out, depth, maxuser, in_body);
                }
                let f = self.fi();
                out.push(f);
                return;
            }
        }
        self.block(out, depth, maxuser, in_body);
        if self.rng.chance(1, 2) {
            let e = self.els();
            out.push(e);
            self.block(out, depth, maxuser, in_body);
        }
        let f = self.fi();
        out.push(f);
    }
    /// one statement; `maxuser`: only user names below this index may be called / targeted
    fn stmt(&mut self, out: &mut Vec<T>, depth: u32, maxuser: usize, in_body: bool) {
        self.budget -= 1;
        if self.budget < 0 || depth > 4 {
            return self.chars(out);
        }
        let w = &PROFILES[self.profile];
        let total: u32 = w.iter().sum();
        let mut r = self.rng.below(total as u64) as u32;
        let mut cat = 0;
        for (i, x) in w.iter().enumerate() {
            if r < *x {
                cat = i;
                break;
            }
            r -= *x;
        }
        match cat {
            0 => self.chars(out),
            1 => {
                out.push(T::Lb);
                self.block(out, depth, maxuser, in_body);
                out.push(T::Rb);
            }
            2 if !in_body => self.def(out, depth, maxuser, false),
            2 if maxuser > 0 && self.rng.chance(1, 3) => self.def(out, depth, maxuser, true),
            3 => self.call(out, depth, maxuser),
            4 => self.assignment(out, maxuser),
            5 if maxuser > 0 => {
                let i = self.rng.below(maxuser.min(8) as u64) as usize;
                self.prefix(out);
                out.push(self.cs("countdef"));
                out.push(self.user(i));
                if self.rng.chance(1, 2) {
                    out.push(T::Ch(b'='));
                }
                out.push(T::Ch(b'0' + self.rng.below(4) as u8));
                out.push(T::Sp);
                self.guess[i] = Guess::CDef;
            }
            6 if maxuser > 0 => {
                let i = self.rng.below(maxuser.min(8) as u64) as usize;
                if self.rng.chance(1, 4) {
                    out.push(self.cs("global"));
                }
                out.push(self.cs("chardef"));
                out.push(self.user(i));
                out.push(T::Ch(b'='));
                for d in self.rng.range(97, 122).to_string().bytes() {
                    out.push(T::Ch(d));
                }
                out.push(T::Sp);
                self.guess[i] = Guess::ChDef;
            }
            7 => {
                out.push(self.cs("the"));
                match self.rng.below(5) {
                    0 => out.push(self.cs("globaldefs")),
                    _ => self.var(out, maxuser),
                }
            }
            8 => self.conditional(out, depth, maxuser, in_body),
            9 => {
                // \expandafter, also in chains
                let n = *self.rng.pick(&[1u32, 1, 1, 3]);
                for _ in 0..n {
                    out.push(self.cs("expandafter"));
                }
                let mut a = vec![];
                self.chars(&mut a);
                out.push(a[0].clone());
                if n == 3 {
                    out.push(self.cs("expandafter"));
                    out.push(T::Ch(*self.rng.pick(LETTERS)));
                }
                self.call(out, depth, maxuser);
            }
            10 if maxuser > 0 => {
                out.push(self.cs("noexpand"));
                let i = self.rng.below(maxuser.min(8) as u64) as usize;
                out.push(self.user(i));
            }
            11 if maxuser > 1 && self.rng.chance(1, 5) => {
                // the idiom that makes the current meaning of a name global: \global\let\a=\a
                let defined: Vec<usize> = (0..maxuser.min(8)).filter(|i| self.guess[*i] != Guess::Undef).collect();
                if !defined.is_empty() {
                    let i = *self.rng.pick(&defined);
                    out.push(self.cs("global"));
                    out.push(self.cs("let"));
                    out.push(self.user(i));
                    if self.rng.chance(1, 2) {
                        out.push(T::Ch(b'='));
                    }
                    out.push(self.user(i));
                }
            }
            11 if maxuser > 1 => {
                // \let target = source with source below target (no recursion through aliases)
                let ti = 1 + self.rng.below((maxuser.min(8) - 1) as u64) as usize;
                self.prefix(out);
                out.push(self.cs("let"));
                out.push(self.user(ti));
                if self.rng.chance(1, 2) {
                    out.push(T::Ch(b'='));
                }
                match self.rng.below(4) {
                    0 => {
                        out.push(T::Ch(*self.rng.pick(LETTERS)));
                        self.guess[ti] = Guess::Alias;
                    }
                    1 => {
                        let p = *self.rng.pick(&["relax", "count", "advance", "the", "def"]);
                        out.push(self.cs(p));
                        self.guess[ti] = Guess::Alias;
                    }
                    _ => {
                        // a source that is (probably) defined: \let to an undefined name is outside the model
                        let defined: Vec<usize> = (0..ti).filter(|i| self.guess[*i] != Guess::Undef).collect();
                        let si = if defined.is_empty() || self.rng.chance(1, 30) {
                            self.rng.below(ti as u64) as usize
                        } else {
                            *self.rng.pick(&defined)
                        };
                        if self.guess[si] == Guess::Undef && !self.rng.chance(1, 10) {
                            out.push(self.cs("relax"));
                            self.guess[ti] = Guess::Alias;
                        } else {
                            out.push(self.user(si));
                            self.guess[ti] = self.guess[si].clone();
                        }
                    }
                }
            }
            13 if !in_body => out.push(if self.rng.chance(1, 2) { T::Lb } else { T::Rb }),
            14 => self.toks(out, depth, maxuser, in_body),
            _ => out.push(self.cs("relax")),
        }
    }
}

pub fn gen_program(rng: &mut Rng) -> Vec<T> {
    gen_program_with_cuts(rng).0
}

/// The program and the token positions between its top-level statements (empty if the program was damaged).
pub fn gen_program_with_cuts(rng: &mut Rng) -> (Vec<T>, Vec<usize>) {
    let mut cuts: Vec<usize> = vec![];
    let mut out = vec![];
    let size = *rng.pick(&[4i32, 8, 12, 20, 30]);
    let profile = *rng.pick(&[0usize, 0, 1, 1, 2, 3]);
    let mut g = G {
        rng,
        guess: vec![Guess::Undef; 8],
        budget: size,
        fi_alias: None,
        if_alias: None,
        else_alias: None,
        case_alias: None,
        or_alias: None,
        profile,
        active: [false, false],
    };
    g.active = [g.rng.chance(1, 4), g.rng.chance(1, 4)];
    if profile == 3 && g.rng.chance(1, 3) {
        out.extend([g.cs("let"), g.user(4), g.cs("ifcase"), g.cs("let"), g.user(3), T::Ch(b'='), g.cs("or")]);
        g.guess[4] = Guess::Alias;
        g.guess[3] = Guess::Alias;
        g.case_alias = Some((FIRST_USER + 4) as i64);
        g.or_alias = Some((FIRST_USER + 3) as i64);
    }
    // aliases of the conditional primitives (their *meaning* is what skipping must look at)
    if g.rng.chance(1, 4) {
        // the alias of \fi is a control sequence or, if ! is free, the active character !
        if !g.active[1] && g.rng.chance(1, 2) {
            out.extend([g.cs("let"), T::Cs((FIRST_ACTIVE + 1) as i64), g.cs("fi")]);
            g.fi_alias = Some((FIRST_ACTIVE + 1) as i64);
        } else {
            out.extend([g.cs("let"), g.user(7), g.cs("fi")]);
            g.guess[7] = Guess::Alias;
            g.fi_alias = Some((FIRST_USER + 7) as i64);
        }
    }
    if g.rng.chance(1, 6) {
        if !g.active[0] && g.rng.chance(1, 2) {
            out.extend([g.cs("let"), T::Cs(FIRST_ACTIVE as i64), T::Ch(b'='), g.cs("iftrue")]);
            g.if_alias = Some(FIRST_ACTIVE as i64);
        } else {
            out.extend([g.cs("let"), g.user(6), T::Ch(b'='), g.cs("iftrue")]);
            g.guess[6] = Guess::Alias;
            g.if_alias = Some((FIRST_USER + 6) as i64);
        }
    }
    if g.rng.chance(1, 6) {
        out.extend([g.cs("let"), g.user(5), g.cs("else")]);
        g.guess[5] = Guess::Alias;
        g.else_alias = Some((FIRST_USER + 5) as i64);
    }
    while g.budget > 0 {
        let maxuser = 1 + g.rng.below(5) as usize;
        cuts.push(out.len());
        g.stmt(&mut out, 0, maxuser, false);
    }
    // chaos: damage a few programs at token level (error paths; the model must stop where the VM does)
    if g.rng.chance(1, 5) && !out.is_empty() {
        cuts.clear();
        for _ in 0..1 + g.rng.below(2) {
            let i = g.rng.below(out.len() as u64) as usize;
            match g.rng.below(4) {
                0 => {
                    out.remove(i);
                }
                1 => {
                    let t = out[i].clone();
                    out.insert(i, t);
                }
                2 => out.truncate(i + 1),
                _ => {
                    let j = g.rng.below(out.len() as u64) as usize;
                    out.swap(i, j);
                }
            }
            if out.is_empty() {
                break;
            }
        }
    }
    (out, cuts)
}

// ------------------------------------------------------------------------------------------------
// running
// ------------------------------------------------------------------------------------------------
fn out_codes(toks: &[vmh::Tok]) -> Vec<i64> {
    toks.iter()
        .map(|t| match t {
            vmh::Tok::Char(c, _) => *c as i64,
            vmh::Tok::Unexp(n) => NAMES.iter().position(|x| x == n).map(|i| -(i as i64 + 1)).unwrap_or(-999),
            vmh::Tok::Undef(_) => -998,
        })
        .collect()
}

pub fn run_event(toks: &[T], src: &str) -> Value {
    let mut ev = run_event_named(&tjson_seq(toks), src, &[]);
    // the source line as character codes: the specification of the lexer reads it (Trace_TexVM!SourceLexesTo)
    ev["lines"] = json!([src.chars().map(|c| c as u32).collect::<Vec<_>>()]);
    ev
}

/// `extra`: names of user control sequences beyond NAMES, for the report of unexpanded commands.
fn run_event_named(prog: &[Value], src: &str, extra: &[(String, i64)]) -> Value {
    let mut vm = vmh::new_vm(&[], &[]);
    let _ = vmh::run_src::<vmh::HStrict>(&mut vm, "prelude.tex", PRELUDE, 10_000);
    // few steps: the programs are small, the model gives up after 1500 (a runaway recursion through the
    // number scanner - \def\a#1{#1#1\a\count1 }\a\count - must end long before the stack does)
    let r = vmh::run_src::<vmh::HStrict>(&mut vm, "prog.tex", src, 4_000);
    let errat = vmh::first_err_at();
    let (fatal, budget, panic) = match &r.outcome {
        vmh::Outcome::Ok => (0, 0, None),
        vmh::Outcome::Err { .. } => (1, 0, None),
        vmh::Outcome::Budget => (0, 1, None),
        vmh::Outcome::Panic { site, msg } => (0, 0, Some(format!("{site}: {msg}"))),
    };
    let out: Vec<i64> = r
        .toks
        .iter()
        .zip(out_codes(&r.toks))
        .map(|(t, c)| match t {
            vmh::Tok::Unexp(n) if c == -999 => extra.iter().find(|(x, _)| x == n).map(|(_, i)| -*i).unwrap_or(-999),
            _ => c,
        })
        .collect();
    let mut ev = json!({"prog": prog, "src": src, "out": out,
                        "errat": errat, "fatal": fatal, "budget": budget, "finals": []});
    if let Some(p) = panic {
        ev["panic"] = json!(p);
    }
    if fatal == 0 && budget == 0 && errat < 0 && ev.get("panic").is_none() {
        // read from the state, not with \the: the program may have redefined any name
        let vals: Vec<i64> = vm.state.registers_i32.values()[..4].iter().map(|v| *v as i64).collect();
        ev["finals"] = json!(vals);
    }
    ev
}

/// The program cut into two lines after `cut` tokens: the first line is run to the end of its input, the VM is
/// serialised and deserialised (`fmt`: 0 none, 1 JSON, 2 MessagePack, 3 bincode), the second line is run on the
/// result.  None if a part cannot be written as a line of its own.
pub fn run_event_cut(toks: &[T], cut: usize, fmt: u8) -> Option<Value> {
    // `#1` is one generator token but two real ones: cut between generator tokens only
    let (a, b) = toks.split_at(cut);
    let (src1, src2) = (render(a)?, render(b)?);
    if matches!(b.first(), Some(T::Sp)) || a.is_empty() || b.is_empty() {
        return None;
    }
    let ntok1 = tjson_seq(a).len();
    let mut vm = vmh::new_vm(&[], &[]);
    let _ = vmh::run_src::<vmh::HStrict>(&mut vm, "prelude.tex", PRELUDE, 10_000);
    let r1 = vmh::run_src::<vmh::HStrict>(&mut vm, "one.tex", &src1, 4_000);
    let err1 = vmh::first_err_at();
    let mut out = out_codes(&r1.toks);
    let codes = |t: &str| t.chars().map(|c| c as u32).collect::<Vec<_>>();
    let mut ev = json!({"prog": tjson_seq(toks), "src": format!("{src1}\n{src2}"), "cut": ntok1, "fmt": fmt,
                        "lines": [codes(&src1), codes(&src2)],
                        "errat": err1, "fatal": 0, "budget": 0, "finals": []});
    let mut done = |ev: &mut Value, out: &[i64]| {
        ev["out"] = json!(out);
    };
    match &r1.outcome {
        vmh::Outcome::Ok if err1 < 0 => {}
        vmh::Outcome::Ok => {
            // a recoverable error in the first line: judged like an uncut run that stops there
            done(&mut ev, &out);
            return Some(ev);
        }
        vmh::Outcome::Err { .. } => {
            ev["fatal"] = json!(1);
            done(&mut ev, &out);
            return Some(ev);
        }
        vmh::Outcome::Budget => {
            ev["budget"] = json!(1);
            done(&mut ev, &out);
            return Some(ev);
        }
        vmh::Outcome::Panic { site, msg } => {
            ev["panic"] = json!(format!("{site}: {msg}"));
            done(&mut ev, &out);
            return Some(ev);
        }
    }
    let mut vm2 = match fmt {
        0 => vm,
        f => {
            let format = [vmh::Format::Json, vmh::Format::MessagePack, vmh::Format::Bincode][(f - 1) as usize];
            match crate::util::catch(|| vmh::checkpoint(&vm, format, &[], &[])) {
                Ok(Ok(v)) => v,
                Ok(Err(e)) => {
                    ev["panic"] = json!(format!("checkpoint failed: {e}"));
                    done(&mut ev, &out);
                    return Some(ev);
                }
                Err((site, msg)) => {
                    ev["panic"] = json!(format!("checkpoint panicked: {site}: {msg}"));
                    done(&mut ev, &out);
                    return Some(ev);
                }
            }
        }
    };
    ev["resumed"] = json!(1);
    let r2 = vmh::run_src::<vmh::HStrict>(&mut vm2, "two.tex", &src2, 4_000);
    let err2 = vmh::first_err_at();
    let n1 = out.len() as i64;
    out.extend(out_codes(&r2.toks));
    ev["errat"] = json!(if err2 >= 0 { n1 + err2 } else { -1 });
    match &r2.outcome {
        vmh::Outcome::Ok => {
            if err2 < 0 {
                let vals: Vec<i64> = vm2.state.registers_i32.values()[..4].iter().map(|v| *v as i64).collect();
                ev["finals"] = json!(vals);
            }
        }
        vmh::Outcome::Err { .. } => ev["fatal"] = json!(1),
        vmh::Outcome::Budget => ev["budget"] = json!(1),
        vmh::Outcome::Panic { site, msg } => ev["panic"] = json!(format!("{site}: {msg}")),
    }
    done(&mut ev, &out);
    Some(ev)
}

fn events(args: &Args) -> i32 {
    // the VM recurses (number scanner inside number scanner ...): give it room
    let args2 = Args { cmd: args.cmd.clone(), kv: args.kv.clone() };
    std::thread::Builder::new()
        .stack_size(1 << 30)
        .spawn(move || events_impl(&args2))
        .expect("spawn")
        .join()
        .unwrap_or(4)
}

fn events_impl(args: &Args) -> i32 {
    quiet_panics();
    let seed: u64 = args.num("seed", 1);
    let n: u64 = args.num("n", 1000);
    let mut rng = Rng::new(seed ^ 0x7e57_0001);
    let mut out = Out::new(args.str("out"));
    let mut made = 0;
    let mut unrenderable = 0u64;
    let from: u64 = args.num("from", 0); // debugging: generate, but do not run, the first `from` programs
    let show = args.str("show").is_some();
    let cut_mode = args.str("cut").is_some();
    while made < n {
        let (toks, cuts) = gen_program_with_cuts(&mut rng);
        let Some(src) = render(&toks) else {
            unrenderable += 1;
            continue;
        };
        if made >= from {
            if show {
                eprintln!("program {made}: {src}");
            }
            if cut_mode {
                // two lines with a checkpoint between them; the format rotates (0 = no checkpoint at all)
                // mostly between two top-level statements, sometimes anywhere
                let inner: Vec<usize> = cuts.iter().copied().filter(|c| *c > 0 && *c < toks.len()).collect();
                let k = if !inner.is_empty() && !rng.chance(1, 6) {
                    *rng.pick(&inner)
                } else {
                    1 + rng.below(toks.len().max(2) as u64 - 1) as usize
                };
                match run_event_cut(&toks, k.min(toks.len()), (made % 4) as u8) {
                    Some(ev) => out.line(&ev),
                    None => {
                        unrenderable += 1;
                        continue;
                    }
                }
            } else {
                out.line(&run_event(&toks, &src));
            }
        }
        made += 1;
    }
    out.flush();
    eprintln!("tv-events: {made} programs ({unrenderable} unrenderable token lists dropped)");
    0
}

// ------------------------------------------------------------------------------------------------
// tv-src: programs written as characters, with category codes and the line end changing on the way.
// The model reads the file itself (TexVM!InitSource: the lexer in the loop), so the event has no token list.
// ------------------------------------------------------------------------------------------------
const PRELUDE_SRC: &str = "\\catcode`\\~=13 \\catcode`\\!=13 ";
const SPECIALS: &[char] = &['|', '*', '[', ']', '%', '~', '!', '<'];

fn src_piece(rng: &mut Rng, depth: &mut u32, defined: &mut [bool; 5]) -> String {
    let pick_defined = |rng: &mut Rng, defined: &[bool; 5], lo: usize, hi: usize| -> Option<char> {
        let v: Vec<usize> = (lo..hi).filter(|i| defined[*i]).collect();
        if v.is_empty() || rng.chance(1, 12) { None } else { Some((b'a' + *rng.pick(&v) as u8) as char) }
    };
    let c = *rng.pick(SPECIALS);
    let cat = *rng.pick(&[14u32, 14, 12, 12, 9, 10, 5, 11, 11, 0, 13, 1, 2, 6, 15, 7, 3]);
    let sp = |rng: &mut Rng| if rng.chance(3, 4) { " " } else { "" };
    match rng.below(34) {
        // a control word whose execution changes the code of the character that follows it directly (the lexer
        // has looked at that character to end the word, and must look again when it reads it)
        32 | 33 => {
            let i = rng.below(3) as usize;
            defined[i] = true;
            let n = (b'a' + i as u8) as char;
            let g = if rng.chance(1, 5) { "\\global" } else { "" };
            format!("\\def\\v{n}{{{g}\\catcode`\\{c}={cat} }}\\v{n}{c}x{c} ")
        }
        30 => format!("\\globaldefs={}{}", *rng.pick(&["1", "-1", "0", "0"]), sp(rng)),
        31 => format!("{{\\catcode`\\{c}={cat}{}}}{c}x{c} ", sp(rng)),
        0..=4 => {
            let g = if rng.chance(1, 6) { "\\global" } else { "" };
            // most changes are used at once: the character right behind the number, later on the line, on the next line
            let used = match rng.below(8) {
                0 | 1 => String::new(),
                2 => format!("{c}"),
                3 => format!("a{c}b"),
                4 => format!("{c}{c}x"),
                5 => format!("p{c}q\nr{c}"),
                6 => format!("\\relax{c}u{c} "),
                _ => format!("{{{c}}}{c}"),
            };
            if rng.chance(1, 5) {
                format!("{g}\\catcode{}={cat}{}{used}", c as u32, sp(rng))
            } else {
                format!("{g}\\catcode`\\{c}={cat}{}{used}", sp(rng))
            }
        }
        5..=9 => match rng.below(6) {
            0 => format!("{c}"),
            1 => format!("{c}ab"),
            2 => format!("x{c}y"),
            3 => match pick_defined(rng, defined, 0, 3) {
                Some(n) => format!("\\v{n}{c}z "),
                None => format!("\\relax{c}"),
            },
            4 => format!(" {c} "),
            _ => format!("{c}{c}"),
        },
        10 | 11 => "\n".to_string(),
        12 => " \n".to_string(),
        13 => {
            *depth += 1;
            "{".to_string()
        }
        14 if *depth > 0 => {
            *depth -= 1;
            "}".to_string()
        }
        15 => format!("\\endlinechar={}{}", *rng.pick(&["-1", "13", "32", "`\\|", "`\\*", "-1", "37"]), sp(rng)),
        16 => format!("\\the\\catcode`\\{c}{}", sp(rng)),
        17 => format!("\\count{}=\\catcode`\\{c}{}", rng.below(3), sp(rng)),
        18 => {
            let i = rng.below(3) as usize;
            defined[i] = true;
            format!("\\def\\v{}#1{c}{{(#1)}}", (b'a' + i as u8) as char)
        }
        19 => match pick_defined(rng, defined, 0, 3) {
            Some(n) => format!("\\v{n} p{c}q{c}"),
            None => format!("\\v{} p{c}q{c}", *rng.pick(&['a', 'b', 'c'])),
        },
        20 => {
            let i = rng.below(3) as usize;
            defined[i] = true;
            format!("\\def\\v{}#1{{[#1]}}", (b'a' + i as u8) as char)
        }
        21 => match pick_defined(rng, defined, 0, 3) {
            Some(n) => format!("\\v{n}{}{c}", *rng.pick(&[" x", "{xy}", "{c}", " "])),
            None => "ab".to_string(),
        },
        22 => format!("\\ifnum\\catcode`\\{c}={cat} T\\else F\\fi{}", sp(rng)),
        23 => {
            let i = 3 + rng.below(2) as usize;
            defined[i] = true;
            format!("\\let\\v{}={c}{}", (b'a' + i as u8) as char, sp(rng))
        }
        24 => match pick_defined(rng, defined, 3, 5) {
            Some(n) => format!("\\v{n} "),
            None => "q".to_string(),
        },
        25 => format!("\\count{}={}{c}", rng.below(3), rng.below(200)),
        26 => format!("\\the\\count{}{}", rng.below(3), sp(rng)),
        27 => format!("\\the\\endlinechar{}", sp(rng)),
        28 => format!("{}", *rng.pick(&["ab", "z", "q ", "7", "a b"])),
        _ => format!("\\count{}=`{c}{}", rng.below(3), sp(rng)),
    }
}

fn gen_source(rng: &mut Rng) -> String {
    let mut s = String::new();
    let mut depth = 0u32;
    let mut defined = [false; 5];
    let n = 3 + rng.below(10);
    for _ in 0..n {
        s.push_str(&src_piece(rng, &mut depth, &mut defined));
    }
    for _ in 0..depth {
        if rng.chance(5, 6) {
            s.push('}');
        }
    }
    if rng.chance(1, 2) {
        s.push('\n');
    }
    // a doubled special character in front of two lowercase hexadecimal digits would be TeX's ^^xy form once the
    // character is a superscript; lexer.rs does not have that form (finding C03/caret-hex-form, decided on the
    // lexer's own events): keep the two digits apart
    let cs: Vec<char> = s.chars().collect();
    let hex = |c: char| c.is_ascii_digit() || ('a'..='f').contains(&c);
    let mut t = String::new();
    for (i, c) in cs.iter().enumerate() {
        t.push(*c);
        if i >= 2 && cs[i - 1] == cs[i - 2] && SPECIALS.contains(&cs[i - 1]) && hex(*c) && i + 1 < cs.len() && hex(cs[i + 1]) {
            t.push('z');
        }
    }
    t
}

fn run_event_src(src: &str) -> Value {
    let mut vm = vmh::new_vm(&[], &[]);
    let _ = vmh::run_src::<vmh::HStrict>(&mut vm, "prelude.tex", PRELUDE_SRC, 10_000);
    let r = vmh::run_src::<vmh::HStrict>(&mut vm, "prog.tex", src, 4_000);
    let errat = vmh::first_err_at();
    let (fatal, budget, panic) = match &r.outcome {
        vmh::Outcome::Ok => (0, 0, None),
        vmh::Outcome::Err { .. } => (1, 0, None),
        vmh::Outcome::Budget => (0, 1, None),
        vmh::Outcome::Panic { site, msg } => (0, 0, Some(format!("{site}: {msg}"))),
    };
    let out = out_codes(&r.toks);
    let mut lines: Vec<&str> = src.split('\n').collect();
    if lines.last() == Some(&"") {
        lines.pop();
    }
    let lines: Vec<Vec<u32>> = lines.iter().map(|l| l.chars().map(|c| c as u32).collect()).collect();
    let mut ev = json!({"src": src, "lines": lines, "out": out, "errat": errat, "fatal": fatal, "budget": budget, "finals": []});
    if let Some(p) = panic {
        ev["panic"] = json!(p);
    }
    if fatal == 0 && budget == 0 && errat < 0 && ev.get("panic").is_none() {
        let vals: Vec<i64> = vm.state.registers_i32.values()[..4].iter().map(|v| *v as i64).collect();
        ev["finals"] = json!(vals);
    }
    ev
}

fn src_events(args: &Args) -> i32 {
    let args2 = Args { cmd: args.cmd.clone(), kv: args.kv.clone() };
    std::thread::Builder::new()
        .stack_size(1 << 30)
        .spawn(move || {
            quiet_panics();
            let seed: u64 = args2.num("seed", 1);
            let n: u64 = args2.num("n", 1000);
            let mut rng = Rng::new(seed ^ 0x5c_0001);
            let mut out = Out::new(args2.str("out"));
            if let Some(one) = args2.str("src") {
                let text = one.replace("\\n", "\n");
                println!("{}", run_event_src(&text));
                return 0;
            }
            for _ in 0..n {
                let src = gen_source(&mut rng);
                out.line(&run_event_src(&src));
            }
            out.flush();
            0
        })
        .expect("spawn")
        .join()
        .unwrap_or(4)
}

/// The repository's own test inputs: every one-line TeX snippet of the test modules (extracted by the driver)
/// that stays inside the model's vocabulary is lexed with the real lexer (C03 decides that one), mapped to the
/// model's tokens - control sequences that are neither modelled primitives nor built-ins of the VM become the
/// user names, in order of appearance - and run like a generated program.
fn suite(args: &Args) -> i32 {
    let args2 = Args { cmd: args.cmd.clone(), kv: args.kv.clone() };
    std::thread::Builder::new()
        .stack_size(1 << 30)
        .spawn(move || suite_impl(&args2))
        .expect("spawn")
        .join()
        .unwrap_or(4)
}

fn suite_impl(args: &Args) -> i32 {
    use texlang::token::lexer::{self, Lexer};
    use texlang::token::{trace, CommandRef, CsNameInterner, Value as TV};
    quiet_panics();
    struct Cfg<'a>(&'a vmh::VS);
    impl lexer::Config for Cfg<'_> {
        fn cat_code(&self, c: char) -> texlang::types::CatCode {
            <vmh::VS as texlang::traits::TexlangState>::cat_code(self.0, c)
        }
        fn end_line_char(&self) -> Option<char> {
            None
        }
    }
    let snippets: Vec<String> = serde_json::from_str(&std::fs::read_to_string(args.req("in")).expect("read")).expect("json");
    let builtins: Vec<String> = vmh::built_ins().keys().map(|k| k.to_string()).collect();
    let mut out = Out::new(args.str("out"));
    let (mut run, mut skipped) = (0u64, 0u64);
    'snippet: for src in &snippets {
        let mut vm = vmh::new_vm(&[], &[]);
        let _ = vmh::run_src::<vmh::HStrict>(&mut vm, "prelude.tex", PRELUDE, 10_000);
        let mut tracer: trace::Tracer = Default::default();
        let mut interner: CsNameInterner = Default::default();
        let range = tracer.register_source_code(None, trace::Origin::File("s.tex".into()), src);
        let mut lx = Lexer::new(src.to_string(), range);
        let cfg = Cfg(&vm.state);
        let mut prog: Vec<Value> = vec![];
        let mut extra: Vec<(String, i64)> = vec![];
        let lexed = crate::util::catch(|| {
            let mut toks = vec![];
            loop {
                match lx.next(&cfg, &mut interner, false) {
                    lexer::Result::Token(t) => toks.push(t),
                    lexer::Result::InvalidCharacter(..) => return None,
                    lexer::Result::EndOfLine => continue,
                    lexer::Result::EndOfInput => break,
                }
                if toks.len() > 400 {
                    return None;
                }
            }
            Some(toks)
        });
        let Ok(Some(toks)) = lexed else {
            skipped += 1;
            continue;
        };
        for t in toks {
            let v = match t.value() {
                TV::CommandRef(CommandRef::ControlSequence(n)) => {
                    let name = interner.resolve(n).unwrap_or("").to_string();
                    if let Some(i) = NAMES[..FIRST_USER - 1].iter().position(|x| *x == name) {
                        json!({"k":"cs","v":i as i64 + 1})
                    } else if builtins.contains(&name) {
                        skipped += 1;
                        continue 'snippet;
                    } else {
                        let i = match extra.iter().find(|(x, _)| *x == name) {
                            Some((_, i)) => *i,
                            None => {
                                if extra.len() >= 8 {
                                    skipped += 1;
                                    continue 'snippet;
                                }
                                let i = (FIRST_USER + extra.len()) as i64;
                                extra.push((name, i));
                                i
                            }
                        };
                        json!({"k":"cs","v":i})
                    }
                }
                TV::CommandRef(CommandRef::ActiveCharacter(_)) => {
                    skipped += 1;
                    continue 'snippet;
                }
                TV::BeginGroup(_) => json!({"k":"lb","v":0}),
                TV::EndGroup(_) => json!({"k":"rb","v":0}),
                TV::Parameter(_) => json!({"k":"ha","v":35}),
                TV::Space(_) => json!({"k":"sp","v":32}),
                other => match t.char() {
                    Some(c) if (c as u32) < 128 => json!({"k":"ch","v":c as i64}),
                    _ => {
                        let _ = other;
                        skipped += 1;
                        continue 'snippet;
                    }
                },
            };
            prog.push(v);
        }
        out.line(&run_event_named(&prog, src, &extra));
        run += 1;
    }
    out.flush();
    eprintln!("tv-suite: {run} snippets run, {skipped} outside the vocabulary");
    0
}

fn replay(args: &Args) -> i32 {
    quiet_panics();
    let text = std::fs::read_to_string(args.req("file")).expect("read");
    let v: Value = serde_json::from_str(text.lines().next().unwrap_or("{}")).expect("json");
    let ev = if v.get("event").is_some() { v["event"].clone() } else { v };
    let toks: Vec<T> = ev["prog"].as_array().map(|a| a.iter().map(tfrom).collect()).unwrap_or_default();
    let src = render(&toks).unwrap_or_default();
    let now = run_event(&toks, &src);
    println!("source   : {src}");
    println!("recorded : out={} errat={} fatal={} finals={}", ev["out"], ev["errat"], ev["fatal"], ev["finals"]);
    println!("now      : out={} errat={} fatal={} finals={}", now["out"], now["errat"], now["fatal"], now["finals"]);
    0
}
