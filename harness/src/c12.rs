//! C12: paragraphs -- `boxworks::TextPreprocessor::add_text` (boxworks-text) and
//! `boxworks_knuthplass::LineBreaker::break_line` (816 + Knuth-Plass + post_line_break) -- binding F.
//!
//! Two kinds of call events are recorded, one per call of the real code:
//!
//! ```json
//! {"fn":"text","font":0|1,"text":"...","words":[[code,..],..],"sfc":[[sf code,..],..],
//!  "S":{"font":{"space":..,"stretch":..,"shrink":..,"extra":..},"ss":GLUE,"xs":GLUE},
//!  "codes":[[char code, sf code],..]   (entries of the \sfcode table that differ from plain TeX; replay only)
//!  "nodes":[NODE,..]}                                                  or "panic":[file,msg]
//!
//! {"fn":"para","orig":[NODE,..],"list":[NODE,..],"hyph":0|1,
//!  "P":{"ls":GLUE,"rs":GLUE,"pfs":GLUE,"ilp":..,"club":..,"widow":..,"broken":..,"widths":[..],"indents":[..]},
//!  "K":{...the other line-breaking parameters; replay only...},
//!  "bps":[..],"v":[VNODE,..],"words":[[code,..],..]?}                  or "panic":[file,msg]
//! ```
//!
//! GLUE = {"w","st","sto","sh","sho"}; NODE = the `ds::Horizontal` value field by field (see `node`);
//! VNODE = hbox {"k":"hbox","w","s","list":[NODE..]} | {"k":"penalty","p"} | {"k":"vglue",..}.
//! `words`/`sfc` are the *inputs* (the text split at blanks, the table looked up per character),
//! `S.font` the four TFM parameters read from the font file.  `bps` are the breakpoints the line
//! breaker chose, observed through the public `debug::Logger` callbacks.  No expected value is
//! computed here: specs/Trace_SpaceFactor.tla and specs/Trace_PostLineBreak.tla recompute the
//! glue sequence and the vertical list with the transcriptions of tex.web 1034-1044 and 816,
//! 877-890.
use crate::util::{catch, quiet_panics, Args, Out, Rng};
use boxworks::ds;
use boxworks::LineBreaker as _;
use boxworks::TextPreprocessor as _;
use boxworks_knuthplass as kp;
use common::{GlueOrder, Scaled};
use serde_json::{json, Value};
use std::collections::BTreeMap;

pub fn dispatch(cmd: &str, args: &Args) -> Option<i32> {
    Some(match cmd {
        "c12-text" => texts(args),
        "c12-para" => paras(args),
        "c12-exh" => exhaustive(args),
        "c12-replay" => replay(args),
        "c12-goldens" => goldens(args),
        _ => return None,
    })
}

// ------------------------------------------------------------------------------------------
// fonts: 0 = the repository's cmr10.tfm, 1 = a synthetic font built from PL text
// ------------------------------------------------------------------------------------------

const CMR10: &[u8] = include_bytes!(concat!(
    env!("VH_REPO"),
    "/crates/tfm/corpus/computer-modern/cmr10.tfm"
));

/// A small font whose lig/kern program has a two- and a three-character ligature, a ligature of
/// two hyphens, a ligature that keeps its left character, kerns (also next to the hyphen), and
/// whose space parameters are not multiples of anything convenient.
const SYN_PL: &str = r"
(FAMILY SYN)
(DESIGNSIZE R 10.0)
(FONTDIMEN
   (SLANT R 0.0)
   (SPACE R 0.412345)
   (STRETCH R 0.213579)
   (SHRINK R 0.097531)
   (XHEIGHT R 0.43)
   (QUAD R 1.0)
   (EXTRASPACE R 0.151515)
   )
(LIGTABLE
   (LABEL C a)
   (LIG C b C x)
   (KRN C c R -0.05)
   (KRN O 55 R 0.03)
   (STOP)
   (LABEL C x)
   (LIG C c C y)
   (KRN C a R 0.02)
   (STOP)
   (LABEL O 55)
   (LIG O 55 C z)
   (KRN C a R -0.04)
   (STOP)
   (LABEL C d)
   (/LIG C e C w)
   (KRN C d R 0.1)
   (STOP)
   (LABEL C A)
   (KRN C B R -0.11)
   (KRN O 56 R -0.07)
   (STOP)
   )
(CHARACTER C a (CHARWD R 0.50) (CHARHT R 0.43))
(CHARACTER C b (CHARWD R 0.55) (CHARHT R 0.69))
(CHARACTER C c (CHARWD R 0.44) (CHARHT R 0.43))
(CHARACTER C d (CHARWD R 0.56) (CHARHT R 0.69))
(CHARACTER C e (CHARWD R 0.45) (CHARHT R 0.43))
(CHARACTER C f (CHARWD R 0.31) (CHARHT R 0.69))
(CHARACTER C g (CHARWD R 0.51) (CHARHT R 0.43) (CHARDP R 0.19))
(CHARACTER C h (CHARWD R 0.57) (CHARHT R 0.69))
(CHARACTER C w (CHARWD R 0.60) (CHARHT R 0.43))
(CHARACTER C x (CHARWD R 0.80) (CHARHT R 0.69))
(CHARACTER C y (CHARWD R 1.10) (CHARHT R 0.69))
(CHARACTER C z (CHARWD R 0.52) (CHARHT R 0.28))
(CHARACTER C A (CHARWD R 0.75) (CHARHT R 0.68))
(CHARACTER C B (CHARWD R 0.71) (CHARHT R 0.68))
(CHARACTER O 55 (CHARWD R 0.33) (CHARHT R 0.25))
(CHARACTER O 56 (CHARWD R 0.28) (CHARHT R 0.11))
(CHARACTER O 54 (CHARWD R 0.29) (CHARHT R 0.11) (CHARDP R 0.19))
(CHARACTER O 73 (CHARWD R 0.27) (CHARHT R 0.43) (CHARDP R 0.19))
(CHARACTER O 41 (CHARWD R 0.26) (CHARHT R 0.69))
(CHARACTER O 51 (CHARWD R 0.39) (CHARHT R 0.75) (CHARDP R 0.25))
(CHARACTER O 72 (CHARWD R 0.25) (CHARHT R 0.43))
";

struct FontData {
    file: tfm::File,
    program: tfm::ligkern::CompiledProgram,
    /// space, stretch, shrink, extra space (TFM parameters 2, 3, 4, 7)
    dims: [i32; 4],
}

fn load_font(bytes: &[u8]) -> FontData {
    let mut file = tfm::File::deserialize(bytes).0.expect("font deserializes");
    let program = tfm::ligkern::CompiledProgram::compile_from_tfm_file(&mut file).0;
    use tfm::NamedParameter as NP;
    let p = |n: NP| file.named_param_scaled(n).expect("font has seven parameters").0;
    let dims = [p(NP::Space), p(NP::Stretch), p(NP::Shrink), p(NP::ExtraSpace)];
    FontData { file, program, dims }
}

struct Fonts {
    data: Vec<FontData>,
    repo: boxworks_text::TfmFontRepo,
}

impl Fonts {
    fn new() -> Fonts {
        let (syn_bytes, warnings) = tfm::algorithms::pl_to_tfm(SYN_PL);
        if !warnings.is_empty() {
            eprintln!("c12: the synthetic PL font has warnings: {warnings:?}");
            std::process::exit(2);
        }
        let data = vec![load_font(CMR10), load_font(&syn_bytes)];
        let mut repo: boxworks_text::TfmFontRepo = Default::default();
        for (i, d) in data.iter().enumerate() {
            repo.register_font(i as u32, d.file.clone());
        }
        Fonts { data, repo }
    }

    fn preprocessor(&self, params: boxworks_text::Params, font: u32) -> boxworks_text::TextPreprocessorImpl {
        let mut tp = boxworks_text::TextPreprocessorImpl::new(params);
        for (i, d) in self.data.iter().enumerate() {
            tp.register_font(i as u32, &d.file, d.program.clone());
        }
        tp.activate_font(font);
        tp
    }
}

// ------------------------------------------------------------------------------------------
// JSON <-> values
// ------------------------------------------------------------------------------------------

fn order_num(o: GlueOrder) -> i64 {
    match o {
        GlueOrder::Normal => 0,
        GlueOrder::Fil => 1,
        GlueOrder::Fill => 2,
        GlueOrder::Filll => 3,
    }
}

fn order_of(o: i64) -> GlueOrder {
    match o {
        0 => GlueOrder::Normal,
        1 => GlueOrder::Fil,
        2 => GlueOrder::Fill,
        _ => GlueOrder::Filll,
    }
}

fn glue_json(g: &common::Glue) -> Value {
    json!({"w": g.width.0, "st": g.stretch.0, "sto": order_num(g.stretch_order),
           "sh": g.shrink.0, "sho": order_num(g.shrink_order)})
}

fn glue_from(v: &Value) -> common::Glue {
    common::Glue {
        width: Scaled(v["w"].as_i64().unwrap() as i32),
        stretch: Scaled(v["st"].as_i64().unwrap() as i32),
        stretch_order: order_of(v["sto"].as_i64().unwrap()),
        shrink: Scaled(v["sh"].as_i64().unwrap() as i32),
        shrink_order: order_of(v["sho"].as_i64().unwrap()),
    }
}

fn glue_kind_num(k: &ds::GlueKind) -> i64 {
    match k {
        ds::GlueKind::Normal => 0,
        ds::GlueKind::ConditionalMath => 1,
        ds::GlueKind::Math => 2,
        ds::GlueKind::AlignedLeader => 3,
        ds::GlueKind::CenteredLeader => 4,
        ds::GlueKind::ExpandedLeader => 5,
    }
}

fn kern_kind_num(k: ds::KernKind) -> i64 {
    match k {
        ds::KernKind::Normal => 0,
        ds::KernKind::Explicit => 1,
        ds::KernKind::Accent => 2,
        ds::KernKind::Math => 3,
    }
}

fn kern_kind_of(n: i64) -> ds::KernKind {
    match n {
        0 => ds::KernKind::Normal,
        1 => ds::KernKind::Explicit,
        2 => ds::KernKind::Accent,
        _ => ds::KernKind::Math,
    }
}

fn codes(s: &str) -> Vec<u32> {
    s.chars().map(|c| c as u32).collect()
}

/// A node, field by field.  Nested boxes are identified by their dimensions and the number of nodes
/// inside (the generators give different boxes different dimensions).
fn node(e: &ds::Horizontal) -> Value {
    use ds::Horizontal as H;
    match e {
        H::Char(c) => json!({"k":"char","c":c.char as u32,"f":c.font}),
        H::Ligature(l) => json!({"k":"lig","c":l.char as u32,"f":l.font,"o":codes(&l.original_chars),
            "lb": l.includes_left_boundary as u8, "rb": l.includes_right_boundary as u8}),
        H::HBox(b) => json!({"k":"hbox","w":b.width.0,"h":b.height.0,"d":b.depth.0,"s":b.shift_amount.0,"n":b.list.len()}),
        H::VBox(b) => json!({"k":"vbox","w":b.width.0,"h":b.height.0,"d":b.depth.0,"s":b.shift_amount.0,"n":b.list.len()}),
        H::Rule(r) => json!({"k":"rule","w":r.width.0,"h":r.height.0,"d":r.depth.0}),
        H::Glue(g) => {
            let mut v = glue_json(&g.value);
            v["k"] = json!("glue");
            v["gk"] = json!(glue_kind_num(&g.kind));
            v
        }
        H::Kern(k) => json!({"k":"kern","w":k.width.0,"kk":kern_kind_num(k.kind)}),
        H::Penalty(p) => json!({"k":"penalty","p":p.0}),
        H::Discretionary(d) => json!({"k":"disc",
            "pre": d.pre_break.iter().map(|x| node(&x.clone().into())).collect::<Vec<_>>(),
            "post": d.post_break.iter().map(|x| node(&x.clone().into())).collect::<Vec<_>>(),
            "rc": d.replace_count}),
        H::Math(m) => json!({"k":"math","m": matches!(m, ds::Math::After) as u8, "w": 0}),
        H::Mark(_) => json!({"k":"mark"}),
        H::Insertion(_) => json!({"k":"ins"}),
        H::Adjust(_) => json!({"k":"adjust"}),
        H::Whatsit(_) => json!({"k":"whatsit"}),
    }
}

fn nodes(l: &[ds::Horizontal]) -> Vec<Value> {
    l.iter().map(node).collect()
}

fn ch(c: u32) -> char {
    char::from_u32(c).expect("recorded character code")
}

fn node_from(v: &Value) -> ds::Horizontal {
    let i = |k: &str| v[k].as_i64().unwrap_or_else(|| panic!("field {k} of {v}")) as i32;
    match v["k"].as_str().unwrap() {
        "char" => ds::Char { char: ch(i("c") as u32), font: i("f") as u32 }.into(),
        "lig" => ds::Ligature {
            char: ch(i("c") as u32),
            font: i("f") as u32,
            original_chars: v["o"].as_array().unwrap().iter().map(|c| ch(c.as_u64().unwrap() as u32)).collect::<String>().into(),
            includes_left_boundary: i("lb") != 0,
            includes_right_boundary: i("rb") != 0,
        }
        .into(),
        "hbox" => ds::HBox {
            width: Scaled(i("w")),
            height: Scaled(i("h")),
            depth: Scaled(i("d")),
            shift_amount: Scaled(i("s")),
            list: (0..i("n")).map(|_| ds::Penalty(0).into()).collect(),
            ..Default::default()
        }
        .into(),
        "vbox" => ds::VBox {
            width: Scaled(i("w")),
            height: Scaled(i("h")),
            depth: Scaled(i("d")),
            shift_amount: Scaled(i("s")),
            list: (0..i("n")).map(|_| ds::Vertical::Penalty(ds::Penalty(0))).collect(),
            ..Default::default()
        }
        .into(),
        "rule" => ds::Rule { width: Scaled(i("w")), height: Scaled(i("h")), depth: Scaled(i("d")) }.into(),
        "glue" => ds::Glue {
            value: glue_from(v),
            kind: match i("gk") {
                0 => ds::GlueKind::Normal,
                1 => ds::GlueKind::ConditionalMath,
                2 => ds::GlueKind::Math,
                3 => ds::GlueKind::AlignedLeader,
                4 => ds::GlueKind::CenteredLeader,
                _ => ds::GlueKind::ExpandedLeader,
            },
        }
        .into(),
        "kern" => ds::Kern { width: Scaled(i("w")), kind: kern_kind_of(i("kk") as i64) }.into(),
        "penalty" => ds::Penalty(i("p")).into(),
        "disc" => {
            let elems = |k: &str| -> Vec<ds::DiscretionaryElem> {
                v[k].as_array().unwrap().iter().map(|x| node_from(x).try_into().expect("discretionary element")).collect()
            };
            ds::Discretionary { pre_break: elems("pre"), post_break: elems("post"), replace_count: i("rc") as u32 }.into()
        }
        other => panic!("cannot rebuild a node of kind {other}"),
    }
}

fn vnode(e: &ds::Vertical) -> Value {
    use ds::Vertical as V;
    match e {
        V::HBox(b) => json!({"k":"hbox","w":b.width.0,"s":b.shift_amount.0,"list":nodes(&b.list)}),
        V::Penalty(p) => json!({"k":"penalty","p":p.0}),
        V::Glue(g) => {
            let mut v = glue_json(&g.value);
            v["k"] = json!("vglue");
            v
        }
        V::Kern(k) => json!({"k":"vkern","w":k.width.0}),
        V::VBox(_) => json!({"k":"vbox"}),
        V::Rule(_) => json!({"k":"vrule"}),
        V::Mark(_) => json!({"k":"mark"}),
        V::Insertion(_) => json!({"k":"ins"}),
        V::Math(_) => json!({"k":"math"}),
        V::Whatsit(_) => json!({"k":"whatsit"}),
    }
}

// ------------------------------------------------------------------------------------------
// statistics for the evidence file (measured, never expectations)
// ------------------------------------------------------------------------------------------

#[derive(Default)]
struct Stats {
    seen: std::collections::HashSet<u64>,
    events: u64,
    distinct: u64,
    nontrivial: u64,
    panics: u64,
    counts: BTreeMap<String, u64>,
    longest: usize,
}

impl Stats {
    fn bump(&mut self, k: &str, n: u64) {
        *self.counts.entry(k.to_string()).or_insert(0) += n;
    }
    /// returns true when the event is new
    fn note(&mut self, ev: &Value, nontrivial: bool) -> bool {
        use std::hash::{Hash, Hasher};
        let mut h = std::collections::hash_map::DefaultHasher::new();
        serde_json::to_string(ev).unwrap().hash(&mut h);
        self.events += 1;
        if ev.get("panic").is_some() {
            self.panics += 1;
        }
        let new = self.seen.insert(h.finish());
        if new {
            self.distinct += 1;
            if nontrivial {
                self.nontrivial += 1;
            }
        }
        new
    }
    fn write(&self, args: &Args, extra: Value) {
        if let Some(p) = args.str("stats") {
            let v = json!({"events": self.events, "distinct": self.distinct, "nontrivial": self.nontrivial,
                "panics": self.panics, "counts": self.counts, "longest_list": self.longest, "gen": extra});
            std::fs::write(p, serde_json::to_string(&v).unwrap()).expect("write stats");
        }
    }
}

// ------------------------------------------------------------------------------------------
// (a) text -> horizontal list
// ------------------------------------------------------------------------------------------

struct TextCase {
    font: u32,
    text: String,
    /// entries of the space-factor table that differ from plain TeX's
    codes: Vec<(u8, i32)>,
    ss: common::Glue,
    xs: common::Glue,
}

fn text_params(c: &TextCase) -> boxworks_text::Params {
    let mut p = boxworks_text::Params::plain_tex_defaults();
    for &(ch, code) in &c.codes {
        p.space_factor_codes.0[ch as usize] = code;
    }
    p.space_skip = c.ss;
    p.extra_space_skip = c.xs;
    p
}

/// The inputs of the event: words, the space-factor code of every character, the setting.
fn text_inputs(fonts: &Fonts, c: &TextCase) -> Value {
    let table = text_params(c).space_factor_codes;
    let words: Vec<&str> = c.text.split_ascii_whitespace().collect();
    let sfc: Vec<Vec<i32>> = words
        .iter()
        .map(|w| w.chars().map(|ch| table.0.get(ch as usize).copied().unwrap_or(1000)).collect())
        .collect();
    let d = fonts.data[c.font as usize].dims;
    json!({"fn":"text","font":c.font,"text":c.text,
        "words": words.iter().map(|w| codes(w)).collect::<Vec<_>>(), "sfc": sfc,
        "codes": c.codes.iter().map(|(a, b)| json!([a, b])).collect::<Vec<_>>(),
        "S": {"font": {"space": d[0], "stretch": d[1], "shrink": d[2], "extra": d[3]},
              "ss": glue_json(&c.ss), "xs": glue_json(&c.xs)}})
}

fn run_text(fonts: &Fonts, c: &TextCase) -> (Value, Option<Vec<ds::Horizontal>>) {
    let mut ev = text_inputs(fonts, c);
    let r = catch(|| {
        let mut tp = fonts.preprocessor(text_params(c), c.font);
        let mut list = vec![];
        tp.add_text(&c.text, &mut list);
        list
    });
    match r {
        Ok(list) => {
            ev["nodes"] = json!(nodes(&list));
            (ev, Some(list))
        }
        Err((site, msg)) => {
            ev["panic"] = json!([site, msg]);
            (ev, None)
        }
    }
}

const CMR_WORDS: &[&str] = &[
    "difficult", "office", "waffle", "shuffle", "fjord", "AV", "AWAY", "To", "Valley", "well-known", "stone-eyed",
    "end.", "Mr.", "NASA.", "etc.)", "(yes)", "what?", "so!", "this:", "that;", "and,", "``quoted''", "a--b", "x---y",
    "the", "of", "a", "I", "it", "paragraph", "hyphenation", "typesetting", "beautiful", "algorithm", "necessary",
    "fi", "ff", "fl", "ffi", "ffl", "-", "--", "A.", "B.)", "O.K.", "'tis", "don't", "e.g.,", "V.", "W.;",
];
const SYN_WORDS: &[&str] = &[
    "ab", "abc", "abca", "aab", "cab", "de", "dde", "ded", "dd", "AB", "A.", "BA.", "a-a", "a--a", "---", "-", "ab-",
    "abc-de", "f", "gh", "hg", "a", "b.", "c,", "d;", "e!", "f)", "g:", "hA.", "fab", "cabde", "x", "y", "ac", "xa", "a-",
];
const SF_VALUES: &[i32] = &[0, 1, 500, 999, 1000, 1001, 1250, 1999, 2000, 3000, 32767];

fn random_glue(rng: &mut Rng, allow_orders: bool) -> common::Glue {
    let dim = |rng: &mut Rng| -> i32 {
        match rng.below(6) {
            0 => 0,
            1 => rng.range(1, 40) as i32,
            2 => -(rng.range(1, 200000) as i32),
            _ => rng.range(1, 500000) as i32,
        }
    };
    let ord = |rng: &mut Rng| if allow_orders && rng.chance(1, 4) { order_of(rng.range(1, 3)) } else { GlueOrder::Normal };
    common::Glue {
        width: Scaled(dim(rng)),
        stretch: Scaled(dim(rng)),
        stretch_order: ord(rng),
        shrink: Scaled(dim(rng)),
        shrink_order: ord(rng),
    }
}

/// \spaceskip / \xspaceskip: zero, "zero with an order" (still zero_glue for TeX), or a real glue
fn random_skip(rng: &mut Rng) -> common::Glue {
    match rng.below(8) {
        0..=2 => common::Glue::ZERO,
        3 => common::Glue { stretch_order: GlueOrder::Fil, shrink_order: GlueOrder::Fill, ..common::Glue::ZERO },
        4 => common::Glue { width: Scaled(rng.range(100000, 400000) as i32), ..common::Glue::ZERO },
        _ => {
            let mut g = random_glue(rng, true);
            if rng.chance(1, 2) {
                g.width = Scaled(rng.range(100000, 400000) as i32);
            }
            g
        }
    }
}

fn random_text_case(rng: &mut Rng, maxwords: u64) -> TextCase {
    let font = if rng.chance(2, 3) { 0 } else { 1 };
    let pool = if font == 0 { CMR_WORDS } else { SYN_WORDS };
    let letters: &[u8] = if font == 0 { b"abcdefghijklmnopqrstuvwxyzAVWTY.,;:!?)'-" } else { b"abcdefghAB-.,;!):" };
    let nwords = 1 + rng.below(maxwords);
    let mut text = String::new();
    for w in 0..nwords {
        if w > 0 {
            text.push(' ');
            if rng.chance(1, 8) {
                text.push(if rng.chance(1, 2) { ' ' } else { '\n' });
            }
        }
        if rng.chance(3, 4) {
            text.push_str(*rng.pick(pool));
        } else {
            for _ in 0..rng.range(1, 7) {
                text.push(*rng.pick(letters) as char);
            }
        }
    }
    let mut codes = vec![];
    if rng.chance(1, 2) {
        for _ in 0..rng.range(1, 8) {
            codes.push((*rng.pick(letters), *rng.pick(SF_VALUES)));
        }
    }
    TextCase { font, text, codes, ss: random_skip(rng), xs: random_skip(rng) }
}

fn text_nontrivial(ev: &Value) -> bool {
    // at least one blank after a character whose code is not 1000, or a non-zero \spaceskip / \xspaceskip
    let words = ev["sfc"].as_array().map(|a| a.len()).unwrap_or(0);
    let special = ev["sfc"].as_array().map(|a| a.iter().any(|w| w.as_array().unwrap().iter().any(|c| c != 1000))).unwrap_or(false);
    let skips = ["ss", "xs"].iter().any(|k| ["w", "st", "sh"].iter().any(|f| ev["S"][k][f] != 0));
    words >= 2 && (special || skips)
}

fn texts(args: &Args) -> i32 {
    quiet_panics();
    let fonts = Fonts::new();
    let mut rng = Rng::new(args.num("seed", 1));
    let n: u64 = args.num("n", 1000);
    let mut out = Out::new(args.str("out"));
    let mut st = Stats::default();
    // the repository's own pinned examples first (boxworks-text's `spacing_tests`): validates the
    // specification against what the maintainers checked with real TeX
    for w in ["a;", "a,", "a.", "a:", "))", ")A", ")a", ").", "A)", "AA", "Aa", "A.", "a)", "aA", "aa", ".)", ".A", ".a", ".."] {
        let c = TextCase { font: 0, text: format!("{w} a"), codes: vec![], ss: common::Glue::ZERO, xs: common::Glue::ZERO };
        let (ev, _) = run_text(&fonts, &c);
        st.note(&ev, text_nontrivial(&ev));
        out.line(&ev);
    }
    // ... and its preprocessor tests (ligatures, kerns, the ragged-right \spaceskip / \xspaceskip setting)
    let rr_ss = common::Glue { width: Scaled::parse_from_string("3.33298pt").unwrap(), ..common::Glue::ZERO };
    let rr_xs = common::Glue { width: Scaled::parse_from_string("5.0pt").unwrap(), ..common::Glue::ZERO };
    for (t, ss, xs) in [("second", common::Glue::ZERO, common::Glue::ZERO), ("sec ond", common::Glue::ZERO, common::Glue::ZERO),
        ("AO AV", common::Glue::ZERO, common::Glue::ZERO), ("ff ffi", common::Glue::ZERO, common::Glue::ZERO), ("a b. c", rr_ss, rr_xs)] {
        let c = TextCase { font: 0, text: t.to_string(), codes: vec![], ss, xs };
        let (ev, _) = run_text(&fonts, &c);
        st.note(&ev, text_nontrivial(&ev));
        out.line(&ev);
    }
    for _ in 0..n {
        let c = random_text_case(&mut rng, 9);
        let (ev, list) = run_text(&fonts, &c);
        let nt = text_nontrivial(&ev);
        if st.note(&ev, nt) {
            if let Some(l) = &list {
                st.longest = st.longest.max(l.len());
                st.bump("glue_nodes", l.iter().filter(|e| matches!(e, ds::Horizontal::Glue(_))).count() as u64);
                st.bump("ligatures", l.iter().filter(|e| matches!(e, ds::Horizontal::Ligature(_))).count() as u64);
                st.bump("kerns", l.iter().filter(|e| matches!(e, ds::Horizontal::Kern(_))).count() as u64);
                st.bump("discretionaries", l.iter().filter(|e| matches!(e, ds::Horizontal::Discretionary(_))).count() as u64);
            }
            st.bump(if c.font == 0 { "font_cmr10" } else { "font_synthetic" }, 1);
        }
        out.line(&ev);
    }
    out.flush();
    st.write(args, json!({"seed": args.num::<u64>("seed", 1), "n": n}));
    eprintln!("c12-text: {} events ({} distinct, {} non-trivial, {} panics)", st.events, st.distinct, st.nontrivial, st.panics);
    0
}

// ------------------------------------------------------------------------------------------
// (b) horizontal list -> lines
// ------------------------------------------------------------------------------------------

/// Observes the breakpoints through the public debug::Logger callbacks: every new active node
/// belongs to the element of the feasible breakpoint reported just before it; the chosen
/// breakpoints are the chain of previous-node links from the selected node.
#[derive(Default)]
struct BpLogger {
    cur_elem: usize,
    passive: Vec<(usize, usize)>,
    selected: Option<usize>,
    attempts: u32,
    inconsistent: bool,
}

impl kp::debug::Logger for BpLogger {
    fn log_attempt(&mut self, _attempt: kp::debug::Attempt) {
        self.passive.clear();
        self.passive.push((0, 0));
        self.selected = None;
        self.attempts += 1;
    }
    fn log_feasible_breakpoint(&mut self, _list: &[ds::Horizontal], fb: kp::debug::FeasibleBreakpoint) {
        self.cur_elem = fb.elem_index;
    }
    fn log_new_active_node(&mut self, an: kp::debug::NewActiveNode) {
        if an.node_index != self.passive.len() {
            self.inconsistent = true;
        }
        self.passive.push((self.cur_elem, an.previous_node_index));
    }
    fn log_selected_node(&mut self, node_index: usize) {
        self.selected = Some(node_index);
    }
}

impl BpLogger {
    fn breakpoints(&self) -> Option<Vec<usize>> {
        if self.inconsistent {
            return None;
        }
        let mut v = vec![];
        let mut i = self.selected?;
        while i > 0 {
            let (elem, prev) = *self.passive.get(i)?;
            v.push(elem);
            if prev >= i {
                return None;
            }
            i = prev;
        }
        v.reverse();
        Some(v)
    }
}

struct NoHyphenation;
impl boxworks::Hyphenator for NoHyphenation {
    fn hyphenate(&self, _list: &mut Vec<ds::Horizontal>) {}
}

struct ParaCase {
    orig: Vec<ds::Horizontal>,
    params: kp::Params,
    widths: Vec<i32>,
    indents: Vec<i32>,
    /// 0 = no-op hyphenator, 1 = plain TeX's patterns with the lig/kern program of font `hfont`
    hyph: u8,
    hfont: u32,
    words: Option<Vec<Vec<u32>>>,
}

fn params_json(c: &ParaCase) -> (Value, Value) {
    let p = &c.params;
    (
        json!({"ls": glue_json(&p.left_skip), "rs": glue_json(&p.right_skip), "pfs": glue_json(&p.par_fill_skip),
               "ilp": p.inter_line_penalty, "club": p.club_penalty, "widow": p.final_widow_penalty,
               "broken": p.broken_penalty, "widths": c.widths, "indents": c.indents}),
        json!({"adj": p.adj_demerits, "dhd": p.double_hyphen_demerits, "es": p.emergency_stretch.0,
               "exhp": p.ex_hyphen_penalty, "fhd": p.final_hyphen_demerits, "hp": p.hyphen_penalty,
               "lp": p.line_penalty, "loose": p.looseness, "pretol": p.pre_tolerance, "tol": p.tolerance,
               "hfont": c.hfont}),
    )
}

fn run_para(fonts: &Fonts, c: &ParaCase) -> Value {
    let (pj, kj) = params_json(c);
    let mut ev = json!({"fn":"para","orig":nodes(&c.orig),"hyph":c.hyph,"P":pj,"K":kj});
    if let Some(w) = &c.words {
        ev["words"] = json!(w);
    }
    let widths: Vec<Scaled> = c.widths.iter().map(|w| Scaled(*w)).collect();
    let indents: Vec<Scaled> = c.indents.iter().map(|w| Scaled(*w)).collect();
    let r = catch(|| {
        let mut logger = BpLogger::default();
        let real;
        let hyphenator: &dyn boxworks::Hyphenator = if c.hyph == 1 {
            real = boxworks_hyphenate::Hyphenator::plain_tex_en_us(fonts.data[c.hfont as usize].program.clone());
            &real
        } else {
            &NoHyphenation
        };
        let mut list = c.orig.clone();
        let mut v = vec![];
        let lb = kp::LineBreaker {
            params: &c.params,
            line_widths: &widths,
            line_indents: &indents,
            debug_logger: Some(&mut logger),
            hyphenator,
        };
        lb.break_line(&fonts.repo, &mut v, &mut list);
        // the same paragraph once more, appended to the vertical list the first run made: a paragraph is the same
        // paragraph wherever it lands (club and widow penalties count *its* lines); only the interline glue in front
        // of its first line is new
        let mut v2 = v.clone();
        let mut list2 = c.orig.clone();
        let lb2 = kp::LineBreaker {
            params: &c.params,
            line_widths: &widths,
            line_indents: &indents,
            debug_logger: None,
            hyphenator,
        };
        lb2.break_line(&fonts.repo, &mut v2, &mut list2);
        let again: Vec<ds::Vertical> = v2[v.len().min(v2.len())..].to_vec();
        (list, v, logger.breakpoints(), logger.attempts, again)
    });
    match r {
        Ok((list, v, bps, attempts, again)) => {
            ev["v_again"] = json!(again.iter().map(vnode).collect::<Vec<_>>());
            let Some(bps) = bps else {
                eprintln!("c12: the debug::Logger callbacks did not yield the chosen breakpoints");
                std::process::exit(2);
            };
            ev["list"] = json!(nodes(&list));
            ev["bps"] = json!(bps);
            ev["passes"] = json!(attempts);
            ev["v"] = json!(v.iter().map(vnode).collect::<Vec<_>>());
        }
        Err((site, msg)) => {
            ev["panic"] = json!([site, msg]);
        }
    }
    ev
}

/// Measured features of a para event (for the evidence file and the non-triviality rule).
fn note_para(st: &mut Stats, ev: &Value) {
    let lines = ev["bps"].as_array().map(|a| a.len()).unwrap_or(0);
    let new = st.note(ev, lines >= 2);
    if !new || ev.get("panic").is_some() {
        return;
    }
    let list = ev["list"].as_array().unwrap();
    st.longest = st.longest.max(list.len());
    st.bump("lines", lines as u64);
    if ev["hyph"] == 1 && ev["list"].as_array().unwrap().len() != ev["orig"].as_array().unwrap().len() + 1
        && ev["list"].as_array().unwrap().len() != ev["orig"].as_array().unwrap().len() + 2
    {
        st.bump("paragraphs_hyphenated", 1);
    }
    if ev["passes"].as_u64().unwrap_or(1) > 1 {
        st.bump("paragraphs_needing_second_pass", 1);
    }
    let bps: Vec<usize> = ev["bps"].as_array().unwrap().iter().map(|b| b.as_u64().unwrap() as usize).collect();
    let discardable = |n: &Value| n["k"] == "glue" || n["k"] == "penalty" || (n["k"] == "kern" && n["kk"] == 1);
    for (j, &b) in bps.iter().enumerate() {
        let kind = list.get(b).map(|n| n["k"].as_str().unwrap().to_string()).unwrap_or_else(|| "end".into());
        st.bump(&format!("breaks_at_{kind}"), 1);
        if let Some(n) = list.get(b) {
            let mut after = b + 1;
            if n["k"] == "disc" {
                after += n["rc"].as_u64().unwrap() as usize;
                if !n["post"].as_array().unwrap().is_empty() {
                    st.bump("breaks_with_post_break_material", 1);
                    continue;
                }
            }
            if let (Some(x), Some(&nb)) = (list.get(after), bps.get(j + 1)) {
                if discardable(x) && after != nb {
                    st.bump("breaks_followed_by_discardable", 1);
                }
                if discardable(x) && after == nb {
                    st.bump("breaks_followed_by_breakpoint", 1);
                }
            }
        }
    }
}

// ---- generators ---------------------------------------------------------------------------

fn pt(x: f64) -> i32 {
    (x * 65536.0).round() as i32
}

fn random_kp_params(rng: &mut Rng) -> kp::Params {
    let mut p = kp::Params::plain_tex_defaults();
    let pen = |rng: &mut Rng| -> i32 {
        match rng.below(7) {
            0 | 1 => 0,
            2 => -(rng.range(1, 300) as i32),
            3 => 10000,
            _ => rng.range(1, 999) as i32,
        }
    };
    p.inter_line_penalty = pen(rng);
    p.club_penalty = pen(rng);
    p.final_widow_penalty = pen(rng);
    p.broken_penalty = pen(rng);
    if rng.chance(1, 6) {
        // sums that cancel
        p.inter_line_penalty = 0;
        p.final_widow_penalty = -p.club_penalty;
    }
    let skip = |rng: &mut Rng| -> common::Glue {
        match rng.below(6) {
            0 | 1 => common::Glue::ZERO,
            2 => common::Glue { stretch_order: GlueOrder::Fil, ..common::Glue::ZERO }, // zero_glue with an order
            3 => common::Glue { width: Scaled(rng.range(pt(1.0) as i64, pt(12.0) as i64) as i32), ..common::Glue::ZERO },
            4 => common::Glue { stretch: Scaled(pt(20.0) + rng.range(0, 9) as i32), ..common::Glue::ZERO },
            _ => common::Glue {
                width: Scaled(rng.range(0, pt(6.0) as i64) as i32),
                stretch: Scaled(rng.range(0, pt(9.0) as i64) as i32),
                stretch_order: if rng.chance(1, 4) { GlueOrder::Fil } else { GlueOrder::Normal },
                shrink: Scaled(rng.range(0, pt(2.0) as i64) as i32),
                shrink_order: GlueOrder::Normal,
            },
        }
    };
    p.left_skip = skip(rng);
    p.right_skip = skip(rng);
    match rng.below(5) {
        0 => p.par_fill_skip = common::Glue::ZERO,
        1 => p.par_fill_skip = common::Glue { width: Scaled(pt(7.5)), stretch: Scaled(pt(3.25)), ..common::Glue::ZERO },
        _ => {}
    }
    p.tolerance = *rng.pick(&[200, 200, 1000, 10000]);
    p.pre_tolerance = *rng.pick(&[100, 100, -1, 10000]);
    if rng.chance(1, 5) {
        p.emergency_stretch = Scaled(pt(10.0));
    }
    if rng.chance(1, 8) {
        p.looseness = *rng.pick(&[-1, 1]);
    }
    if rng.chance(1, 6) {
        p.hyphen_penalty = *rng.pick(&[0, 500, 10000]);
        p.ex_hyphen_penalty = *rng.pick(&[0, -10000, 200]);
    }
    p
}

fn random_geometry(rng: &mut Rng, lo: f64, hi: f64) -> (Vec<i32>, Vec<i32>) {
    let nw = *rng.pick(&[1, 1, 2, 3, 4]);
    let widths = (0..nw).map(|_| rng.range(pt(lo) as i64, pt(hi) as i64) as i32).collect();
    let ni = *rng.pick(&[0, 0, 1, 2, 3, 5]);
    let indents = (0..ni).map(|_| rng.range(-(pt(5.0) as i64), pt(30.0) as i64) as i32).collect();
    (widths, indents)
}

fn text_para(rng: &mut Rng, fonts: &Fonts) -> Option<ParaCase> {
    let tc = random_text_case(rng, 28);
    let (ev, list) = run_text(fonts, &tc);
    let list = list?;
    let hyph = if tc.font == 0 && rng.chance(1, 2) { 1 } else { 0 };
    let (lo, hi) = if rng.chance(1, 3) { (40.0, 90.0) } else { (80.0, 260.0) };
    let (widths, indents) = random_geometry(rng, lo, hi);
    let words = ev["words"].as_array().unwrap().iter()
        .map(|w| w.as_array().unwrap().iter().map(|c| c.as_u64().unwrap() as u32).collect()).collect();
    Some(ParaCase { orig: list, params: random_kp_params(rng), widths, indents, hyph, hfont: tc.font, words: Some(words) })
}

/// Hand-built lists: every node kind post_line_break distinguishes, runs of consecutive discardable
/// items, discretionaries with pre-/post-break material and replacement counts.  A running counter
/// goes into every dimension / penalty so that no two nodes of a list are equal.
struct ListGen<'a> {
    rng: &'a mut Rng,
    n: i32,
}

impl ListGen<'_> {
    fn uniq(&mut self) -> i32 {
        self.n += 1;
        self.n
    }
    fn chr(&mut self) -> ds::Horizontal {
        let font = if self.rng.chance(2, 3) { 0 } else { 1 };
        let letters: &[u8] = if font == 0 { b"abcdefghijklmnopqrstuvwxyz" } else { b"abcdefghwxyzAB" };
        let c = letters[(self.uniq() as usize * 7 + self.rng.below(3) as usize) % letters.len()] as char;
        ds::Char { char: c, font }.into()
    }
    fn lig(&mut self) -> ds::Horizontal {
        let (c, o) = *self.rng.pick(&[('\u{c}', "fi"), ('\u{b}', "ff"), ('\u{e}', "ffi"), ('\u{7b}', "--")]);
        ds::Ligature { char: c, font: 0, original_chars: o.into(), includes_left_boundary: false, includes_right_boundary: false }.into()
    }
    fn glue(&mut self) -> ds::Horizontal {
        let u = self.uniq();
        let g = match self.rng.below(6) {
            0 => common::Glue { width: Scaled(pt(3.0) + u), stretch: Scaled(pt(1.5)), shrink: Scaled(pt(1.0)), ..common::Glue::ZERO },
            1 => common::Glue { width: Scaled(u), stretch: Scaled(pt(1.0)), stretch_order: GlueOrder::Fil, ..common::Glue::ZERO },
            2 => common::Glue { width: Scaled(-u), ..common::Glue::ZERO },
            3 => common::Glue { width: Scaled(pt(10.0) + u), stretch: Scaled(pt(20.0)), shrink: Scaled(pt(5.0)), ..common::Glue::ZERO },
            _ => common::Glue { width: Scaled(pt(3.33) + u), stretch: Scaled(pt(1.66) + u), shrink: Scaled(pt(1.11) + u), ..common::Glue::ZERO },
        };
        ds::Glue { value: g, kind: ds::GlueKind::Normal }.into()
    }
    fn penalty(&mut self) -> ds::Horizontal {
        let u = self.uniq();
        ds::Penalty(match self.rng.below(8) {
            0 => -10000,
            1 => 10000,
            2 => -10000 - u,
            3 => -u,
            _ => u * 3,
        })
        .into()
    }
    fn kern(&mut self) -> ds::Horizontal {
        let u = self.uniq();
        let kind = *self.rng.pick(&[ds::KernKind::Explicit, ds::KernKind::Explicit, ds::KernKind::Normal, ds::KernKind::Accent]);
        ds::Kern { width: Scaled(if self.rng.chance(1, 4) { -u } else { pt(0.5) + u }), kind }.into()
    }
    fn boxlike(&mut self) -> ds::Horizontal {
        let u = self.uniq();
        if self.rng.chance(1, 2) {
            ds::Rule { width: Scaled(pt(2.0) + u), height: Scaled(pt(1.0) + u), depth: Scaled(u) }.into()
        } else {
            ds::HBox { width: Scaled(pt(6.0) + u), height: Scaled(pt(4.0) + u), depth: Scaled(u), shift_amount: Scaled(u % 3),
                       list: vec![ds::Char { char: 'q', font: 0 }.into()], ..Default::default() }.into()
        }
    }
    fn delem(&mut self) -> ds::DiscretionaryElem {
        let u = self.uniq();
        match self.rng.below(5) {
            0 => ds::DiscretionaryElem::Kern(ds::Kern { width: Scaled(u), kind: ds::KernKind::Normal }),
            1 => ds::DiscretionaryElem::Char(ds::Char { char: '-', font: 0 }),
            2 => ds::DiscretionaryElem::Rule(ds::Rule { width: Scaled(pt(1.0) + u), height: Scaled(u), depth: Scaled(0) }),
            _ => match self.chr() {
                ds::Horizontal::Char(c) => ds::DiscretionaryElem::Char(c),
                _ => unreachable!(),
            },
        }
    }
    /// a discretionary followed by the nodes it replaces
    fn disc(&mut self, out: &mut Vec<ds::Horizontal>) {
        let pre = (0..*self.rng.pick(&[0, 1, 1, 2])).map(|_| self.delem()).collect();
        let post = (0..*self.rng.pick(&[0, 0, 1, 2])).map(|_| self.delem()).collect();
        let rc = *self.rng.pick(&[0, 0, 1, 2]);
        out.push(ds::Discretionary { pre_break: pre, post_break: post, replace_count: rc }.into());
        for _ in 0..rc {
            let e = match self.rng.below(4) {
                0 => { let u = self.uniq(); ds::Kern { width: Scaled(u), kind: ds::KernKind::Normal }.into() }
                1 => self.lig(),
                _ => self.chr(),
            };
            out.push(e);
        }
    }
    fn list(&mut self, maxlen: usize) -> Vec<ds::Horizontal> {
        let len = 1 + self.rng.below(maxlen as u64) as usize;
        let mut l = vec![];
        while l.len() < len {
            match self.rng.below(20) {
                0..=7 => { let e = self.chr(); l.push(e) }
                8..=11 => { let e = self.glue(); l.push(e) }
                12 | 13 => { let e = self.penalty(); l.push(e) }
                14 | 15 => { let e = self.kern(); l.push(e) }
                16 | 17 => self.disc(&mut l),
                18 => { let e = self.lig(); l.push(e) }
                _ => { let e = self.boxlike(); l.push(e) }
            }
        }
        l
    }
}

fn handmade_para(rng: &mut Rng) -> ParaCase {
    let maxlen = *rng.pick(&[6, 12, 20, 30]);
    let orig = ListGen { rng, n: 0 }.list(maxlen);
    let (lo, hi) = *rng.pick(&[(8.0, 25.0), (15.0, 60.0), (40.0, 200.0)]);
    let (widths, indents) = random_geometry(rng, lo, hi);
    let mut params = random_kp_params(rng);
    if rng.chance(1, 2) {
        params.tolerance = 10000;
    }
    ParaCase { orig, params, widths, indents, hyph: 0, hfont: 0, words: None }
}

/// Whether the sums of |width|, |stretch| and |shrink| (per order) over the whole list, the skips and
/// the discretionary material stay below TeX's max_dimen.
fn totals_in_range(c: &ParaCase) -> bool {
    let mut w: i64 = 0;
    let mut st = [0i64; 4];
    let mut sh = [0i64; 4];
    let mut add_glue = |g: &common::Glue, w: &mut i64| {
        *w += (g.width.0 as i64).abs();
        st[order_num(g.stretch_order) as usize] += (g.stretch.0 as i64).abs();
        sh[order_num(g.shrink_order) as usize] += (g.shrink.0 as i64).abs();
    };
    for g in [&c.params.left_skip, &c.params.right_skip, &c.params.par_fill_skip] {
        // the skips are added once per line; a paragraph has fewer lines than nodes
        for _ in 0..c.orig.len().max(1) {
            add_glue(g, &mut w);
        }
    }
    for e in &c.orig {
        match e {
            ds::Horizontal::Glue(g) => add_glue(&g.value, &mut w),
            ds::Horizontal::Kern(k) => w += (k.width.0 as i64).abs(),
            ds::Horizontal::HBox(b) => w += (b.width.0 as i64).abs(),
            ds::Horizontal::VBox(b) => w += (b.width.0 as i64).abs(),
            ds::Horizontal::Rule(r) => w += (r.width.0 as i64).abs(),
            _ => w += 1 << 20, // characters, ligatures, discretionary material: at most 16pt each here
        }
    }
    let max = 1i64 << 30;
    w < max && st.iter().all(|x| *x < max) && sh.iter().all(|x| *x < max)
}

fn paras(args: &Args) -> i32 {
    quiet_panics();
    let fonts = Fonts::new();
    let mut rng = Rng::new(args.num("seed", 1));
    let n: u64 = args.num("n", 1000);
    let text_share: u64 = args.num("text", 40); // per cent of text-derived paragraphs
    let mut out = Out::new(args.str("out"));
    let mut st = Stats::default();
    let mut made = 0;
    while made < n {
        let c = if rng.below(100) < text_share {
            match text_para(&mut rng, &fonts) {
                Some(c) => c,
                None => continue, // add_text panicked: reported by the text events
            }
        } else {
            handmade_para(&mut rng)
        };
        // TeX adds the widths, stretch and shrink of a paragraph in 32-bit integers without a check
        // (TeX.2021.104: "TeX does not check for overflow when dimensions are added"): a paragraph
        // whose totals leave the range of a dimension (< 2^30 sp; reachable since a space factor of 1
        // multiplies the shrink of \xspaceskip by 1000) has no defined meaning and is not in the
        // quantifier.  Counted, not run.
        if !totals_in_range(&c) {
            st.bump("skipped_totals_beyond_max_dimen", 1);
            continue;
        }
        let ev = run_para(&fonts, &c);
        note_para(&mut st, &ev);
        st.bump(if c.words.is_some() { "from_text" } else { "hand_built" }, 1);
        out.line(&ev);
        made += 1;
    }
    out.flush();
    st.write(args, json!({"seed": args.num::<u64>("seed", 1), "n": n, "text_share": text_share}));
    eprintln!("c12-para: {} events ({} distinct, {} with >= 2 lines, {} panics)", st.events, st.distinct, st.nontrivial, st.panics);
    0
}

/// Every list of at most `maxlen` nodes over a small alphabet (positions make the nodes distinct),
/// under a narrow and a wide measure and two parameter settings.
fn exhaustive(args: &Args) -> i32 {
    quiet_panics();
    let fonts = Fonts::new();
    let maxlen: usize = args.num("maxlen", 4);
    let mut out = Out::new(args.str("out"));
    let mut st = Stats::default();
    // alphabet: a maker per kind, given the position
    type Maker = fn(i32, &mut Vec<ds::Horizontal>);
    let makers: &[Maker] = &[
        |i, l| l.push(ds::Char { char: (b'a' + (i as u8 % 26)) as char, font: 0 }.into()),
        |i, l| l.push(ds::Glue { value: common::Glue { width: Scaled(pt(3.0) + i), stretch: Scaled(pt(2.0)), shrink: Scaled(pt(1.0)), ..common::Glue::ZERO }, kind: ds::GlueKind::Normal }.into()),
        |i, l| l.push(ds::Penalty(i).into()),
        |i, l| l.push(ds::Penalty(-10000 - i).into()),
        |i, l| l.push(ds::Kern { width: Scaled(pt(1.0) + i), kind: ds::KernKind::Explicit }.into()),
        |i, l| l.push(ds::Kern { width: Scaled(pt(1.0) + i), kind: ds::KernKind::Normal }.into()),
        |_, l| l.push(ds::Discretionary::default().into()),
        |i, l| {
            l.push(ds::Discretionary {
                pre_break: vec![ds::Char { char: '-', font: 0 }.into()],
                post_break: vec![ds::Char { char: (b'A' + (i as u8 % 26)) as char, font: 0 }.into()],
                replace_count: 1,
            }.into());
            l.push(ds::Char { char: (b'n' + (i as u8 % 10)) as char, font: 0 }.into());
        },
    ];
    let n = makers.len() as u64;
    let mut settings = vec![];
    {
        let mut a = kp::Params::plain_tex_defaults();
        a.tolerance = 10000;
        a.inter_line_penalty = 1;
        a.club_penalty = 10;
        a.final_widow_penalty = 100;
        a.broken_penalty = 1000;
        settings.push((a, vec![pt(6.0)], vec![]));
        let mut b = kp::Params::plain_tex_defaults();
        b.tolerance = 10000;
        b.club_penalty = 7;
        b.final_widow_penalty = -7;
        b.broken_penalty = 0;
        b.left_skip = common::Glue { width: Scaled(pt(1.0)), ..common::Glue::ZERO };
        b.right_skip = common::Glue { stretch: Scaled(pt(30.0)), ..common::Glue::ZERO };
        settings.push((b, vec![pt(11.0), pt(7.0)], vec![pt(1.0), pt(2.0), pt(3.0)]));
    }
    let mut lists = 0u64;
    for len in 1..=maxlen {
        for code in 0..n.pow(len as u32) {
            let mut c = code;
            let mut list = vec![];
            for pos in 0..len {
                makers[(c % n) as usize](pos as i32 + 1, &mut list);
                c /= n;
            }
            lists += 1;
            for (params, widths, indents) in &settings {
                let case = ParaCase {
                    orig: list.clone(),
                    params: clone_params(params),
                    widths: widths.clone(),
                    indents: indents.clone(),
                    hyph: 0,
                    hfont: 0,
                    words: None,
                };
                let ev = run_para(&fonts, &case);
                note_para(&mut st, &ev);
                out.line(&ev);
            }
        }
    }
    out.flush();
    st.write(args, json!({"alphabet": n, "lists": lists, "maxlen": maxlen, "settings": settings.len()}));
    eprintln!("c12-exh: {} lists, {} events ({} with >= 2 lines, {} panics)", lists, st.events, st.nontrivial, st.panics);
    0
}

fn clone_params(p: &kp::Params) -> kp::Params {
    kp::Params {
        adj_demerits: p.adj_demerits,
        broken_penalty: p.broken_penalty,
        double_hyphen_demerits: p.double_hyphen_demerits,
        club_penalty: p.club_penalty,
        emergency_stretch: p.emergency_stretch,
        ex_hyphen_penalty: p.ex_hyphen_penalty,
        final_hyphen_demerits: p.final_hyphen_demerits,
        final_widow_penalty: p.final_widow_penalty,
        hyphen_penalty: p.hyphen_penalty,
        inter_line_penalty: p.inter_line_penalty,
        left_skip: p.left_skip,
        line_penalty: p.line_penalty,
        looseness: p.looseness,
        par_fill_skip: p.par_fill_skip,
        pre_tolerance: p.pre_tolerance,
        right_skip: p.right_skip,
        tolerance: p.tolerance,
    }
}

// ------------------------------------------------------------------------------------------
// the repository's golden paragraphs: vertical lists written from real TeX's log
// ------------------------------------------------------------------------------------------

const GOLDEN_DIR: &str = concat!(env!("VH_REPO"), "/crates/boxworks-knuthplass/testdata");

/// The cases of boxworks-knuthplass's own test table (input, widths, parameters, want file).  Each
/// is run the way that test runs it (add_word + add_space per word, plain TeX's hyphenator) and the
/// event also carries `tex`: the vertical list of the want file, i.e. what real TeX made of the same
/// paragraph.  There the *specification* is on trial: Trace_PostLineBreak requires
/// PLB(list, bps) = tex as well.
fn goldens(args: &Args) -> i32 {
    quiet_panics();
    let fonts = Fonts::new();
    let dir = args.str("dir").unwrap_or(GOLDEN_DIR);
    let mut out = Out::new(args.str("out"));
    let mut st = Stats::default();
    let d = |s: &str| Scaled::parse_from_string(s).expect("dimension");
    type Tweak = fn(&mut kp::Params, &mut boxworks_text::Params);
    let ragged: Tweak = |p, t| {
        t.space_skip = common::Glue { width: Scaled::parse_from_string("3.33298pt").unwrap(), ..Default::default() };
        t.extra_space_skip = common::Glue { width: Scaled::parse_from_string("5.0pt").unwrap(), ..Default::default() };
        p.right_skip = common::Glue { stretch: Scaled::parse_from_string("20.00003pt").unwrap(), ..Default::default() };
    };
    let cases: Vec<(&str, &[&str], Tweak, &str)> = vec![
        ("wolf_hall_input.txt", &["5in"], |_, _| {}, "wolf_hall_5in_want.txt"),
        ("wolf_hall_input.txt", &["3in"], |_, _| {}, "wolf_hall_3in_want.txt"),
        ("wolf_hall_input.txt", &["2in"], |_, _| {}, "wolf_hall_2in_want.txt"),
        ("wolf_hall_input.txt", &["1in"], |_, _| {}, "wolf_hall_1in_want.txt"),
        ("wolf_hall_input.txt", &["1in"], |p, _| p.emergency_stretch = Scaled::parse_from_string("10.0pt").unwrap(), "wolf_hall_emergency_stretch_want.txt"),
        ("wolf_hall_input.txt", &["3in"], |p, _| p.emergency_stretch = Scaled::parse_from_string("10.0pt").unwrap(), "wolf_hall_emergency_stretch_2_want.txt"),
        ("wolf_hall_input.txt", &["5in", "4in", "3in", "4in"], |_, _| {}, "wolf_hall_variable_widths_want.txt"),
        ("farewell_to_arms_input.txt", &["3in"], |p, _| p.looseness = 1, "farewell_to_arms_looseness_plus_1_want.txt"),
        ("farewell_to_arms_input.txt", &["5in"], |p, _| p.looseness = -1, "farewell_to_arms_looseness_minus_1_want.txt"),
        ("wolf_hall_input.txt", &["5in"], ragged, "wolf_hall_ragged_right.txt"),
        ("wolf_hall_input.txt", &["5in"], |p, t| {
            t.space_skip = common::Glue { width: Scaled::parse_from_string("3.33298pt").unwrap(), ..Default::default() };
            t.extra_space_skip = common::Glue { width: Scaled::parse_from_string("5.0pt").unwrap(), ..Default::default() };
            p.right_skip = common::Glue { width: Scaled::parse_from_string("20.0pt").unwrap(),
                stretch: Scaled::parse_from_string("20.00003pt").unwrap(), ..Default::default() };
        }, "wolf_hall_ragged_right_margin.txt"),
        ("wolf_hall_input.txt", &["3in"], |p, _| p.adj_demerits = -10000, "wolf_hall_adj_demerits_want.txt"),
        ("wolf_hall_input.txt", &["3in"], |p, _| p.broken_penalty = 500, "wolf_hall_broken_penalty_want.txt"),
        ("wolf_hall_input.txt", &["3in"], |p, _| p.club_penalty = 1000, "wolf_hall_club_penalty_want.txt"),
        ("wolf_hall_input.txt", &["3in"], |p, _| p.double_hyphen_demerits = -100000, "wolf_hall_double_hyphen_demerits_want.txt"),
        ("wolf_hall_stone_eyed_input.txt", &["3in"], |_, _| {}, "wolf_hall_stone_eyed_want.txt"),
        ("wolf_hall_stone_eyed_input.txt", &["3in"], |p, _| p.ex_hyphen_penalty = -10000, "wolf_hall_ex_hyphen_penalty_want.txt"),
        ("wolf_hall_input.txt", &["3in"], |p, _| p.final_hyphen_demerits = 0, "wolf_hall_final_hyphen_demerits_want.txt"),
        ("wolf_hall_input.txt", &["3in"], |p, _| p.final_widow_penalty = 1000, "wolf_hall_final_widow_penalty_want.txt"),
        ("wolf_hall_input.txt", &["3in"], |p, _| p.hyphen_penalty = 10000, "wolf_hall_hyphen_penalty_want.txt"),
        ("wolf_hall_input.txt", &["3in"], |p, _| p.inter_line_penalty = 100, "wolf_hall_inter_line_penalty_want.txt"),
        ("wolf_hall_input.txt", &["3in"], |p, _| p.left_skip = common::Glue { width: Scaled::parse_from_string("20.0pt").unwrap(), ..Default::default() }, "wolf_hall_left_skip_want.txt"),
        ("wolf_hall_input.txt", &["3in"], |p, _| p.line_penalty = 100, "wolf_hall_line_penalty_want.txt"),
        ("wolf_hall_input.txt", &["3in"], |p, _| p.par_fill_skip = common::Glue::ZERO, "wolf_hall_par_fill_skip_want.txt"),
        ("wolf_hall_input.txt", &["3in"], |p, _| p.pre_tolerance = 10000, "wolf_hall_pre_tolerance_want.txt"),
        ("wolf_hall_input.txt", &["3in"], |p, _| p.right_skip = common::Glue { stretch: Scaled::parse_from_string("20.00003pt").unwrap(), ..Default::default() }, "wolf_hall_right_skip_want.txt"),
        ("wolf_hall_input.txt", &["3in"], |p, _| p.tolerance = 45, "wolf_hall_tolerance_want.txt"),
        ("alice_paragraph_1.txt", &["10in"], |_, _| {}, "alice_paragraph_1_want.txt"),
        ("alice_paragraph_2.txt", &["10in"], |_, _| {}, "alice_paragraph_2_want.txt"),
    ];
    let mut lines = 0u64;
    for (input, widths, tweak, want) in &cases {
        let read = |f: &str| match std::fs::read_to_string(format!("{dir}/{f}")) {
            Ok(s) => s,
            Err(e) => {
                eprintln!("c12-goldens: cannot read {dir}/{f}: {e}");
                std::process::exit(2)
            }
        };
        let text = read(input);
        let mut params = kp::Params::plain_tex_defaults();
        let mut tparams = boxworks_text::Params::plain_tex_defaults();
        tweak(&mut params, &mut tparams);
        // the way boxworks-knuthplass's tests build the list
        let mut tp = fonts.preprocessor(tparams, 0);
        let mut list = vec![];
        for word in text.split_ascii_whitespace() {
            tp.add_word(word.trim_matches(' '), &mut list);
            tp.add_space(&mut list);
        }
        let words: Vec<Vec<u32>> = text.split_ascii_whitespace().map(codes).collect();
        let case = ParaCase {
            orig: list,
            params,
            widths: widths.iter().map(|w| d(w).0).collect(),
            indents: vec![],
            hyph: 1,
            hfont: 0,
            words: Some(words),
        };
        let mut ev = run_para(&fonts, &case);
        // what real TeX made of it
        let want_text = read(want);
        let parsed = match boxworks::lang::parse_horizontal_list(&want_text) {
            Ok(l) => l,
            Err(_) => {
                eprintln!("c12-goldens: {want} does not parse");
                return 2;
            }
        };
        let Some(ds::Horizontal::VBox(vb)) = parsed.first() else {
            eprintln!("c12-goldens: {want} is not a vbox");
            return 2;
        };
        lines += vb.list.iter().filter(|e| matches!(e, ds::Vertical::HBox(_))).count() as u64;
        ev["tex"] = json!(vb.list.iter().map(vnode).collect::<Vec<_>>());
        ev["file"] = json!(want);
        note_para(&mut st, &ev);
        out.line(&ev);
    }
    out.flush();
    st.write(args, json!({"golden_files": cases.len(), "lines_set_by_tex": lines}));
    eprintln!("c12-goldens: {} paragraphs, {} lines set by real TeX", cases.len(), lines);
    0
}

// ------------------------------------------------------------------------------------------
// replay: re-run recorded events on the real code
// ------------------------------------------------------------------------------------------

fn replay(args: &Args) -> i32 {
    quiet_panics();
    let fonts = Fonts::new();
    let src = std::fs::read_to_string(args.req("in")).expect("read events");
    let mut out = Out::new(args.str("out"));
    for line in src.lines().filter(|l| !l.trim().is_empty()) {
        let e: Value = serde_json::from_str(line).expect("event is JSON");
        let i = |v: &Value| v.as_i64().unwrap() as i32;
        match e["fn"].as_str() {
            Some("text") => {
                let c = TextCase {
                    font: e["font"].as_u64().unwrap() as u32,
                    text: e["text"].as_str().unwrap().to_string(),
                    codes: e["codes"].as_array().unwrap().iter().map(|p| (p[0].as_u64().unwrap() as u8, i(&p[1]))).collect(),
                    ss: glue_from(&e["S"]["ss"]),
                    xs: glue_from(&e["S"]["xs"]),
                };
                let (ev, _) = run_text(&fonts, &c);
                out.line(&ev);
            }
            Some("para") => {
                let (p, k) = (&e["P"], &e["K"]);
                let params = kp::Params {
                    adj_demerits: i(&k["adj"]),
                    broken_penalty: i(&p["broken"]),
                    double_hyphen_demerits: i(&k["dhd"]),
                    club_penalty: i(&p["club"]),
                    emergency_stretch: Scaled(i(&k["es"])),
                    ex_hyphen_penalty: i(&k["exhp"]),
                    final_hyphen_demerits: i(&k["fhd"]),
                    final_widow_penalty: i(&p["widow"]),
                    hyphen_penalty: i(&k["hp"]),
                    inter_line_penalty: i(&p["ilp"]),
                    left_skip: glue_from(&p["ls"]),
                    line_penalty: i(&k["lp"]),
                    looseness: i(&k["loose"]),
                    par_fill_skip: glue_from(&p["pfs"]),
                    pre_tolerance: i(&k["pretol"]),
                    right_skip: glue_from(&p["rs"]),
                    tolerance: i(&k["tol"]),
                };
                let c = ParaCase {
                    orig: e["orig"].as_array().unwrap().iter().map(node_from).collect(),
                    params,
                    widths: p["widths"].as_array().unwrap().iter().map(i).collect(),
                    indents: p["indents"].as_array().unwrap().iter().map(i).collect(),
                    hyph: e["hyph"].as_u64().unwrap() as u8,
                    hfont: k["hfont"].as_u64().unwrap() as u32,
                    words: e.get("words").map(|w| {
                        w.as_array().unwrap().iter()
                            .map(|x| x.as_array().unwrap().iter().map(|c| c.as_u64().unwrap() as u32).collect()).collect()
                    }),
                };
                out.line(&run_para(&fonts, &c));
            }
            _ => {
                eprintln!("c12-replay: not a C12 event: {line}");
                return 2;
            }
        }
    }
    out.flush();
    0
}
