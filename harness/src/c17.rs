//! C17 -- font-metric arithmetic (binding F for specs/TfmArith.tla).
//!
//! Every subcommand records calls of the real `tfm` crate as ndjson call events; the expected
//! results are recomputed by TLC (Trace_TfmArith.tla).  `c17-sweep` is the one exception in
//! shape: it checks every integer part x fraction against the *TLC-validated* table of print
//! events (it only indexes that table) and the parse-back identity, which needs no oracle.
//!
//!   c17-table     print events: FixWord Display for (sign, fraction) and (integer part, f>0)
//!   c17-fix       rt / rtfile / parse events: PL writer and PL reader
//!   c17-scaled    FixWord::to_scaled
//!   c17-compress  tfm::compress
//!   c17-nl        NextLargerProgram::new / get
//!   c17-sweep     all integer parts x table fractions: Display vs table, text reads back
//!   c17-one       re-executes the call recorded in one event (replay of a violation)
use crate::util::{catch, quiet_panics, Args, Out, Rng};
use serde_json::{json, Value};
use std::collections::BTreeSet;
use std::fmt::Write as _;
use tfm::pl::ast::{Ast, Root, SingleValue};
use tfm::pl::cst;
use tfm::pl::CharDisplayFormat;
use tfm::{Char, FixWord, NextLargerProgram, NextLargerProgramWarning};

pub fn dispatch(cmd: &str, args: &Args) -> Option<i32> {
    Some(match cmd {
        "c17-table" => table(args),
        "c17-fix" => fix(args),
        "c17-scaled" => scaled(args),
        "c17-compress" => compress(args),
        "c17-nl" => nl(args),
        "c17-sweep" => sweep(args),
        "c17-one" => one(args),
        _ => return None,
    })
}

const UNITY: i32 = 1 << 20;

/// A call of the code under test that does not return is data too: the watchdog writes the
/// in-flight call to `<out>.hang` and ends the process with exit code 3 (the driver turns that
/// into an event with a "panic" field, which no specification action accepts).
mod watch {
    use std::sync::atomic::{AtomicU64, Ordering};
    use std::sync::Mutex;
    static BEAT: AtomicU64 = AtomicU64::new(0);
    static CUR: Mutex<String> = Mutex::new(String::new());

    pub fn start(out: Option<&str>, limit_s: f64) {
        let path = format!("{}.hang", out.unwrap_or("c17"));
        let _ = std::fs::remove_file(&path);
        std::thread::spawn(move || {
            let mut last = BEAT.load(Ordering::Relaxed);
            let mut idle = 0.0;
            loop {
                std::thread::sleep(std::time::Duration::from_millis(250));
                let b = BEAT.load(Ordering::Relaxed);
                if b != last {
                    last = b;
                    idle = 0.0;
                    continue;
                }
                idle += 0.25;
                if idle >= limit_s {
                    let cur = CUR.lock().map(|c| c.clone()).unwrap_or_default();
                    if !cur.is_empty() {
                        let _ = std::fs::write(&path, cur);
                        std::process::exit(3);
                    }
                    idle = 0.0;
                }
            }
        });
    }
    /// Announce the call about to be made (its inputs as an event without result).
    pub fn call(desc: impl FnOnce() -> String) {
        if let Ok(mut c) = CUR.lock() {
            *c = desc();
        }
        BEAT.fetch_add(1, Ordering::Relaxed);
    }
    /// The harness is between calls (writing output, generating inputs).
    pub fn idle() {
        if let Ok(mut c) = CUR.lock() {
            c.clear();
        }
        BEAT.fetch_add(1, Ordering::Relaxed);
    }
}

fn codes(s: &str) -> Vec<u8> {
    s.bytes().collect()
}

fn panic_text(p: (String, String)) -> String {
    format!("{}: {}", p.0, p.1)
}

// ------------------------------------------------------------------------------------------
// observation functions
// ------------------------------------------------------------------------------------------

/// FixWord's Display.
fn display(v: i32) -> Result<String, String> {
    catch(|| format!("{}", FixWord(v))).map_err(panic_text)
}

/// The PL writer: data of the CST node to which a DESIGNUNITS AST node is lowered ("R 1.5").
fn lower_data(v: i32) -> Result<String, String> {
    catch(|| {
        match Root::DesignUnits(SingleValue::from(FixWord(v))).lower(CharDisplayFormat::Default) {
            cst::Node::Regular(r) => r.data.unwrap_or_default(),
            cst::Node::Comment(_) => "<comment node>".to_string(),
        }
    })
    .map_err(panic_text)
}

/// Warnings of the PL reader by kind: "real constant too big", junk after the value, anything else.
#[derive(Clone, Copy, Default)]
struct Warn {
    toobig: u32,
    junk: u32,
    other: u32,
}

impl Warn {
    fn any(&self) -> bool {
        self.toobig + self.junk + self.other > 0
    }
}

/// The PL reader on `(DESIGNUNITS <data>)`: value and the warnings reported.
fn read_back(data: &str) -> Result<(i32, Warn), String> {
    use tfm::pl::ParseWarningKind as K;
    let src = format!("(DESIGNUNITS {data})\n");
    let r = catch(|| Ast::from_pl_source_code(&src)).map_err(panic_text)?;
    let (ast, warnings) = r;
    let mut w = Warn::default();
    for x in &warnings {
        match x.kind {
            K::DecimalNumberIsTooBig => w.toobig += 1,
            K::JunkAfterPropertyValue { .. } | K::JunkInsidePropertyList { .. } => w.junk += 1,
            _ => w.other += 1,
        }
    }
    match ast.0.as_slice() {
        [Root::DesignUnits(sv)] => Ok((sv.data.0, w)),
        _ => Err(format!("harness: unexpected AST for {src:?}")),
    }
}

// ------------------------------------------------------------------------------------------
// c17-table: the print events from which the sweep's table is built
// ------------------------------------------------------------------------------------------

fn print_event(out: &mut Out, v: i32) {
    if v & 0x3FF == 0 || v & 0xF_FFFF <= 1 {
        watch::call(|| format!("{{\"fn\":\"print\",\"v\":{v},\"near\":1}}"));
    }
    match display(v) {
        Ok(s) => {
            let mut line = String::with_capacity(96);
            write!(line, "{{\"fn\":\"print\",\"v\":{v},\"s\":[").unwrap();
            for (i, b) in s.bytes().enumerate() {
                if i > 0 {
                    line.push(',');
                }
                write!(line, "{b}").unwrap();
            }
            line.push_str("]}");
            out.raw(&line);
        }
        Err(p) => out.line(&json!({"fn":"print","v":v,"panic":p})),
    }
}

/// Fractions (offset + i*stride) mod 2^20, i < 2^20/stride; stride = 1 is all of them.
fn table_fractions(stride: u32, offset: u32) -> Vec<u32> {
    let n = (1u32 << 20) / stride;
    (0..n).map(|i| (offset.wrapping_add(i.wrapping_mul(stride))) & 0xF_FFFF).collect()
}

pub fn table(args: &Args) -> i32 {
    quiet_panics();
    watch::start(args.str("out"), args.num("hang_s", 20.0));
    let stride: u32 = args.num("stride", 64);
    let offset: u32 = args.num("offset", 0);
    let mut out = Out::new(args.str("out"));
    // (integer part, f > 0): all 4096 x 2
    for a in 0u32..4096 {
        for b in 0u32..2 {
            print_event(&mut out, ((a << 20) | b) as i32);
        }
    }
    // (sign, fraction): integer parts 0 and -1
    for f in table_fractions(stride, offset) {
        if f > 1 {
            print_event(&mut out, f as i32);
            print_event(&mut out, ((0xFFFu32 << 20) | f) as i32);
        }
    }
    0
}

// ------------------------------------------------------------------------------------------
// c17-fix: PL writer / reader events
// ------------------------------------------------------------------------------------------

fn interesting_patterns(rng: &mut Rng, n: usize) -> Vec<i32> {
    let mut v: Vec<i32> = vec![0, 1, -1, UNITY, -UNITY, UNITY - 1, 1 - UNITY, i32::MAX, i32::MIN, i32::MIN + 1];
    for k in 0..31 {
        for d in [-1i64, 0, 1] {
            let x = (1i64 << k) + d;
            v.push(x as i32);
            v.push((-x) as i32);
        }
    }
    for ip in [0i64, 1, 9, 10, 99, 100, 999, 1000, 2046, 2047] {
        for f in [0i64, 1, 2, 104857, 104858, 524287, 524288, 524289, 1048574, 1048575] {
            let x = ip * (UNITY as i64) + f;
            v.push(x as i32);
            v.push((-x) as i32);
        }
    }
    while v.len() < n {
        let x = match rng.below(4) {
            0 => rng.next() as u32 as i32,                                  // any pattern
            1 => rng.range(-(16 * UNITY as i64), 16 * UNITY as i64 - 1) as i32, // legal dimension
            2 => rng.range(-(UNITY as i64), UNITY as i64) as i32,           // |x| <= 1
            _ => (rng.range(-2048, 2047) * UNITY as i64 + rng.range(0, 40)) as i32,
        };
        v.push(x);
    }
    v
}

fn random_decimal(rng: &mut Rng) -> String {
    let mut s = String::from(if rng.chance(1, 2) { "R" } else { "D" });
    // blanks and signs (at most one minus sign)
    let mut minus = rng.chance(1, 2);
    for _ in 0..rng.below(4) {
        match rng.below(3) {
            0 => s.push(' '),
            1 => s.push('+'),
            _ => {
                if minus {
                    s.push('-');
                    minus = false;
                } else {
                    s.push(' ');
                }
            }
        }
    }
    if minus {
        s.push('-');
    }
    // integer digits
    match rng.below(8) {
        0 => {}
        1 => s.push_str("2047"),
        2 => s.push_str(&format!("{}", rng.range(2040, 2060))),
        3 => s.push_str(&format!("{:05}", rng.range(0, 99999))),
        _ => s.push_str(&format!("{}", rng.range(0, 2047))),
    }
    // fraction
    if rng.chance(7, 8) {
        s.push('.');
        let nd = match rng.below(6) {
            0 => 0,
            1 => rng.below(4),
            2 => 7,
            3 => 6,
            _ => rng.below(11),
        };
        let kind = rng.below(5);
        for i in 0..nd {
            let d = match kind {
                0 => 9,
                1 => 0,
                2 => {
                    if i + 1 == nd {
                        rng.below(10)
                    } else {
                        9
                    }
                }
                _ => rng.below(10),
            };
            s.push((b'0' + d as u8) as char);
        }
    }
    s
}

fn rt_event(v: i32) -> Value {
    watch::call(|| json!({"fn":"rt","v":v}).to_string());
    match lower_data(v) {
        Err(p) => json!({"fn":"rt","v":v,"panic":p}),
        Ok(data) => match read_back(&data) {
            Err(p) => json!({"fn":"rt","v":v,"s":codes(&data),"panic":p}),
            Ok((back, w)) => json!({"fn":"rt","v":v,"s":codes(&data),"back":back,"err":w.any() as u8}),
        },
    }
}

fn parse_event(data: &str) -> Value {
    watch::call(|| json!({"fn":"parse","s":codes(data)}).to_string());
    match read_back(data) {
        Err(p) => json!({"fn":"parse","s":codes(data),"panic":p}),
        Ok((back, w)) => json!({"fn":"parse","s":codes(data),"back":back,"toobig":w.toobig,"junk":w.junk,"other":w.other}),
    }
}

pub fn fix(args: &Args) -> i32 {
    quiet_panics();
    watch::start(args.str("out"), args.num("hang_s", 20.0));
    let seed: u64 = args.num("seed", 1);
    let n: usize = args.num("n", 2000);
    let nparse: usize = args.num("nparse", 2000);
    let nfile: usize = args.num("nfile", 20);
    let mut rng = Rng::new(seed ^ 0xC17F);
    let mut out = Out::new(args.str("out"));

    // rt: AST lowering, then the text through the PL reader
    for v in interesting_patterns(&mut rng, n) {
        out.line(&rt_event(v));
    }

    // parse: arbitrary decimals through the PL reader
    let mut fixed: Vec<String> = [
        "R 0", "R 0.", "R .0", "R .", "R", "R -", "R 1", "R -1", "R 2047", "R 2048", "R -2048", "R 2047.9999995",
        "R 2047.99999952", "R 2047.9999999", "R -2047.9999999", "R 2047.9999994", "R 2046.9999999", "R 0.00000047",
        "R 0.00000048", "R 0.0000005", "R 0.0000004", "R 0.5", "R .5", "R -.5", "R 0.9999999", "R 0.99999999999",
        "R 0.1234567", "R 0.12345678", "R 0.12345679", "R 0.123456789", "D 10", "D 10.0", "R +1.5", "R + 1.5", "R  - 1.5",
        "R 00001.5", "R 20470", "R 99999", "R 1.", "R 16.0", "R -16.0", "R 15.9999999", "R 0.0000009", "R 0.0000019",
        "R 0.00000095", "R 0.000001", "R 1000.0000001",
    ]
    .iter()
    .map(|s| s.to_string())
    .collect();
    while fixed.len() < nparse {
        fixed.push(random_decimal(&mut rng));
    }
    for data in fixed {
        out.line(&parse_event(&data));
    }

    // rtfile: a whole pl::File printed with File::display and read with File::from_pl_source_code
    for _ in 0..nfile {
        let mut file = tfm::pl::File::default();
        let pats = interesting_patterns(&mut rng, 400);
        let mut pick = |rng: &mut Rng| -> FixWord {
            let mut v = *rng.pick(&pats);
            if v == i32::MIN {
                v += 1
            }
            FixWord(v)
        };
        for _ in 0..(8 + rng.below(30)) {
            file.params.push(pick(&mut rng));
        }
        for c in 0..=255u8 {
            if rng.chance(1, 2) {
                continue;
            }
            let d = tfm::pl::CharDimensions {
                width: Some(pick(&mut rng)),
                height: if rng.chance(2, 3) { Some(pick(&mut rng)) } else { None },
                depth: if rng.chance(2, 3) { Some(pick(&mut rng)) } else { None },
                italic_correction: if rng.chance(1, 2) { Some(pick(&mut rng)) } else { None },
            };
            file.char_dimens.insert(Char(c), d);
        }
        watch::call(|| json!({"fn":"rtfile","v":0,"where":"a whole pl::File"}).to_string());
        let r = catch(|| {
            let text = format!("{}", file.display(3, CharDisplayFormat::Octal));
            tfm::pl::File::from_pl_source_code(&text)
        });
        match r {
            Err(p) => out.line(&json!({"fn":"rtfile","v":0,"where":"file","panic":panic_text(p)})),
            Ok((back, warnings)) => {
                let err = !warnings.is_empty() as u8;
                let mut emit = |w: &str, a: Option<FixWord>, b: Option<FixWord>| {
                    if let Some(a) = a {
                        match b {
                            Some(b) => out.line(&json!({"fn":"rtfile","v":a.0,"back":b.0,"err":err,"where":w})),
                            None => out.line(&json!({"fn":"rtfile","v":a.0,"where":w,"panic":"harness: value missing after reading the file back"})),
                        }
                    }
                };
                // (DESIGNUNITS is never written: TFtoPL output is always in units of the design size)
                for (i, p) in file.params.iter().enumerate() {
                    emit("PARAMETER", Some(*p), back.params.get(i).copied());
                }
                for (c, d) in &file.char_dimens {
                    let b = back.char_dimens.get(c).cloned().unwrap_or_default();
                    emit("CHARWD", d.width, b.width);
                    emit("CHARHT", d.height, b.height);
                    emit("CHARDP", d.depth, b.depth);
                    emit("CHARIC", d.italic_correction, b.italic_correction);
                }
            }
        }
    }
    0
}

// ------------------------------------------------------------------------------------------
// c17-scaled
// ------------------------------------------------------------------------------------------

pub fn scaled(args: &Args) -> i32 {
    quiet_panics();
    watch::start(args.str("out"), args.num("hang_s", 20.0));
    let seed: u64 = args.num("seed", 1);
    let n: usize = args.num("n", 20000);
    let mut rng = Rng::new(seed ^ 0xC175);
    let mut out = Out::new(args.str("out"));
    let lim: i64 = 1 << 24; // |v| < 16.0: the first byte is 0 or 255 (TeX 571)
    let mut vs: Vec<i64> = vec![0, 1, -1, lim - 1, -lim, -lim + 1, UNITY as i64, -(UNITY as i64)];
    for k in 0..24 {
        for d in [-1i64, 0, 1] {
            let x = (1i64 << k) + d;
            if x < lim {
                vs.push(x);
                vs.push(-x);
            }
        }
    }
    let mut dss: Vec<i64> = vec![16, 17, 31, 32, UNITY as i64, 10 * UNITY as i64, i32::MAX as i64, 5 * UNITY as i64 + 7];
    for k in 4..31 {
        for d in [-1i64, 0, 1] {
            let x = (1i64 << k) + d;
            if (16..=i32::MAX as i64).contains(&x) {
                dss.push(x);
            }
        }
    }
    let mut emit = |v: i64, ds: i64| {
        let (v, ds) = (v as i32, ds as i32);
        watch::call(|| json!({"fn":"scaled","v":v,"ds":ds}).to_string());
        match catch(|| FixWord(v).to_scaled(FixWord(ds))) {
            Ok(r) => out.line(&json!({"fn":"scaled","v":v,"ds":ds,"r":r.0})),
            Err(p) => out.line(&json!({"fn":"scaled","v":v,"ds":ds,"panic":panic_text(p)})),
        }
    };
    for &v in &vs {
        for &ds in &dss {
            emit(v, ds);
        }
    }
    for _ in 0..n {
        let v = match rng.below(4) {
            0 => rng.range(-lim, lim - 1),
            1 => rng.range(-2 * UNITY as i64, 2 * UNITY as i64),
            2 => *rng.pick(&vs),
            _ => rng.range(-lim, lim - 1) & !0xFF, // low byte zero
        };
        let ds = match rng.below(5) {
            0 => rng.range(16, i32::MAX as i64),
            1 => rng.range(UNITY as i64, 20 * UNITY as i64),
            2 => *rng.pick(&dss),
            3 => rng.range(1, 2047) * UNITY as i64,
            _ => 1i64 << rng.range(4, 30) | rng.range(0, 1 << 12),
        };
        emit(v, ds.clamp(16, i32::MAX as i64));
    }
    0
}

// ------------------------------------------------------------------------------------------
// c17-compress
// ------------------------------------------------------------------------------------------

fn compress_event(out: &mut Out, vals: &[i32], m: u8) {
    let input: Vec<FixWord> = vals.iter().map(|&v| FixWord(v)).collect();
    let sv: Vec<i32> = vals.iter().copied().collect::<BTreeSet<i32>>().into_iter().collect();
    watch::call(|| json!({"fn":"compress","vals":vals,"m":m}).to_string());
    let r = catch(|| tfm::compress(&input, m));
    watch::idle();
    match r {
        Err(p) => out.line(&json!({"fn":"compress","vals":vals,"m":m,"panic":panic_text(p)})),
        Ok((res, map)) => {
            let res: Vec<i32> = res.iter().map(|f| f.0).collect();
            let cls: Vec<u8> = sv.iter().map(|v| map.get(&FixWord(*v)).map(|i| i.get()).unwrap_or(0)).collect();
            out.line(&json!({"fn":"compress","vals":vals,"m":m,"sv":sv,"cls":cls,"res":res}));
        }
    }
}

fn gen_values(rng: &mut Rng, maxlen: usize) -> Vec<i32> {
    let len = match rng.below(4) {
        0 => rng.range(1, 20) as usize,
        1 => rng.range(1, maxlen as i64) as usize,
        2 => rng.range((maxlen as i64 / 2).max(1), maxlen as i64) as usize,
        _ => rng.range(1, 64) as usize,
    };
    let legal: i64 = 1 << 24;
    let big: i64 = 1 << 28;
    let mut v: Vec<i64> = Vec::with_capacity(len);
    match rng.below(9) {
        0 => {
            // uniform over the legal range of font dimensions
            for _ in 0..len {
                v.push(rng.range(-legal, legal - 1));
            }
        }
        1 => {
            // arithmetic progression: all gaps equal (every tolerance is a tie), optional jitter
            let step = rng.range(1, 2000);
            let jitter = rng.range(0, 2);
            let start = rng.range(-legal / 2, 0);
            for i in 0..len as i64 {
                v.push(start + i * step + rng.range(0, jitter));
            }
        }
        2 => {
            // clusters
            let k = rng.range(1, 40);
            let centres: Vec<i64> = (0..k).map(|_| rng.range(-legal / 2, legal / 2)).collect();
            let spread = 1i64 << rng.range(0, 16);
            for _ in 0..len {
                v.push(*rng.pick(&centres) + rng.range(-spread, spread));
            }
        }
        3 => {
            // small integers: many duplicates and unit gaps
            let r = rng.range(1, 400);
            let lo = rng.range(-r, 0);
            for _ in 0..len {
                v.push(rng.range(lo, lo + r));
            }
        }
        4 => {
            // geometric gaps
            let mut x = rng.range(-1000, 1000);
            for i in 0..len {
                v.push(x);
                x += 1i64 << (i % 22);
                if x >= big {
                    x = rng.range(-1000, 1000)
                }
            }
        }
        5 => {
            // typical heights/depths: multiples of a design unit with some noise, non-negative
            let unit = rng.range(1, 5000);
            for _ in 0..len {
                v.push(rng.range(0, 700) * unit + if rng.chance(1, 4) { rng.range(-2, 2) } else { 0 });
            }
        }
        6 => {
            // wide range including values beyond 16.0
            for _ in 0..len {
                v.push(rng.range(-big, big));
            }
        }
        7 => {
            // two scales: fine structure inside coarse groups, gaps adversarially close
            let groups = rng.range(2, 30);
            let coarse = rng.range(1000, 100000);
            for _ in 0..len {
                let g = rng.range(0, groups);
                v.push(g * coarse + rng.range(0, 3) * (coarse / 7) + rng.range(0, 1));
            }
        }
        _ => {
            // odd / even tolerance boundaries: pairs at distance d and d+1
            let d = rng.range(1, 50);
            let mut x = rng.range(-5000, 0);
            for i in 0..len {
                v.push(x);
                x += if i % 2 == 0 { d + rng.range(0, 1) } else { 3 * d + rng.range(0, 2) };
            }
        }
    }
    let mut v: Vec<i32> = v.into_iter().map(|x| x.clamp(-big, big) as i32).collect();
    // shuffle, and repeat some values (the input is a multiset in arbitrary order)
    for i in (1..v.len()).rev() {
        let j = rng.below(i as u64 + 1) as usize;
        v.swap(i, j);
    }
    if rng.chance(1, 2) && v.len() > 1 {
        let k = rng.below(v.len() as u64 / 2 + 1) as usize;
        for i in 0..k {
            let j = rng.below(v.len() as u64) as usize;
            v[i] = v[j];
        }
    }
    v
}

/// Values over the whole 32-bit range (spans of 2048.0 and more, sums beyond 2^31): TLC's integers are 32 bits,
/// so these events are recorded in a coarser unit.  Every value is a multiple of 32; then every gap and
/// tolerance is one too and every class midpoint is a multiple of 16, and the event divided by 16 is an
/// ordinary compress event with the same partition (the contract is invariant under this change of unit).
fn compress_event_wide(out: &mut Out, ks: &[i32], m: u8) {
    let vals: Vec<i32> = ks.iter().map(|k| k.wrapping_mul(32)).collect();
    let input: Vec<FixWord> = vals.iter().map(|&v| FixWord(v)).collect();
    let scaled: Vec<i32> = vals.iter().map(|v| v / 16).collect();
    let sv: Vec<i32> = scaled.iter().copied().collect::<BTreeSet<i32>>().into_iter().collect();
    watch::call(|| json!({"fn":"compress","vals":vals,"m":m}).to_string());
    let r = catch(|| tfm::compress(&input, m));
    watch::idle();
    match r {
        Err(p) => out.line(&json!({"fn":"compress","vals":scaled,"m":m,"unit":16,"panic":panic_text(p)})),
        Ok((res, map)) => {
            if res.iter().any(|f| f.0 % 16 != 0) {
                out.line(&json!({"fn":"compress","vals":scaled,"m":m,"unit":16,
                    "panic":format!("a representative is not a class midpoint (not a multiple of 16): {:?}", res.iter().map(|f| f.0).collect::<Vec<_>>())}));
                return;
            }
            let res: Vec<i32> = res.iter().map(|f| f.0 / 16).collect();
            let cls: Vec<u8> = sv.iter().map(|v| map.get(&FixWord(v.wrapping_mul(16))).map(|i| i.get()).unwrap_or(0)).collect();
            out.line(&json!({"fn":"compress","vals":scaled,"m":m,"unit":16,"sv":sv,"cls":cls,"res":res}));
        }
    }
}

pub fn compress(args: &Args) -> i32 {
    quiet_panics();
    watch::start(args.str("out"), args.num("hang_s", 20.0));
    let seed: u64 = args.num("seed", 1);
    let n: usize = args.num("n", 1000);
    let maxlen: usize = args.num("maxlen", 300);
    let small: u32 = args.num("small", 8);
    let mut rng = Rng::new(seed ^ 0xC17C);
    let mut out = Out::new(args.str("out"));
    // the repository's own unit tests (they must be accepted: they validate the specification)
    let one = UNITY;
    for (vals, m) in [
        (vec![], 1u8),
        (vec![2 * one, one], 2),
        (vec![one, one], 1),
        (vec![one, 2 * one], 1),
        (vec![one, 2 * one, 200 * one, 201 * one], 2),
        (vec![1, 3], 1),
        (vec![0, 2], 1),
        (vec![1, 4], 1),
        (vec![1, 2], 1),
    ] {
        compress_event(&mut out, &vals, m);
    }
    // exhaustive: every non-empty subset of {-3..small-4} scaled by 1 and by 3, every limit
    for scale in [1i32, 3] {
        for mask in 1u32..(1u32 << small) {
            let vals: Vec<i32> = (0..small).filter(|b| mask >> b & 1 == 1).map(|b| (b as i32 - 3) * scale).collect();
            for m in 1..=(vals.len() as u8) {
                compress_event(&mut out, &vals, m);
            }
        }
    }
    // generated multisets
    for i in 0..n {
        let vals = gen_values(&mut rng, maxlen);
        let m: u8 = match i % 5 {
            0 => 15,
            1 => 63,
            2 => 255,
            3 => rng.range(1, 255) as u8,
            _ => {
                // a limit close to the number of distinct values, or very small
                let d = vals.iter().collect::<BTreeSet<_>>().len() as i64;
                if rng.chance(1, 2) {
                    (d - rng.range(1, 4)).clamp(1, 255) as u8
                } else {
                    rng.range(1, 4) as u8
                }
            }
        };
        compress_event(&mut out, &vals, m);
        // one multiset in eight also over the whole range of a fix word, with very small class limits
        if i % 8 == 0 {
            let len = rng.range(2, 24) as usize;
            let half: i64 = 1 << 26; // 32 * 2^26 = 2^31
            let ks: Vec<i32> = (0..len)
                .map(|_| match rng.below(4) {
                    0 => rng.range(-half, half - 1),
                    1 => *rng.pick(&[-half, half - 1, -half + 1, half - 2, 0]),
                    2 => rng.range(half - 4000, half - 1),
                    _ => rng.range(-half, -half + 4000),
                } as i32)
                .collect();
            let m = *rng.pick(&[1u8, 1, 2, 3, 15]);
            compress_event_wide(&mut out, &ks, m);
        }
    }
    0
}

// ------------------------------------------------------------------------------------------
// c17-nl
// ------------------------------------------------------------------------------------------

fn nl_event(out: &mut Out, edges: &[(u8, u8)], absent: &BTreeSet<u8>, drop: bool, probe: &[u8]) {
    watch::call(|| {
        let e: Vec<[u8; 2]> = edges.iter().map(|&(a, b)| [a, b]).collect();
        let a: Vec<u8> = absent.iter().copied().collect();
        json!({"fn":"nl","edges":e,"absent":a,"drop":drop as u8,"probe":probe}).to_string()
    });
    let r = catch(|| {
        let (prog, warnings) = NextLargerProgram::new(
            edges.iter().map(|&(a, b)| (Char(a), Char(b))),
            |c| !absent.contains(&c.0),
            drop,
        );
        let chains: Vec<Vec<u8>> = probe
            .iter()
            .map(|&c| prog.get(Char(c)).take(1000).map(|c| c.0).collect())
            .collect();
        (chains, warnings)
    });
    watch::idle();
    let edges_j: Vec<[u8; 2]> = edges.iter().map(|&(a, b)| [a, b]).collect();
    let absent_j: Vec<u8> = absent.iter().copied().collect();
    match r {
        Err(p) => out.line(&json!({"fn":"nl","edges":edges_j,"absent":absent_j,"drop":drop as u8,"panic":panic_text(p)})),
        Ok((chains, warnings)) => {
            let mut loops: Vec<[u8; 2]> = vec![];
            let mut nonex: Vec<[u8; 2]> = vec![];
            for w in warnings {
                match w {
                    NextLargerProgramWarning::InfiniteLoop { original, next_larger } => loops.push([original.0, next_larger.0]),
                    NextLargerProgramWarning::NonExistentCharacter { original, next_larger } => nonex.push([original.0, next_larger.0]),
                }
            }
            out.line(&json!({"fn":"nl","edges":edges_j,"absent":absent_j,"drop":drop as u8,"probe":probe,
                             "chains":chains,"loops":loops,"nonex":nonex}));
        }
    }
}

/// The same links through the two pipelines that use the program: a tfm::File validated the way
/// TFtoPL does (`validate_and_fix`, links to missing characters dropped) and a PL source read the
/// way PLtoTF does (`pl::File::from_pl_source_code`, missing characters created).  Observed: the
/// list tags that remain.
fn nltags_event(out: &mut Out, path: &str, edges: &[(u8, u8)], absent: &BTreeSet<u8>) {
    let edges_j: Vec<[u8; 2]> = edges.iter().map(|&(a, b)| [a, b]).collect();
    let absent_j: Vec<u8> = absent.iter().copied().collect();
    watch::call(|| json!({"fn":"nltags","path":path,"edges":edges_j,"absent":absent_j}).to_string());
    let present: BTreeSet<u8> = edges.iter().flat_map(|&(a, b)| [a, b]).filter(|c| !absent.contains(c)).collect();
    let r = catch(|| {
        if path == "tfm" {
            let mut file = tfm::File::default();
            file.widths = vec![FixWord::ZERO, FixWord::ONE];
            file.smallest_char = Char(present.iter().next().copied().unwrap_or(1));
            for &c in &present {
                file.char_dimens.insert(
                    Char(c),
                    tfm::CharDimensions {
                        width_index: tfm::WidthIndex::Valid(1.try_into().unwrap()),
                        height_index: 0,
                        depth_index: 0,
                        italic_index: 0,
                    },
                );
            }
            for &(a, b) in edges {
                file.char_tags.insert(Char(a), tfm::CharTag::List(Char(b)));
            }
            let _ = file.validate_and_fix();
            file.char_tags.iter().filter_map(|(c, t)| t.list().map(|n| [c.0, n.0])).collect::<Vec<[u8; 2]>>()
        } else {
            let links: std::collections::BTreeMap<u8, u8> = edges.iter().copied().collect();
            let mut text = String::new();
            for &c in &present {
                write!(text, "(CHARACTER O {c:o} (CHARWD R 1.0)").unwrap();
                if let Some(n) = links.get(&c) {
                    write!(text, " (NEXTLARGER O {n:o})").unwrap();
                }
                text.push_str(")\n");
            }
            let (file, _) = tfm::pl::File::from_pl_source_code(&text);
            file.char_tags.iter().filter_map(|(c, t)| t.list().map(|n| [c.0, n.0])).collect::<Vec<[u8; 2]>>()
        }
    });
    watch::idle();
    match r {
        Ok(tags) => out.line(&json!({"fn":"nltags","path":path,"edges":edges_j,"absent":absent_j,"tags":tags})),
        Err(p) => out.line(&json!({"fn":"nltags","path":path,"edges":edges_j,"absent":absent_j,"panic":panic_text(p)})),
    }
}

pub fn nl(args: &Args) -> i32 {
    quiet_panics();
    watch::start(args.str("out"), args.num("hang_s", 20.0));
    let seed: u64 = args.num("seed", 1);
    let k: usize = args.num("k", 5);
    let ka: usize = args.num("ka", 4);
    let n: usize = args.num("n", 100);
    let mut rng = Rng::new(seed ^ 0xC171);
    let mut out = Out::new(args.str("out"));
    let none = BTreeSet::new();

    // every functional graph on k characters, under two order-preserving embeddings into 0..255
    let spread: Vec<u8> = vec![7, 65, 127, 128, 200, 254, 255];
    for emb in 0..2 {
        let chars: Vec<u8> = if emb == 0 { (0..k as u8).collect() } else { spread[spread.len() - k..].to_vec() };
        let mut probe = chars.clone();
        probe.push(if emb == 0 { 9 } else { 0 });
        let total = (k as u64 + 1).pow(k as u32);
        for code in 0..total {
            let mut c = code;
            let mut edges = vec![];
            for i in 0..k {
                let t = (c % (k as u64 + 1)) as usize;
                c /= k as u64 + 1;
                if t > 0 {
                    edges.push((chars[i], chars[t - 1]));
                }
            }
            if (code + emb as u64) % 3 == 0 {
                edges.reverse();
            }
            nl_event(&mut out, &edges, &none, true, &probe);
            if !edges.is_empty() && code % 5 == emb as u64 {
                nltags_event(&mut out, if code % 2 == 0 { "tfm" } else { "pl" }, &edges, &none);
            }
        }
    }
    // non-existent characters: every functional graph on ka characters, every set of absent
    // characters among those without a link of their own, both modes
    {
        let chars: Vec<u8> = (0..ka as u8).map(|i| 10 * i + 3).collect();
        let mut probe = chars.clone();
        probe.push(0);
        let total = (ka as u64 + 1).pow(ka as u32);
        for code in 0..total {
            let mut c = code;
            let mut edges = vec![];
            let mut has_link = vec![false; ka];
            for i in 0..ka {
                let t = (c % (ka as u64 + 1)) as usize;
                c /= ka as u64 + 1;
                if t > 0 {
                    edges.push((chars[i], chars[t - 1]));
                    has_link[i] = true;
                }
            }
            let free: Vec<u8> = (0..ka).filter(|&i| !has_link[i]).map(|i| chars[i]).collect();
            for mask in 1u32..(1 << free.len()) {
                let absent: BTreeSet<u8> = free.iter().enumerate().filter(|(i, _)| mask >> i & 1 == 1).map(|(_, &c)| c).collect();
                for drop in [false, true] {
                    nl_event(&mut out, &edges, &absent, drop, &probe);
                }
                if (code + mask as u64) % 4 == 0 {
                    nltags_event(&mut out, "tfm", &edges, &absent);
                    nltags_event(&mut out, "pl", &edges, &absent);
                }
            }
        }
    }
    // the repository's pinned example: one cycle through all 256 characters
    let all: Vec<u8> = (0..=255).collect();
    let ring: Vec<(u8, u8)> = (0..=255u8).map(|u| (u, u.wrapping_add(1))).collect();
    nl_event(&mut out, &ring, &none, true, &all);
    // the largest fan-in the format allows: every character (the hub included, or all but the hub) names one hub;
    // two hubs sharing the characters; a hub that hangs below a second one
    for hub in [0u8, 77, 255] {
        let star: Vec<(u8, u8)> = (0..=255u8).map(|u| (u, hub)).collect();
        nl_event(&mut out, &star, &none, true, &all);
        let mut rev = star.clone();
        rev.reverse();
        nl_event(&mut out, &rev, &none, true, &all);
        let open_star: Vec<(u8, u8)> = (0..=255u8).filter(|&u| u != hub).map(|u| (u, hub)).collect();
        nl_event(&mut out, &open_star, &none, true, &all);
        let two: Vec<(u8, u8)> = (0..=255u8).map(|u| (u, if u % 2 == 0 { hub } else { hub ^ 1 })).collect();
        nl_event(&mut out, &two, &none, true, &all);
        let hang: Vec<(u8, u8)> = (0..=255u8).filter(|&u| u != (hub ^ 1)).map(|u| (u, if u == hub { hub ^ 1 } else { hub })).collect();
        nl_event(&mut out, &hang, &none, true, &all);
        nltags_event(&mut out, "tfm", &star, &none);
        nltags_event(&mut out, "pl", &open_star, &none);
    }
    // random functional graphs on up to 256 characters
    for i in 0..n {
        let density = [30u64, 70, 100][i % 3];
        let shape = rng.below(5);
        let mut edges: Vec<(u8, u8)> = vec![];
        let perm: Vec<u8> = {
            let mut p: Vec<u8> = (0..=255).collect();
            for i in (1..256).rev() {
                let j = rng.below(i as u64 + 1) as usize;
                p.swap(i, j);
            }
            p
        };
        for c in 0..=255u8 {
            if !rng.chance(density, 100) {
                continue;
            }
            let t = match shape {
                0 => rng.below(256) as u8,                       // random mapping: rho shapes
                1 => perm[c as usize],                           // permutation: disjoint cycles only
                2 => c.wrapping_add(rng.range(1, 3) as u8),      // mostly increasing, wraps into cycles
                3 => (c / 8) * 8 + rng.below(8) as u8,           // many small components
                _ => {
                    if rng.chance(1, 10) {
                        c
                    } else {
                        rng.below(256) as u8
                    }
                } // self loops
            };
            edges.push((c, t));
        }
        for i in (1..edges.len()).rev() {
            let j = rng.below(i as u64 + 1) as usize;
            edges.swap(i, j);
        }
        let mut absent = BTreeSet::new();
        if i % 4 == 3 {
            let linked: BTreeSet<u8> = edges.iter().map(|e| e.0).collect();
            for c in 0..=255u8 {
                if !linked.contains(&c) && rng.chance(1, 3) {
                    absent.insert(c);
                }
            }
        }
        nl_event(&mut out, &edges, &absent, i % 8 != 7, &all);
        nltags_event(&mut out, if i % 2 == 0 { "tfm" } else { "pl" }, &edges, &absent);
    }
    0
}

// ------------------------------------------------------------------------------------------
// c17-sweep: integer parts x fractions against the TLC-validated table
// ------------------------------------------------------------------------------------------

#[derive(Clone, Copy, Default)]
struct Short {
    len: u8,
    b: [u8; 8],
}

impl Short {
    fn new(s: &[u8]) -> Option<Short> {
        if s.is_empty() || s.len() > 8 {
            return None;
        }
        let mut b = [0u8; 8];
        b[..s.len()].copy_from_slice(s);
        Some(Short { len: s.len() as u8, b })
    }
    fn bytes(&self) -> &[u8] {
        &self.b[..self.len as usize]
    }
}

struct Table {
    prefix: Vec<[Short; 2]>, // [integer part bits][f > 0]: text up to and including '.'
    pos: Vec<Short>,         // [low 20 bits]: fraction digits of a non-negative pattern
    neg: Vec<Short>,         // [low 20 bits]: fraction digits of a negative pattern
    fracs: Vec<u32>,         // fractions for which both pos and neg are known
}

fn load_table(path: &str) -> Result<Table, String> {
    use std::io::BufRead;
    let mut t = Table {
        prefix: vec![[Short::default(); 2]; 4096],
        pos: vec![Short::default(); 1 << 20],
        neg: vec![Short::default(); 1 << 20],
        fracs: vec![],
    };
    let f = std::fs::File::open(path).map_err(|e| format!("{path}: {e}"))?;
    for line in std::io::BufReader::new(f).lines() {
        let line = line.map_err(|e| e.to_string())?;
        let e: Value = serde_json::from_str(&line).map_err(|e| e.to_string())?;
        if e["fn"] != "print" || e.get("panic").is_some() {
            continue;
        }
        let v = e["v"].as_i64().ok_or("v")? as i32 as u32;
        let s: Vec<u8> = e["s"].as_array().ok_or("s")?.iter().map(|x| x.as_u64().unwrap_or(0) as u8).collect();
        let dot = s.iter().position(|&c| c == b'.').ok_or("no decimal point in table entry")?;
        let (a, f) = ((v >> 20) as usize, (v & 0xF_FFFF) as usize);
        let pre = Short::new(&s[..=dot]).ok_or("prefix length")?;
        let suf = Short::new(&s[dot + 1..]).ok_or("suffix length")?;
        if f <= 1 {
            t.prefix[a][f] = pre;
        }
        if a == 0 {
            t.pos[f] = suf;
        }
        if a == 0xFFF {
            t.neg[f] = suf;
        }
    }
    for a in 0..4096 {
        if t.prefix[a][0].len == 0 || t.prefix[a][1].len == 0 {
            return Err(format!("table has no entry for integer part bits {a}"));
        }
    }
    for f in 0..(1u32 << 20) {
        if t.pos[f as usize].len > 0 && t.neg[f as usize].len > 0 {
            t.fracs.push(f);
        }
    }
    Ok(t)
}

pub fn sweep(args: &Args) -> i32 {
    quiet_panics();
    let path = args.req("table");
    let threads: usize = args.num("threads", 8);
    let budget: f64 = args.num("budget_s", 600.0);
    let max_units: usize = args.num("units", usize::MAX);
    let mult: u32 = args.num("mult", 0x9E37_79B1u32);
    let mut out = Out::new(args.str("out"));
    let t = match load_table(path) {
        Ok(t) => t,
        Err(e) => {
            eprintln!("cannot load the table: {e}");
            return 2;
        }
    };
    let mut t = t;
    // deterministic scramble of the order in which fractions are visited
    t.fracs.sort_by_key(|f| f.wrapping_mul(mult) & 0xF_FFFF);
    let nf = t.fracs.len();
    let units = nf.min(max_units);
    let start = std::time::Instant::now();
    let t = &t;
    // unit u = the fraction t.fracs[u] under all 4096 integer parts
    let results: Vec<(u64, u64, Vec<Value>)> = std::thread::scope(|s| {
        let hs: Vec<_> = (0..threads)
            .map(|tid| {
                s.spawn(move || {
                    let mut done_units = 0u64;
                    let mut checked = 0u64;
                    let mut bad: Vec<Value> = vec![];
                    let mut text = String::with_capacity(4096 * 32);
                    let mut shown: Vec<(usize, usize)> = Vec::with_capacity(4096);
                    let mut u = tid;
                    while u < units {
                        if start.elapsed().as_secs_f64() > budget {
                            break;
                        }
                        let f = t.fracs[u];
                        text.clear();
                        shown.clear();
                        let r = catch(|| {
                            for a in 0u32..4096 {
                                let v = ((a << 20) | f) as i32;
                                text.push_str("(DESIGNUNITS R ");
                                let b = text.len();
                                write!(text, "{}", FixWord(v)).unwrap();
                                shown.push((b, text.len()));
                                text.push_str(")\n");
                            }
                            Ast::from_pl_source_code(&text)
                        });
                        match r {
                            Err(p) => bad.push(json!({"kind":"panic","f":f,"panic":panic_text(p)})),
                            Ok((ast, warnings)) => {
                                if ast.0.len() != 4096 {
                                    bad.push(json!({"kind":"ast-shape","f":f,"roots":ast.0.len()}));
                                }
                                // every pattern except "80000000 must read back without any warning
                                let expect_warn = f == 0;
                                if warnings.is_empty() == expect_warn && bad.len() < 20 {
                                    bad.push(json!({"kind":"warnings","f":f,"n":warnings.len()}));
                                }
                                for (a, root) in ast.0.iter().enumerate() {
                                    let v = (((a as u32) << 20) | f) as i32;
                                    let (b, e) = shown[a];
                                    let got = &text.as_bytes()[b..e];
                                    let pre = t.prefix[a][(f != 0) as usize];
                                    let suf = if a >= 2048 { t.neg[f as usize] } else { t.pos[f as usize] };
                                    let ok_text = got.len() == pre.bytes().len() + suf.bytes().len()
                                        && got.starts_with(pre.bytes())
                                        && got.ends_with(suf.bytes());
                                    if !ok_text && bad.len() < 20 {
                                        bad.push(json!({"kind":"display","v":v,"got":String::from_utf8_lossy(got),
                                            "table":format!("{}{}", String::from_utf8_lossy(pre.bytes()), String::from_utf8_lossy(suf.bytes()))}));
                                    }
                                    let back = match root {
                                        Root::DesignUnits(sv) => Some(sv.data.0),
                                        _ => None,
                                    };
                                    if v != i32::MIN && back != Some(v) && bad.len() < 20 {
                                        bad.push(json!({"kind":"readback","v":v,"text":String::from_utf8_lossy(got),"back":back}));
                                    }
                                    checked += 1;
                                }
                            }
                        }
                        done_units += 1;
                        u += threads;
                    }
                    (done_units, checked, bad)
                })
            })
            .collect();
        hs.into_iter().map(|h| h.join().unwrap()).collect()
    });
    let mut done = 0;
    let mut checked = 0;
    for (d, c, bad) in results {
        done += d;
        checked += c;
        for b in bad {
            out.line(&json!({"kind":"violation","detail":b}));
        }
    }
    out.line(&json!({"kind":"summary","table_fractions":nf,"units_requested":units,"units_done":done,
        "patterns_checked":checked,"integer_parts":4096,"threads":threads,"wall_s":start.elapsed().as_secs_f64()}));
    0
}

// ------------------------------------------------------------------------------------------
// c17-one: replay
// ------------------------------------------------------------------------------------------

pub fn one(args: &Args) -> i32 {
    quiet_panics();
    watch::start(args.str("out"), args.num("hang_s", 20.0));
    let text = std::fs::read_to_string(args.req("in")).expect("read event");
    let e: Value = serde_json::from_str(&text).expect("event json");
    let mut out = Out::new(args.str("out"));
    let int = |k: &str| e[k].as_i64().unwrap_or(0);
    let bytes = |k: &str| -> Vec<u8> {
        e[k].as_array().map(|a| a.iter().map(|x| x.as_u64().unwrap_or(0) as u8).collect()).unwrap_or_default()
    };
    match e["fn"].as_str().unwrap_or("") {
        "print" => print_event(&mut out, int("v") as i32),
        "rt" | "rtfile" => out.line(&rt_event(int("v") as i32)),
        "parse" => out.line(&parse_event(&String::from_utf8_lossy(&bytes("s")))),
        "scaled" => {
            let (v, ds) = (int("v") as i32, int("ds") as i32);
            match catch(|| FixWord(v).to_scaled(FixWord(ds))) {
                Ok(r) => out.line(&json!({"fn":"scaled","v":v,"ds":ds,"r":r.0})),
                Err(p) => out.line(&json!({"fn":"scaled","v":v,"ds":ds,"panic":panic_text(p)})),
            }
        }
        "compress" => {
            let vals: Vec<i32> = e["vals"].as_array().map(|a| a.iter().map(|x| x.as_i64().unwrap_or(0) as i32).collect()).unwrap_or_default();
            compress_event(&mut out, &vals, int("m") as u8);
        }
        "nltags" => {
            let edges: Vec<(u8, u8)> = e["edges"]
                .as_array()
                .map(|a| a.iter().map(|p| (p[0].as_u64().unwrap_or(0) as u8, p[1].as_u64().unwrap_or(0) as u8)).collect())
                .unwrap_or_default();
            let absent: BTreeSet<u8> = bytes("absent").into_iter().collect();
            nltags_event(&mut out, e["path"].as_str().unwrap_or("tfm"), &edges, &absent);
        }
        "nl" => {
            let edges: Vec<(u8, u8)> = e["edges"]
                .as_array()
                .map(|a| a.iter().map(|p| (p[0].as_u64().unwrap_or(0) as u8, p[1].as_u64().unwrap_or(0) as u8)).collect())
                .unwrap_or_default();
            let absent: BTreeSet<u8> = bytes("absent").into_iter().collect();
            let mut probe = bytes("probe");
            if probe.is_empty() {
                probe = (0..=255).collect();
            }
            nl_event(&mut out, &edges, &absent, int("drop") == 1, &probe);
        }
        other => {
            eprintln!("cannot replay an event of kind {other:?}");
            return 2;
        }
    }
    0
}
