use std::collections::HashMap;
use std::io::Write;

pub struct Args {
    pub cmd: String,
    pub kv: HashMap<String, String>,
}

impl Args {
    pub fn parse() -> Args {
        let mut it = std::env::args().skip(1);
        let cmd = it.next().unwrap_or_default();
        let mut kv = HashMap::new();
        for a in it {
            match a.split_once('=') {
                Some((k, v)) => {
                    kv.insert(k.to_string(), v.to_string());
                }
                None => {
                    kv.insert(a, "1".to_string());
                }
            }
        }
        Args { cmd, kv }
    }
    pub fn str(&self, k: &str) -> Option<&str> {
        self.kv.get(k).map(|s| s.as_str())
    }
    pub fn req(&self, k: &str) -> &str {
        match self.kv.get(k) {
            Some(s) => s,
            None => {
                eprintln!("missing argument {k}=...");
                std::process::exit(2)
            }
        }
    }
    pub fn num<T: std::str::FromStr>(&self, k: &str, default: T) -> T {
        match self.kv.get(k) {
            Some(s) => s.parse().unwrap_or_else(|_| {
                eprintln!("bad number for {k}");
                std::process::exit(2)
            }),
            None => default,
        }
    }
}

/// Buffered ndjson writer to a file or stdout.
pub struct Out {
    w: Box<dyn Write + Send>,
    pub lines: u64,
}

impl Out {
    pub fn new(path: Option<&str>) -> Out {
        let w: Box<dyn Write + Send> = match path {
            Some(p) => Box::new(std::io::BufWriter::with_capacity(
                1 << 20,
                std::fs::File::create(p).expect("create output"),
            )),
            None => Box::new(std::io::BufWriter::new(std::io::stdout())),
        };
        Out { w, lines: 0 }
    }
    pub fn line(&mut self, v: &serde_json::Value) {
        serde_json::to_writer(&mut self.w, v).unwrap();
        self.w.write_all(b"\n").unwrap();
        self.lines += 1;
    }
    pub fn raw(&mut self, s: &str) {
        self.w.write_all(s.as_bytes()).unwrap();
        self.w.write_all(b"\n").unwrap();
        self.lines += 1;
    }
    pub fn flush(&mut self) {
        self.w.flush().unwrap();
    }
}

impl Drop for Out {
    fn drop(&mut self) {
        let _ = self.w.flush();
    }
}

thread_local! {
    static LAST_PANIC: std::cell::RefCell<Option<(String, String)>> = const { std::cell::RefCell::new(None) };
}

/// Install a panic hook that records (file, message) per thread and prints nothing.
pub fn quiet_panics() {
    std::panic::set_hook(Box::new(|info| {
        let site = info
            .location()
            .map(|l| {
                let f = l.file();
                // keep the path relative to the repository so that keys are stable
                match f.find("crates/") {
                    Some(i) => f[i..].to_string(),
                    None => f.to_string(),
                }
            })
            .unwrap_or_default();
        let msg = if let Some(s) = info.payload().downcast_ref::<&str>() {
            s.to_string()
        } else if let Some(s) = info.payload().downcast_ref::<String>() {
            s.clone()
        } else {
            "<non-string panic payload>".to_string()
        };
        // a panic outside every bracketed call ends the harness (exit code 101); the driver tells a panic of the
        // code under test (a violation: the harness was not prepared for it) from one of the harness itself
        if IN_CALL.with(|d| d.get()) == 0 {
            eprintln!("VH-UNCAUGHT-PANIC at {site}:{}: {msg}", info.location().map(|l| l.line()).unwrap_or(0));
        }
        if std::env::var("VH_LOUD").is_ok() {
            eprintln!("PANIC at {site}:{}: {msg}", info.location().map(|l| l.line()).unwrap_or(0));
        }
        LAST_PANIC.with(|p| *p.borrow_mut() = Some((site, msg)));
    }));
}

/// Run `f`, turning a panic of the code under test into data: Err((source file, message)).
// A call of the code under test that does not return is data, like a panic.  Every call made through `catch`
// is counted in and out; a watchdog thread (started by main) ends the process with exit code 3 and a line
// "VH-HANG ..." on stderr when calls are in flight and none has started or ended for VH_CALL_LIMIT_S seconds
// (default 600: the slowest legitimate single call, a lig/kern table at the capacity of the format, takes about a
// minute on a loaded machine).  The driver reports it as a violation with the command line as replay.
static CALLS_ACTIVE: std::sync::atomic::AtomicU64 = std::sync::atomic::AtomicU64::new(0);
static CALLS_MADE: std::sync::atomic::AtomicU64 = std::sync::atomic::AtomicU64::new(0);
static LAST_CALL_EVENT_MS: std::sync::atomic::AtomicU64 = std::sync::atomic::AtomicU64::new(0);

fn now_ms() -> u64 {
    static START: std::sync::OnceLock<std::time::Instant> = std::sync::OnceLock::new();
    START.get_or_init(std::time::Instant::now).elapsed().as_millis() as u64
}

pub fn start_call_watchdog() {
    use std::sync::atomic::Ordering::SeqCst;
    let limit_s: u64 = std::env::var("VH_CALL_LIMIT_S").ok().and_then(|v| v.parse().ok()).unwrap_or(600);
    let _ = now_ms();
    std::thread::spawn(move || loop {
        std::thread::sleep(std::time::Duration::from_millis(500));
        let active = CALLS_ACTIVE.load(SeqCst);
        let last = LAST_CALL_EVENT_MS.load(SeqCst);
        if active > 0 && now_ms().saturating_sub(last) > limit_s * 1000 {
            eprintln!(
                "VH-HANG {} call(s) of the code under test in flight, none returned for {} s; calls made so far: {}",
                active,
                limit_s,
                CALLS_MADE.load(SeqCst)
            );
            std::process::exit(3);
        }
    });
}

thread_local! {
    static IN_CALL: std::cell::Cell<u32> = const { std::cell::Cell::new(0) };
}

pub fn call_begin() {
    use std::sync::atomic::Ordering::SeqCst;
    IN_CALL.with(|d| d.set(d.get() + 1));
    CALLS_MADE.fetch_add(1, SeqCst);
    LAST_CALL_EVENT_MS.store(now_ms(), SeqCst);
    CALLS_ACTIVE.fetch_add(1, SeqCst);
}

pub fn call_end() {
    use std::sync::atomic::Ordering::SeqCst;
    IN_CALL.with(|d| d.set(d.get().saturating_sub(1)));
    CALLS_ACTIVE.fetch_sub(1, SeqCst);
    LAST_CALL_EVENT_MS.store(now_ms(), SeqCst);
}

pub fn catch<T>(f: impl FnOnce() -> T) -> Result<T, (String, String)> {
    LAST_PANIC.with(|p| *p.borrow_mut() = None);
    call_begin();
    let r = std::panic::catch_unwind(std::panic::AssertUnwindSafe(f));
    call_end();
    match r {
        Ok(v) => Ok(v),
        Err(_) => Err(LAST_PANIC
            .with(|p| p.borrow_mut().take())
            .unwrap_or_else(|| ("?".into(), "?".into()))),
    }
}

/// Small deterministic generator (splitmix64) so runs depend only on VERIF_SEED.
#[derive(Clone)]
pub struct Rng(pub u64);

impl Rng {
    pub fn new(seed: u64) -> Rng {
        Rng(seed.wrapping_mul(0x9E37_79B9_7F4A_7C15) ^ 0xD1B5_4A32_D192_ED03)
    }
    pub fn next(&mut self) -> u64 {
        self.0 = self.0.wrapping_add(0x9E37_79B9_7F4A_7C15);
        let mut z = self.0;
        z = (z ^ (z >> 30)).wrapping_mul(0xBF58_476D_1CE4_E5B9);
        z = (z ^ (z >> 27)).wrapping_mul(0x94D0_49BB_1331_11EB);
        z ^ (z >> 31)
    }
    pub fn below(&mut self, n: u64) -> u64 {
        if n == 0 {
            0
        } else {
            self.next() % n
        }
    }
    pub fn range(&mut self, lo: i64, hi: i64) -> i64 {
        lo + self.below((hi - lo + 1) as u64) as i64
    }
    pub fn chance(&mut self, num: u64, den: u64) -> bool {
        self.below(den) < num
    }
    pub fn pick<'a, T>(&mut self, xs: &'a [T]) -> &'a T {
        &xs[self.below(xs.len() as u64) as usize]
    }
}

pub fn reset_last_panic() {
    LAST_PANIC.with(|p| *p.borrow_mut() = None);
}

pub fn last_panic() -> Option<(String, String)> {
    LAST_PANIC.with(|p| p.borrow_mut().take())
}
