//! C13 -- Liang hyphenation (crates/hyphenate).  Binding F.
//!
//! Every output line is one real `hyphenate::Hyphenator`: the exact API calls that configured it
//! (text arguments as code points), the lower-case map that was handed to `calculate_indices`, and
//! for each queried word the indices the iterator returned.  Nothing is interpreted here -- what the
//! indices *should* be is decided by TLC (specs/Trace_Liang.tla evaluating specs/Liang.tla).
use crate::util::{catch, quiet_panics, Args, Out, Rng};
use hyphenate::{AsciiLowerCaser, Hyphenator, LowerCaser};
use serde_json::{json, Value};
use std::collections::{BTreeSet, HashMap, HashSet};

pub fn dispatch(cmd: &str, args: &Args) -> Option<i32> {
    Some(match cmd {
        "c13-gen" => match args.str("mode").unwrap_or("random") {
            "random" => gen_random(args),
            "long" => gen_long(args),
            "small" => gen_small(args),
            "plain" => gen_plain(args),
            "replay" => replay(args),
            m => {
                eprintln!("unknown mode {m}");
                2
            }
        },
        _ => return None,
    })
}

// ------------------------------------------------------------------------------------------
// lower-case maps (the `LowerCaser` argument of calculate_indices)
// ------------------------------------------------------------------------------------------

enum Lc {
    /// the crate's own AsciiLowerCaser
    Ascii(AsciiLowerCaser),
    /// an arbitrary table, like TeX's \lccode (absent = not a letter)
    Table(HashMap<char, char>),
}

impl LowerCaser for Lc {
    fn to_lower_case(&self, c: char) -> Option<char> {
        match self {
            Lc::Ascii(a) => a.to_lower_case(c),
            Lc::Table(t) => t.get(&c).copied(),
        }
    }
}

/// An alphabet profile: the lower-case letters patterns are written in, and for each of them the
/// characters a word may use for it (itself, upper-case forms, \lccode-style aliases).
struct Profile {
    name: &'static str,
    lc: Lc,
    lower: Vec<char>,
    forms: Vec<Vec<char>>,
    /// characters that are not letters under this map
    nonletters: Vec<char>,
}

fn profile_ascii() -> Profile {
    Profile {
        name: "ascii",
        lc: Lc::Ascii(AsciiLowerCaser::default()),
        lower: vec!['a', 'b', 'c'],
        forms: vec![vec!['a', 'A'], vec!['b', 'B'], vec!['c', 'C']],
        nonletters: vec!['-', '1', ' ', '.', '\u{e9}'],
    }
}

fn profile_table() -> Profile {
    // 1-, 2-, 3- and 4-byte characters; 'x' is a lower-case looking alias of 'a' (\lccode`x=`a)
    let pairs: Vec<(char, char)> = vec![
        ('a', 'a'),
        ('A', 'a'),
        ('x', 'a'),
        ('\u{ff21}', 'a'), // fullwidth A, 3 bytes
        ('\u{e9}', '\u{e9}'),
        ('\u{c9}', '\u{e9}'),
        ('\u{1d404}', '\u{e9}'), // mathematical bold E, 4 bytes
        ('\u{3c9}', '\u{3c9}'),
        ('\u{3a9}', '\u{3c9}'),
        ('\u{2126}', '\u{3c9}'), // ohm sign, 3 bytes
    ];
    Profile {
        name: "table",
        lc: Lc::Table(pairs.iter().copied().collect()),
        lower: vec!['a', '\u{e9}', '\u{3c9}'],
        forms: vec![
            vec!['a', 'A', 'x', '\u{ff21}'],
            vec!['\u{e9}', '\u{c9}', '\u{1d404}'],
            vec!['\u{3c9}', '\u{3a9}', '\u{2126}'],
        ],
        nonletters: vec!['-', '1', ' ', 'b', 'Z'],
    }
}

// ------------------------------------------------------------------------------------------
// one Hyphenator = one event
// ------------------------------------------------------------------------------------------

#[derive(Clone, Debug)]
struct Call {
    k: &'static str, // "p" load_patterns, "e" insert_exception, "E" insert_exceptions
    t: String,
}

fn cps(s: &str) -> Vec<u32> {
    s.chars().map(|c| c as u32).collect()
}

fn build(calls: &[Call]) -> Hyphenator {
    let mut h = Hyphenator::default();
    for c in calls {
        match c.k {
            "p" => h.load_patterns(&c.t),
            "e" => h.insert_exception(&c.t),
            "E" => h.insert_exceptions(&c.t),
            _ => unreachable!(),
        }
    }
    h
}

/// The same build with every word asked for after every call: asking is a pure function of what was loaded, so the
/// answers at the end must not depend on having asked before (anything remembered between calls shows here).
fn build_asking<L: LowerCaser>(calls: &[Call], lc: &L, words: &[String]) -> Hyphenator {
    let mut h = Hyphenator::default();
    for w in words {
        let _ = h.calculate_indices(lc, w).count();
    }
    for c in calls {
        match c.k {
            "p" => h.load_patterns(&c.t),
            "e" => h.insert_exception(&c.t),
            "E" => h.insert_exceptions(&c.t),
            _ => unreachable!(),
        }
        for w in words {
            let _ = h.calculate_indices(lc, w).count();
        }
    }
    h
}

fn query<L: LowerCaser>(h: &Hyphenator, lc: &L, w: &str) -> Value {
    match catch(|| h.calculate_indices(lc, w).collect::<Vec<usize>>()) {
        Ok(got) => json!({"w": cps(w), "got": got}),
        Err((site, msg)) => json!({"w": cps(w), "panic": format!("{site}: {msg}")}),
    }
}

fn lc_pairs<L: LowerCaser>(lc: &L, texts: &[&str]) -> Vec<(u32, u32)> {
    let mut seen: BTreeSet<char> = BTreeSet::new();
    for t in texts {
        seen.extend(t.chars());
    }
    seen.into_iter()
        .map(|c| (c as u32, lc.to_lower_case(c).map(|l| l as u32).unwrap_or(0)))
        .collect()
}

fn event<L: LowerCaser>(calls: &[Call], lc: &L, words: &[String], profile: &str) -> Value {
    let ops: Vec<Value> = calls.iter().map(|c| json!({"k": c.k, "t": cps(&c.t)})).collect();
    let mut texts: Vec<&str> = calls.iter().map(|c| c.t.as_str()).collect();
    texts.extend(words.iter().map(|w| w.as_str()));
    let lcp = lc_pairs(lc, &texts);
    // every other event asks on the way (the digest of the calls decides, so a replay does the same)
    let asking = calls.iter().map(|c| c.t.len()).sum::<usize>() % 2 == 1;
    match catch(|| if asking { build_asking(calls, lc, words) } else { build(calls) }) {
        Err((site, msg)) => {
            json!({"ops": ops, "lc": lcp, "profile": profile, "words": [], "panic": format!("{site}: {msg}")})
        }
        Ok(h) => {
            let ws: Vec<Value> = words.iter().map(|w| query(&h, lc, w)).collect();
            json!({"ops": ops, "lc": lcp, "profile": profile, "words": ws})
        }
    }
}

// ------------------------------------------------------------------------------------------
// random pattern sets / exception lists / words
// ------------------------------------------------------------------------------------------

#[derive(Clone)]
struct Pat {
    letters: Vec<char>,
    digits: Vec<Option<u8>>, // one per gap 0..=n
    at_start: bool,
    at_end: bool,
}

impl Pat {
    fn text(&self) -> String {
        let mut s = String::new();
        if self.at_start {
            s.push('.');
        }
        for g in 0..=self.letters.len() {
            if let Some(d) = self.digits[g] {
                s.push((b'0' + d) as char);
            }
            if g < self.letters.len() {
                s.push(self.letters[g]);
            }
        }
        if self.at_end {
            s.push('.');
        }
        s
    }
    fn key(&self) -> (bool, Vec<char>, bool) {
        (self.at_start, self.letters.clone(), self.at_end)
    }
}

fn rand_letters(r: &mut Rng, p: &Profile, n: usize) -> Vec<char> {
    // runs of a repeated letter make overlapping self-matches likely
    let mut v = vec![];
    while v.len() < n {
        let c = *r.pick(&p.lower);
        let run = if r.chance(1, 4) { r.range(2, 4) as usize } else { 1 };
        for _ in 0..run {
            if v.len() < n {
                v.push(c);
            }
        }
    }
    v
}

fn rand_len(r: &mut Rng) -> usize {
    match r.below(100) {
        0..=14 => 1,
        15..=44 => 2,
        45..=69 => 3,
        70..=81 => 4,
        82..=91 => r.range(5, 8) as usize,
        92..=97 => r.range(15, 24) as usize,
        _ => r.range(31, 38) as usize,
    }
}

fn rand_digit(r: &mut Rng) -> u8 {
    const W: [u8; 100] = {
        let mut w = [0u8; 100];
        let weights = [3, 14, 14, 12, 12, 10, 9, 9, 9, 8];
        let mut i = 0;
        let mut d = 0;
        while d < 10 {
            let mut k = 0;
            while k < weights[d] {
                w[i] = d as u8;
                i += 1;
                k += 1;
            }
            d += 1;
        }
        w
    };
    W[r.below(100) as usize]
}

fn rand_digits(r: &mut Rng, n: usize) -> Vec<Option<u8>> {
    let (num, den) = if n <= 4 { (45, 100) } else if n <= 8 { (30, 100) } else { (12, 100) };
    let mut d: Vec<Option<u8>> = (0..=n).map(|_| if r.chance(num, den) { Some(rand_digit(r)) } else { None }).collect();
    if d.iter().all(|x| x.is_none()) && r.chance(9, 10) {
        let g = r.below(n as u64 + 1) as usize;
        d[g] = Some(rand_digit(r).max(1));
    }
    d
}

fn derive_letters(r: &mut Rng, p: &Profile, base: &[char]) -> Vec<char> {
    let n = base.len();
    match r.below(7) {
        0 => base[..r.range(1, n as i64) as usize].to_vec(),
        1 => base[n - r.range(1, n as i64) as usize..].to_vec(),
        2 => {
            let a = r.below(n as u64) as usize;
            let b = r.range(a as i64 + 1, n as i64) as usize;
            base[a..b].to_vec()
        }
        3 => {
            let mut v = base.to_vec();
            v.push(*r.pick(&p.lower));
            v
        }
        4 => {
            let mut v = vec![*r.pick(&p.lower)];
            v.extend_from_slice(base);
            v
        }
        _ => base.to_vec(),
    }
}

fn mixed_case(r: &mut Rng, p: &Profile, lower: &[char], style: u64) -> String {
    lower
        .iter()
        .enumerate()
        .map(|(i, c)| {
            let forms = match p.lower.iter().position(|l| l == c) {
                Some(ix) => &p.forms[ix],
                None => return *c,
            };
            match style {
                0 => *c,
                1 => {
                    if i == 0 {
                        forms[1]
                    } else {
                        *c
                    }
                }
                2 => forms[1],
                _ => *r.pick(forms),
            }
        })
        .collect()
}

fn gen_set(r: &mut Rng, p: &Profile, nwords: usize) -> (Vec<Call>, Vec<String>) {
    // ---- patterns
    let npat = match r.below(100) {
        0..=4 => 0,
        5..=24 => 1,
        25..=49 => 2,
        50..=69 => 3,
        70..=84 => 4,
        _ => r.range(5, 7) as usize,
    };
    let mut pats: Vec<Pat> = vec![];
    let mut keys: HashSet<(bool, Vec<char>, bool)> = HashSet::new();
    let mut tries = 0;
    while pats.len() < npat && tries < 50 {
        tries += 1;
        let letters = if !pats.is_empty() && r.chance(45, 100) {
            let base = r.pick(&pats).letters.clone();
            derive_letters(r, p, &base)
        } else {
            let n = rand_len(r);
            rand_letters(r, p, n)
        };
        let pat = Pat {
            digits: rand_digits(r, letters.len()),
            letters,
            at_start: r.chance(1, 4),
            at_end: r.chance(1, 4),
        };
        if keys.insert(pat.key()) {
            pats.push(pat);
        }
    }
    // ---- exceptions: (lower-case word, break gaps)
    let nexc = match r.below(100) {
        0..=34 => 0,
        35..=69 => 1,
        70..=89 => 2,
        _ => 3,
    };
    let mut excs: Vec<(Vec<char>, Vec<bool>)> = vec![];
    let mut tries = 0;
    while excs.len() < nexc && tries < 30 {
        tries += 1;
        let mut w: Vec<char> = if !pats.is_empty() && r.chance(55, 100) {
            let mut v = vec![];
            let k = r.range(1, 3);
            for _ in 0..k {
                if r.chance(1, 3) {
                    let n = r.range(1, 2) as usize;
                    v.extend(rand_letters(r, p, n));
                }
                v.extend(r.pick(&pats).letters.iter());
            }
            if r.chance(1, 3) {
                let n = r.range(1, 2) as usize;
                v.extend(rand_letters(r, p, n));
            }
            v
        } else if !pats.is_empty() && r.chance(40, 100) {
            r.pick(&pats).letters.clone()
        } else {
            let n = r.range(1, 8) as usize;
            rand_letters(r, p, n)
        };
        w.truncate(40);
        if excs.iter().any(|e| e.0 == w) {
            continue;
        }
        let n = w.len();
        let mut b: Vec<bool> = (0..=n).map(|g| g > 0 && g < n && r.chance(35, 100)).collect();
        if r.chance(3, 100) {
            b[0] = true;
        }
        if r.chance(3, 100) {
            b[n] = true;
        }
        // sometimes also load the fully anchored pattern of this very word
        if r.chance(15, 100) {
            let pat = Pat { digits: rand_digits(r, n), letters: w.clone(), at_start: true, at_end: true };
            if keys.insert(pat.key()) {
                pats.push(pat);
            }
        }
        excs.push((w, b));
    }
    let exc_text = |e: &(Vec<char>, Vec<bool>)| -> String {
        let mut s = String::new();
        for g in 0..=e.0.len() {
            if e.1[g] {
                s.push('-');
            }
            if g < e.0.len() {
                s.push(e.0[g]);
            }
        }
        s
    };
    // ---- API calls
    #[derive(Clone)]
    enum Item {
        P(String),
        E(String),
    }
    let mut items: Vec<Item> = pats.iter().map(|x| Item::P(x.text())).collect();
    items.extend(excs.iter().map(|e| Item::E(exc_text(e))));
    if r.chance(30, 100) {
        // arbitrary interleaving of \patterns and \hyphenation
        for i in (1..items.len()).rev() {
            let j = r.below(i as u64 + 1) as usize;
            items.swap(i, j);
        }
    }
    let mut calls: Vec<Call> = vec![];
    let mut i = 0;
    while i < items.len() {
        let is_p = matches!(items[i], Item::P(_));
        let mut j = i + 1;
        while j < items.len() && matches!(items[j], Item::P(_)) == is_p && r.chance(if is_p { 85 } else { 45 }, 100) {
            j += 1;
        }
        let texts: Vec<String> = items[i..j]
            .iter()
            .map(|x| match x {
                Item::P(s) | Item::E(s) => s.clone(),
            })
            .collect();
        if is_p {
            let sep = *r.pick(&[" ", "\n", "  ", " \n", "\t"]);
            let mut t = texts.join(sep);
            if r.chance(1, 5) {
                t = format!(" {t}\n");
            }
            calls.push(Call { k: "p", t });
        } else if texts.len() == 1 && r.chance(3, 4) {
            calls.push(Call { k: "e", t: texts[0].clone() });
        } else {
            // the documented format of insert_exceptions is "separated by whitespace"
            let sep = *r.pick(&["\n", "\n", "\n", " ", " ", "\n\n", " \n ", "\t"]);
            let mut t = texts.join(sep);
            if r.chance(1, 5) {
                t = format!("  {t} \n");
            }
            calls.push(Call { k: "E", t });
        }
        i = j;
    }
    // ---- words
    let mut words: Vec<String> = vec![];
    let mut seen: HashSet<String> = HashSet::new();
    let mut push = |w: String, words: &mut Vec<String>| {
        if !w.is_empty() && w.chars().count() <= 40 && seen.insert(w.clone()) {
            words.push(w);
        }
    };
    for e in &excs {
        if r.chance(9, 10) {
            let st = r.below(4);
            push(mixed_case(r, p, &e.0, st), &mut words);
        }
        if r.chance(1, 2) {
            // near misses of an exception word
            let mut v = e.0.clone();
            match r.below(3) {
                0 => v.push(*r.pick(&p.lower)),
                1 => v.insert(0, *r.pick(&p.lower)),
                _ => {
                    v.pop();
                }
            }
            v.truncate(40);
            let st = r.below(4);
            push(mixed_case(r, p, &v, st), &mut words);
        }
    }
    let mut guard = 0;
    while words.len() < nwords && guard < 200 {
        guard += 1;
        let mut v: Vec<char> = vec![];
        let kind = if pats.is_empty() { 9 } else { r.below(10) };
        match kind {
            0 => v = r.pick(&pats).letters.clone(),
            1 => {
                v.push(*r.pick(&p.lower));
                v.extend(r.pick(&pats).letters.iter());
                if r.chance(1, 2) {
                    v.push(*r.pick(&p.lower));
                }
            }
            2 => {
                v.extend(r.pick(&pats).letters.iter());
                v.push(*r.pick(&p.lower));
            }
            3..=7 => {
                let k = r.range(1, 4);
                for _ in 0..k {
                    if r.chance(1, 3) {
                        let n = r.range(1, 2) as usize;
                        v.extend(rand_letters(r, p, n));
                    }
                    v.extend(r.pick(&pats).letters.iter());
                }
                if r.chance(1, 3) {
                    let n = r.range(1, 2) as usize;
                    v.extend(rand_letters(r, p, n));
                }
            }
            8 => {
                let n = r.range(20, 40) as usize;
                v = rand_letters(r, p, n);
            }
            _ => {
                let n = r.range(1, 9) as usize;
                v = rand_letters(r, p, n);
            }
        }
        v.truncate(40);
        let st = match r.below(10) {
            0..=3 => 0,
            4..=5 => 1,
            6 => 2,
            _ => 3,
        };
        let mut w = mixed_case(r, p, &v, st);
        if r.chance(3, 100) {
            // outside the property (a non-letter): the specification skips and counts these
            let cs: Vec<char> = w.chars().collect();
            let at = r.below(cs.len() as u64 + 1) as usize;
            let mut x: Vec<char> = cs[..at].to_vec();
            x.push(*r.pick(&p.nonletters));
            x.extend_from_slice(&cs[at..]);
            x.truncate(40);
            w = x.into_iter().collect();
        }
        push(w, &mut words);
    }
    (calls, words)
}

fn gen_random(args: &Args) -> i32 {
    quiet_panics();
    let seed: u64 = args.num("seed", 1);
    let sets: usize = args.num("sets", 100);
    let nwords: usize = args.num("words", 10);
    let mut out = Out::new(args.str("out"));
    let mut r = Rng::new(seed ^ 0xC13);
    let profiles = [profile_ascii(), profile_table()];
    for i in 0..sets {
        let p = &profiles[if i % 3 == 2 { 1 } else { 0 }];
        let (calls, words) = gen_set(&mut r, p, nwords);
        out.line(&event(&calls, &p.lc, &words, p.name));
    }
    0
}

// ------------------------------------------------------------------------------------------
// long patterns: 14..40 letters with 1..3 digits, so that the zero runs of the packed op stream
// fall around the chunk boundaries (15/16/17, 31/32/33), queried with words that embed them.
// ------------------------------------------------------------------------------------------

fn gen_long(args: &Args) -> i32 {
    quiet_panics();
    let seed: u64 = args.num("seed", 1);
    let sets: usize = args.num("sets", 100);
    let mut out = Out::new(args.str("out"));
    let mut r = Rng::new(seed ^ 0x10_46);
    let profiles = [profile_ascii(), profile_table()];
    for i in 0..sets {
        let p = &profiles[if i % 4 == 3 { 1 } else { 0 }];
        let npat = r.range(1, 3) as usize;
        let mut pats: Vec<Pat> = vec![];
        let mut keys: HashSet<(bool, Vec<char>, bool)> = HashSet::new();
        while pats.len() < npat {
            let n = match r.below(4) {
                0 => r.range(14, 19) as usize,
                1 => r.range(30, 35) as usize,
                _ => r.range(14, 40) as usize,
            };
            let letters = rand_letters(&mut r, p, n);
            let mut digits: Vec<Option<u8>> = vec![None; n + 1];
            let nd = r.range(1, 3);
            for _ in 0..nd {
                // favour gaps whose distance from the previous digit / the start is 14..18 or 30..34
                let g = match r.below(3) {
                    0 => r.range(14, 18).min(n as i64) as usize,
                    1 => r.range(30, 34).min(n as i64) as usize,
                    _ => r.below(n as u64 + 1) as usize,
                };
                digits[g] = Some(rand_digit(&mut r).max(1));
            }
            let pat = Pat { letters, digits, at_start: r.chance(1, 5), at_end: r.chance(1, 5) };
            if keys.insert(pat.key()) {
                pats.push(pat);
            }
        }
        if r.chance(1, 2) {
            // a short companion pattern competing at some positions
            let n = r.range(1, 3) as usize;
            let letters = rand_letters(&mut r, p, n);
            let pat = Pat { digits: rand_digits(&mut r, n), letters, at_start: false, at_end: false };
            if keys.insert(pat.key()) {
                pats.push(pat);
            }
        }
        let calls: Vec<Call> = if r.chance(1, 2) {
            vec![Call { k: "p", t: pats.iter().map(|x| x.text()).collect::<Vec<_>>().join(" ") }]
        } else {
            pats.iter().map(|x| Call { k: "p", t: x.text() }).collect()
        };
        let mut words: Vec<String> = vec![];
        let mut seen: HashSet<String> = HashSet::new();
        for pat in pats.iter().filter(|x| x.letters.len() >= 14) {
            for variant in 0..4 {
                let n = pat.letters.len();
                let room = 40 - n;
                let (pre, post) = match variant {
                    0 => (0, 0),
                    1 => (r.below(room as u64 + 1) as usize, 0),
                    2 => (0, r.below(room as u64 + 1) as usize),
                    _ => {
                        let a = r.below(room as u64 + 1) as usize;
                        (a, r.below((room - a) as u64 + 1) as usize)
                    }
                };
                // an anchored pattern is mostly given the chance to match
                let pre = if pat.at_start && r.chance(4, 5) { 0 } else { pre };
                let post = if pat.at_end && r.chance(4, 5) { 0 } else { post };
                let mut v = rand_letters(&mut r, p, pre);
                v.extend(pat.letters.iter());
                v.extend(rand_letters(&mut r, p, post));
                let st = match r.below(4) {
                    0 | 1 => 0,
                    2 => 1,
                    _ => 3,
                };
                let w = mixed_case(&mut r, p, &v, st);
                if seen.insert(w.clone()) {
                    words.push(w);
                }
            }
        }
        out.line(&event(&calls, &p.lc, &words, p.name));
    }
    0
}

// ------------------------------------------------------------------------------------------
// exhaustive small domain: every pattern over {a,b} with up to `maxlen` letters, every gap empty
// or one of `digits`, all four anchorings -- alone (pairs=0) or together with `pairs` other
// patterns of the same space chosen by the seed -- queried with every word over {a,b} up to
// `wlen` letters (case chosen by the seed).
// ------------------------------------------------------------------------------------------

fn gen_small(args: &Args) -> i32 {
    quiet_panics();
    let seed: u64 = args.num("seed", 1);
    let maxlen: usize = args.num("maxlen", 2);
    let wlen: usize = args.num("wlen", 5);
    let pairs: usize = args.num("pairs", 0);
    let digits: Vec<u8> = args.str("digits").unwrap_or("12").bytes().map(|b| b - b'0').collect();
    let mut out = Out::new(args.str("out"));
    let mut r = Rng::new(seed ^ 0x5A11);
    let p = profile_ascii();
    let letters = ['a', 'b'];
    // all patterns
    let mut all: Vec<Pat> = vec![];
    for n in 1..=maxlen {
        for li in 0..(1usize << n) {
            let ls: Vec<char> = (0..n).map(|i| letters[(li >> i) & 1]).collect();
            let choices = digits.len() + 1;
            let total = choices.pow(n as u32 + 1);
            for di in 0..total {
                let mut x = di;
                let ds: Vec<Option<u8>> = (0..=n)
                    .map(|_| {
                        let c = x % choices;
                        x /= choices;
                        if c == 0 {
                            None
                        } else {
                            Some(digits[c - 1])
                        }
                    })
                    .collect();
                for anch in 0..4 {
                    all.push(Pat { letters: ls.clone(), digits: ds.clone(), at_start: anch & 1 != 0, at_end: anch & 2 != 0 });
                }
            }
        }
    }
    // all words
    let mut words_lower: Vec<Vec<char>> = vec![];
    for n in 1..=wlen {
        for wi in 0..(1usize << n) {
            words_lower.push((0..n).map(|i| letters[(wi >> i) & 1]).collect());
        }
    }
    let reps = pairs.max(1);
    for first in &all {
        for _ in 0..reps {
            let mut set = vec![first.clone()];
            if pairs > 0 {
                let mut guard = 0;
                while set.len() < 2 && guard < 20 {
                    guard += 1;
                    let q = r.pick(&all).clone();
                    if q.key() != first.key() {
                        set.push(q);
                    }
                }
            }
            let t: Vec<String> = set.iter().map(|x| x.text()).collect();
            let calls = vec![Call { k: "p", t: t.join(" ") }];
            let words: Vec<String> = words_lower
                .iter()
                .map(|w| {
                    let st = if r.chance(2, 3) { 0 } else { 3 };
                    mixed_case(&mut r, &p, w, st)
                })
                .collect();
            out.line(&event(&calls, &p.lc, &words, p.name));
        }
    }
    0
}

// ------------------------------------------------------------------------------------------
// plain TeX's own patterns and exceptions (Hyphenator::plain_tex_en_us) on a list of words
// ------------------------------------------------------------------------------------------

fn gen_plain(args: &Args) -> i32 {
    quiet_panics();
    let words_file = args.req("words");
    let chunk: usize = args.num("chunk", 25);
    let mut out = Out::new(args.str("out"));
    let text = std::fs::read_to_string(words_file).expect("read words file");
    let words: Vec<String> = text.split_whitespace().map(|s| s.to_string()).collect();
    let lc = AsciiLowerCaser::default();
    let h = match catch(Hyphenator::plain_tex_en_us) {
        Ok(h) => h,
        Err((site, msg)) => {
            out.line(&json!({"ops": [{"k": "plain", "t": []}], "lc": [], "profile": "ascii", "words": [],
                             "panic": format!("{site}: {msg}")}));
            return 0;
        }
    };
    for ws in words.chunks(chunk) {
        let texts: Vec<&str> = ws.iter().map(|w| w.as_str()).collect();
        let lcp = lc_pairs(&lc, &texts);
        let res: Vec<Value> = ws.iter().map(|w| query(&h, &lc, w)).collect();
        out.line(&json!({"ops": [{"k": "plain", "t": []}], "lc": lcp, "profile": "ascii", "words": res}));
    }
    0
}

// ------------------------------------------------------------------------------------------
// replay of one recorded event: re-run the calls and the word on the current code
// ------------------------------------------------------------------------------------------

fn replay(args: &Args) -> i32 {
    quiet_panics();
    let path = args.req("file");
    let v: Value = serde_json::from_str(&std::fs::read_to_string(path).expect("read replay")).expect("json");
    let e = &v["event"];
    let to_s = |a: &Value| -> String {
        a.as_array().unwrap().iter().map(|c| char::from_u32(c.as_u64().unwrap() as u32).unwrap()).collect()
    };
    let table: HashMap<char, char> = e["lc"]
        .as_array()
        .unwrap()
        .iter()
        .filter(|p| p[1].as_u64().unwrap() != 0)
        .map(|p| {
            (char::from_u32(p[0].as_u64().unwrap() as u32).unwrap(), char::from_u32(p[1].as_u64().unwrap() as u32).unwrap())
        })
        .collect();
    let lc = Lc::Table(table);
    let plain = e["ops"][0]["k"] == "plain";
    let h = if plain {
        Hyphenator::plain_tex_en_us()
    } else {
        let calls: Vec<Call> = e["ops"]
            .as_array()
            .unwrap()
            .iter()
            .map(|o| Call {
                k: match o["k"].as_str().unwrap() {
                    "p" => "p",
                    "e" => "e",
                    _ => "E",
                },
                t: to_s(&o["t"]),
            })
            .collect();
        for c in &calls {
            println!("call {} {:?}", match c.k { "p" => "load_patterns", "e" => "insert_exception", _ => "insert_exceptions" }, c.t);
        }
        build(&calls)
    };
    let wi = v["verdict"]["wi"].as_u64().unwrap_or(1).max(1) as usize - 1;
    let w = to_s(&e["words"][wi]["w"]);
    let got = query(&h, &lc, &w);
    println!("calculate_indices({:?}) now returns {}", w, got.get("got").unwrap_or(&got["panic"]));
    println!("recorded: {}   specification (TeX): {}", e["words"][wi].get("got").unwrap_or(&Value::Null), v["verdict"]["want"]);
    0
}
