//! C03 -- the lexer and trace positions.
//!
//! The real `Lexer` is driven directly with a custom `Config` (category-code table, end-line
//! character); every token is traced through the real `Tracer`.  Events are decided by TLC against
//! TexLexer.tla; nothing here knows what the tokens should be.
use crate::util::{catch, quiet_panics, Args, Out, Rng};
use serde_json::{json, Value};
use std::collections::HashMap;
use texlang::token::lexer::{self, Lexer};
use texlang::token::trace;
use texlang::token::{CommandRef, CsNameInterner, Token, Value as TV};
use texlang::types::CatCode;

pub fn dispatch(cmd: &str, args: &Args) -> Option<i32> {
    Some(match cmd {
        "c03-events" => events(args),
        _ => return None,
    })
}

struct Cfg {
    table: HashMap<char, CatCode>,
    elc: Option<char>,
}
impl lexer::Config for Cfg {
    fn cat_code(&self, c: char) -> CatCode {
        self.table.get(&c).copied().unwrap_or(CatCode::Other)
    }
    fn end_line_char(&self) -> Option<char> {
        self.elc
    }
}

/// A configuration whose end-line character changes while the text is read: the k-th line loaded gets elcs[k]
/// (lexer.rs asks for the end-line character exactly when it loads a line).
struct SeqCfg {
    table: HashMap<char, CatCode>,
    elcs: Vec<Option<char>>,
    k: std::cell::Cell<usize>,
}
impl lexer::Config for SeqCfg {
    fn cat_code(&self, c: char) -> CatCode {
        self.table.get(&c).copied().unwrap_or(CatCode::Other)
    }
    fn end_line_char(&self) -> Option<char> {
        let i = self.k.get();
        self.k.set(i + 1);
        self.elcs.get(i).or(self.elcs.last()).copied().flatten()
    }
}

fn lex_event_seq(text: &str, table: &[(char, u64)], elcs: &[i64]) -> Value {
    let cfg = SeqCfg {
        table: table.iter().map(|(c, n)| (*c, cat_from(*n))).collect(),
        elcs: elcs.iter().map(|e| if *e >= 0 { char::from_u32(*e as u32) } else { None }).collect(),
        k: std::cell::Cell::new(0),
    };
    let mut ev = lex_with(text, table, elcs.first().copied().unwrap_or(-1), &cfg);
    ev["elcs"] = json!(elcs);
    ev["via"] = json!("changing end-line character");
    ev
}

fn cat_from(n: u64) -> CatCode {
    use CatCode::*;
    [Escape, BeginGroup, EndGroup, MathShift, AlignmentTab, EndOfLine, Parameter, Superscript, Subscript, Ignored, Space,
     Letter, Other, Active, Comment, Invalid][n as usize]
}

fn lines_of(text: &str) -> Vec<&str> {
    let mut v: Vec<&str> = text.split('\n').collect();
    if v.last() == Some(&"") {
        v.pop();
    }
    v
}

/// Lex `text` completely; one JSON event.
fn lex_event(text: &str, table: &[(char, u64)], elc: i64) -> Value {
    let cfg = Cfg {
        table: table.iter().map(|(c, n)| (*c, cat_from(*n))).collect(),
        elc: if elc >= 0 { char::from_u32(elc as u32) } else { None },
    };
    lex_with(text, table, elc, &cfg)
}

/// The lexer configuration a real VM provides: category codes from codes.rs, the end-line character from
/// endlinechar.rs (the conversion of the integer parameter into the character the lexer appends).
struct VmCfg<'a>(&'a crate::vmh::VS);
impl lexer::Config for VmCfg<'_> {
    fn cat_code(&self, c: char) -> CatCode {
        <crate::vmh::VS as texlang::traits::TexlangState>::cat_code(self.0, c)
    }
    fn end_line_char(&self) -> Option<char> {
        <crate::vmh::VS as texlang::traits::TexlangState>::end_line_char(self.0)
    }
}

/// Same event, but the configuration is a VM's state: \endlinechar is assigned by running the primitive,
/// the category codes of the table are stored in the VM's table (every other character gets the code the
/// plain `Cfg` gives it: other).
fn lex_event_vm(text: &str, table: &[(char, u64)], elc: i64) -> Value {
    let mut vm = crate::vmh::new_vm(&[], &[]);
    let r = crate::vmh::run_src::<crate::vmh::H>(&mut vm, "setup.tex", &format!("\\endlinechar={elc} "), 10_000);
    if !matches!(r.outcome, crate::vmh::Outcome::Ok) {
        return json!({"lines":[],"table":[],"elc":elc,"toks":[],"panic":format!("setup failed: {:?}", r.outcome),"text":text,"via":"vm"});
    }
    // characters outside the table (the end-line character, results of ^^ reduction) have the code "other"
    // in the plain `Cfg`: the VM's table starts from the same default
    for u in 0..256usize {
        *vm.state.codes_cat_code.get_mut(u) = CatCode::Other;
    }
    for (c, n) in table {
        *vm.state.codes_cat_code.get_mut(*c as usize) = cat_from(*n);
    }
    let mut ev = lex_with(text, table, elc, &VmCfg(&vm.state));
    ev["via"] = json!("vm");
    ev
}

fn lex_with<C: lexer::Config>(text: &str, table: &[(char, u64)], elc: i64, cfg: &C) -> Value {
    let lines = lines_of(text);
    let r = catch(|| {
        // The tracer serves every source of a run: the text under test is registered between two other sources
        // (the first without a final newline, like the text itself in half of the events), and its tokens are
        // traced only after the last one was registered - each must still lead back to its own file and line.
        let mut tracer: trace::Tracer = Default::default();
        let mut interner: CsNameInterner = Default::default();
        let _ = tracer.register_source_code(None, trace::Origin::File("before.tex".into()), "b\nbb");
        let range = tracer.register_source_code(None, trace::Origin::File("main.tex".into()), text);
        let mut lx = Lexer::new(text.to_string(), range);
        let mut toks: Vec<Value> = vec![];
        let mut lexed: Vec<(&str, Token, u32)> = vec![];
        let mut guard = 0;
        loop {
            guard += 1;
            if guard > 100_000 {
                toks.push(json!({"k":"runaway","cat":-1,"ch":0,"name":[],"ln":0,"col":0,"lnok":false}));
                break;
            }
            match lx.next(cfg, &mut interner, false) {
                lexer::Result::Token(t) => lexed.push(("tok", t, 0u32)),
                lexer::Result::InvalidCharacter(c, key) => lexed.push(("invalid", Token::new_letter(c, key), c as u32)),
                lexer::Result::EndOfLine => continue,
                lexer::Result::EndOfInput => break,
            };
        }
        let _ = tracer.register_source_code(None, trace::Origin::File("after.tex".into()), "hello\nworld");
        for (kind, token, ch) in lexed {
            let tr = tracer.trace(token, &interner);
            let own = matches!(&tr.origin, trace::Origin::File(p) if p.to_str() == Some("main.tex"));
            let lnok = own && tr.line_number >= 1 && lines.get(tr.line_number - 1).map(|l| *l == tr.line_content).unwrap_or(false);
            let (cat, chv, name): (i64, u32, Vec<u32>) = if kind == "invalid" {
                (15, ch, vec![])
            } else {
                match token.value() {
                    TV::CommandRef(CommandRef::ControlSequence(n)) => (16, 0, interner.resolve(n).unwrap().chars().map(|c| c as u32).collect()),
                    TV::CommandRef(CommandRef::ActiveCharacter(c)) => (13, c as u32, vec![]),
                    _ => (token.cat_code().map(|c| c as i64).unwrap_or(-1), token.char().unwrap_or('\0') as u32, vec![]),
                }
            };
            toks.push(json!({"k":kind,"cat":cat,"ch":chv,"name":name,"ln":tr.line_number,"col":tr.index,"lnok":lnok}));
        }
        toks
    });
    let lines_codes: Vec<Vec<u32>> = lines.iter().map(|l| l.chars().map(|c| c as u32).collect()).collect();
    let table_j: Vec<Vec<u64>> = table.iter().map(|(c, n)| vec![*c as u64, *n]).collect();
    match r {
        Ok(toks) => json!({"lines":lines_codes,"table":table_j,"elc":elc,"toks":toks,"panic":"","text":text}),
        Err((site, msg)) => json!({"lines":lines_codes,"table":table_j,"elc":elc,"toks":[],"panic":format!("{site}: {msg}"),"text":text}),
    }
}

pub fn events(args: &Args) -> i32 {
    quiet_panics();
    let seed: u64 = args.num("seed", 1);
    let maxlen: usize = args.num("exhaustive", 4);
    let nrand: usize = args.num("random", 2000);
    let mut out = Out::new(args.str("out"));
    // ---- exhaustive short texts over a role alphabet, plain-TeX-like table ----------------------
    let sigma: Vec<char> = vec!['\\', 'a', 'M', ' ', '^', '%', 'é', '\u{7f}', '\n', '6', 'b'];
    let table: Vec<(char, u64)> = vec![('\\', 0), ('a', 11), ('M', 11), ('b', 11), (' ', 10), ('^', 7), ('%', 14), ('\r', 5), ('\0', 9), ('\u{7f}', 15)];
    let elcs = [-1i64, 13, 97, 94];
    let mut texts: Vec<String> = vec![String::new()];
    let mut frontier: Vec<String> = vec![String::new()];
    for _ in 0..maxlen {
        let mut next = vec![];
        for t in &frontier {
            for c in &sigma {
                let mut u = t.clone();
                u.push(*c);
                next.push(u);
            }
        }
        texts.extend(next.iter().cloned());
        frontier = next;
    }
    for t in &texts {
        for e in elcs {
            out.line(&lex_event(t, &table, e));
        }
    }
    // ---- random texts with random category-code assignments ---------------------------------
    let mut rng = Rng::new(seed);
    let pool: Vec<char> = vec!['\\', 'a', 'b', 'c', 'f', '6', '1', 'M', '^', '~', ' ', ' ', '\n', '\r', '\t', '\0', '\u{7f}', '%', '{', '}', '#', '$', '&', '_', 'é', '€', '?', '@', '7'];
    for i in 0..nrand {
        let len = 1 + rng.below(if i % 5 == 0 { 60 } else { 16 }) as usize;
        let mut text = String::new();
        for _ in 0..len {
            // favour ^^ sequences, trailing blanks and escapes
            match rng.below(12) {
                0 => {
                    let c = *rng.pick(&['^', '~', 'M']);
                    text.push(c);
                    text.push(c);
                }
                1 => text.push_str("  "),
                _ => text.push(*rng.pick(&pool)),
            }
        }
        if rng.chance(1, 2) {
            text.push('\n');
        }
        // category codes: half of the events use a plain-TeX-like table, the others assign a random
        // code to every character that occurs (covering all 16 codes over the run)
        let mut tb: Vec<(char, u64)> = vec![];
        let mut seen: Vec<char> = vec![];
        for c in text.chars().chain(['\r', 'a', '^']) {
            if c == '\n' || seen.contains(&c) {
                continue;
            }
            seen.push(c);
            let code = if i % 2 == 0 {
                match c {
                    '\\' => 0, '{' => 1, '}' => 2, '$' => 3, '&' => 4, '\r' => 5, '#' => 6, '^' => 7, '_' => 8, '\0' => 9,
                    ' ' | '\t' => 10, 'a' | 'b' | 'c' | 'f' | 'M' => 11, '~' => 13, '%' => 14, '\u{7f}' => 15, _ => 12,
                }
            } else {
                match rng.below(5) {
                    0 => rng.below(16),
                    1 => *rng.pick(&[0u64, 7, 7, 11, 11, 10, 5, 14, 9, 15]),
                    _ => match c { '\\' => 0, '^' => 7, ' ' => 10, '\r' => 5, 'a' | 'b' | 'c' | 'f' | 'M' => 11, '%' => 14, _ => 12 },
                }
            };
            tb.push((c, code));
        }
        let elc = *rng.pick(&[-1i64, 13, 13, 13, 97, 94, 32, 37, 92, 0, 127, 54, 98]);
        out.line(&lex_event(&text, &tb, elc));
        // texts of several lines also with an end-line character that changes between lines (present, absent,
        // another one): the positions of all later tokens must not move
        let nlines = lines_of(&text).len();
        if nlines >= 2 && i % 2 == 1 {
            let vals = [-1i64, 13, 13, 97, 32, 37, -1, 94];
            let mut cur = *rng.pick(&vals);
            let elcs: Vec<i64> = (0..nlines)
                .map(|_| {
                    if rng.chance(1, 2) {
                        cur = *rng.pick(&vals);
                    }
                    cur
                })
                .collect();
            out.line(&lex_event_seq(&text, &tb, &elcs));
        }
        // every third text also through a VM's own configuration, with any ASCII end-line character
        // (characters beyond ASCII get their code from the table too: codes.rs keeps those in a map of its own)
        if i % 3 == 0 {
            let elc = match rng.below(6) {
                0 => -1,
                1 => 13,
                2 => *rng.pick(&[0i64, 1, 31, 32, 126, 127]),
                _ => rng.below(128) as i64,
            };
            out.line(&lex_event_vm(&text, &tb, elc));
        }
    }
    0
}
