//! C10: the TFM and PL readers are total; PL->TFM output is a readable TFM.
//!
//! Two recorders, no oracle: every expected value comes from TLC (specs/TfmHeader.tla,
//! specs/CodecProtocol.tla).
//!
//! * `c10-header` (binding F): one call event per file -- the file as (len, first 24 bytes) and
//!   what `tfm::algorithms::tfm_to_pl` returned (kind, TFtoPL message text, junk warning).
//!   Files: every value of each of the twelve 16-bit preamble words against short base files and
//!   corpus fonts, all short lengths, compensated and paired overrides.
//! * `c10-pipe` (binding T): runs of the two converters exactly as the tfm-bin tools drive them
//!   (conversion plus rendering of every warning) on truncated / mutated corpus fonts and on
//!   token-level mutations of corpus property lists and synthesised property lists; every PL->TFM
//!   output is handed back to the TFM reader.  A panic is an event; a hang or a hard crash
//!   (stack overflow, abort) ends the process after the pending call has been flushed, so the
//!   driver attributes it to one input and resumes behind it.
use crate::util::{Args, Out, Rng};
use serde_json::{json, Value};
use std::cell::RefCell;
use std::sync::atomic::{AtomicU64, Ordering};
use std::sync::{Arc, Mutex};

pub fn dispatch(cmd: &str, args: &Args) -> Option<i32> {
    Some(match cmd {
        "c10-header" => header(args),
        "c10-pipe" => pipe(args),
        "c10-file" => one_file(args),
        "c10-growth" => growth(args),
        "c10-synth" => {
            // debugging: write the synthesised property list of one parameter
            let text = synth_pl(args.num("param", 0u64), args.str("deep").is_some());
            std::fs::write(args.req("out"), text).expect("write");
            0
        }
        _ => return None,
    })
}

// ------------------------------------------------------------------------------------------
// resource growth: the conversions must return for every input, so their cost must not explode on a
// small one.  Family P(n): characters 0..n, and for every i != j below n the program of character i
// has the step (/LIG/ D j D max(i,j)+1).  It is free of cycles (every step inserts a larger
// character), 11 KB of property list for n = 24 - but the number of lig/kern steps TeX would take on
// the pair (0, 1) doubles with every two characters.  Knuth's PLtoTF and TFtoPL only classify pairs
// (PLtoTF.2014.116ff) and never carry the steps out.  Measured here: CPU time of this thread in
// clock ticks (/proc/thread-self/stat, 100 per second), which does not depend on the load.
// ------------------------------------------------------------------------------------------
fn family_pl(n: usize) -> String {
    let mut s = String::new();
    for i in 0..=n {
        s.push_str(&format!("(CHARACTER D {i} (CHARWD R 1.0))\n"));
    }
    s.push_str("(LIGTABLE\n");
    for i in 0..n {
        s.push_str(&format!(" (LABEL D {i})\n"));
        for j in 0..n {
            if i != j {
                s.push_str(&format!(" (/LIG/ D {j} D {})\n", i.max(j) + 1));
            }
        }
        s.push_str(" (STOP)\n");
    }
    s.push_str(" )\n");
    s
}

fn thread_cpu_ticks() -> u64 {
    let stat = std::fs::read_to_string("/proc/thread-self/stat").unwrap_or_default();
    let rest = stat.rsplit_once(')').map(|x| x.1).unwrap_or("");
    let f: Vec<&str> = rest.split_whitespace().collect();
    // after the command name: state is field 0, utime field 11, stime field 12
    f.get(11).and_then(|x| x.parse::<u64>().ok()).unwrap_or(0) + f.get(12).and_then(|x| x.parse::<u64>().ok()).unwrap_or(0)
}

fn growth(args: &Args) -> i32 {
    install_hook();
    let mut out = Out::new(args.str("out"));
    for n in [16usize, 20, 24] {
        let text = family_pl(n);
        let t0 = thread_cpu_ticks();
        let r = catch(|| run_pl_to_tfm(&text));
        let ticks = thread_cpu_ticks() - t0;
        let (ok, len) = match &r {
            Ok((bytes, _)) => (true, bytes.len()),
            Err(_) => (false, 0),
        };
        out.line(&json!({"ev":"growth","n":n,"pl_len":text.len(),"cpu_ticks":ticks,"ok":ok,"tfm_len":len}));
    }
    out.flush();
    0
}

// ------------------------------------------------------------------------------------------
// panics as data, with the location (file, line) so that the driver can key a finding by the
// source text at the panic site instead of by a line number
// ------------------------------------------------------------------------------------------
thread_local! {
    static LAST: RefCell<Option<(String, u32, String)>> = const { RefCell::new(None) };
}

fn install_hook() {
    std::panic::set_hook(Box::new(|info| {
        let (file, line) = info
            .location()
            .map(|l| (l.file().to_string(), l.line()))
            .unwrap_or_default();
        let msg = if let Some(s) = info.payload().downcast_ref::<&str>() {
            s.to_string()
        } else if let Some(s) = info.payload().downcast_ref::<String>() {
            s.clone()
        } else {
            "<non-string panic payload>".to_string()
        };
        LAST.with(|p| *p.borrow_mut() = Some((file, line, msg)));
    }));
}

fn catch<T>(f: impl FnOnce() -> T) -> Result<T, (String, u32, String)> {
    LAST.with(|p| *p.borrow_mut() = None);
    match std::panic::catch_unwind(std::panic::AssertUnwindSafe(f)) {
        Ok(v) => Ok(v),
        Err(_) => Err(LAST
            .with(|p| p.borrow_mut().take())
            .unwrap_or_else(|| ("?".into(), 0, "?".into()))),
    }
}

// ------------------------------------------------------------------------------------------
// the two converters, driven as crates/tfm-bin/src/{tftopl,pltotf}.rs drive them
// ------------------------------------------------------------------------------------------

/// crates/tfm-bin/src/shared.rs, CharcodeFormat::to_display_format
fn display_format(mode: u8, scheme: &Option<String>) -> tfm::pl::CharDisplayFormat {
    match mode % 3 {
        0 => {
            let s = match scheme {
                None => String::new(),
                Some(s) => s.to_uppercase(),
            };
            if s.starts_with("TEX MATH SY") || s.starts_with("TEX MATH EX") {
                tfm::pl::CharDisplayFormat::Octal
            } else {
                tfm::pl::CharDisplayFormat::Default
            }
        }
        1 => tfm::pl::CharDisplayFormat::Ascii,
        _ => tfm::pl::CharDisplayFormat::Octal,
    }
}

struct TfmOutcome {
    kind: String,
    msg: String,
    junk: bool,
    nwarn: usize,
    pl_len: usize,
}

/// tftopl: bytes -> property list text or a documented error, plus rendered messages.
fn run_tfm_to_pl(bytes: &[u8], mode: u8) -> TfmOutcome {
    let output = match tfm::algorithms::tfm_to_pl(bytes, 3, &|pl_file| {
        display_format(mode, &pl_file.header.character_coding_scheme)
    }) {
        Ok(o) => o,
        Err(_) => {
            // the tool unwraps this; it is not one of the documented outcomes
            return TfmOutcome {
                kind: "FmtError".into(),
                msg: String::new(),
                junk: false,
                nwarn: 0,
                pl_len: 0,
            };
        }
    };
    let mut junk = false;
    let mut rendered = 0usize;
    for m in &output.error_messages {
        if let tfm::algorithms::TfmToPlErrorMessage::DeserializationWarning(
            tfm::DeserializationWarning::InternalFileLengthIsSmall(_, _),
        ) = m
        {
            junk = true;
        }
        rendered += m.tftopl_message().len();
    }
    let _ = rendered;
    match &output.pl_data {
        Ok(s) => TfmOutcome {
            kind: "Ok".into(),
            msg: String::new(),
            junk,
            nwarn: output.error_messages.len(),
            pl_len: s.len(),
        },
        Err(e) => {
            let dbg = format!("{e:?}");
            let kind: String = dbg
                .chars()
                .take_while(|c| c.is_ascii_alphanumeric())
                .collect();
            let text = e.tftopl_message();
            let _ = e.tftopl_section();
            TfmOutcome {
                kind,
                msg: text.lines().next().unwrap_or("").to_string(),
                junk,
                nwarn: output.error_messages.len(),
                pl_len: 0,
            }
        }
    }
}

/// pltotf: text -> bytes, plus rendered messages.
fn run_pl_to_tfm(text: &str) -> (Vec<u8>, usize) {
    let (bytes, warnings) = tfm::algorithms::pl_to_tfm(text);
    let mut rendered = 0usize;
    for w in &warnings {
        rendered += w.pltotf_message(text).len();
    }
    let _ = rendered;
    (bytes, warnings.len())
}

fn hdr_of(bytes: &[u8]) -> Vec<u8> {
    bytes[..bytes.len().min(24)].to_vec()
}

// ------------------------------------------------------------------------------------------
// corpus
// ------------------------------------------------------------------------------------------
struct Corpus {
    tfms: Vec<(String, Vec<u8>)>,
    pls: Vec<(String, String)>,
}

fn walk(dir: &std::path::Path, out: &mut Vec<std::path::PathBuf>) {
    let mut entries: Vec<_> = match std::fs::read_dir(dir) {
        Ok(rd) => rd.filter_map(|e| e.ok()).map(|e| e.path()).collect(),
        Err(_) => return,
    };
    entries.sort();
    for p in entries {
        if p.is_dir() {
            walk(&p, out);
        } else {
            out.push(p);
        }
    }
}

fn load_corpus(root: &str) -> Corpus {
    let rootp = std::path::Path::new(root);
    let mut files = vec![];
    walk(rootp, &mut files);
    let mut c = Corpus { tfms: vec![], pls: vec![] };
    for p in files {
        let rel = p.strip_prefix(rootp).unwrap().to_string_lossy().to_string();
        match p.extension().and_then(|e| e.to_str()) {
            Some("tfm") => {
                if let Ok(b) = std::fs::read(&p) {
                    c.tfms.push((rel, b));
                }
            }
            Some("pl") | Some("plst") => {
                // the tool reads the file with read_to_string: only UTF-8 text reaches the library
                if let Ok(s) = std::fs::read_to_string(&p) {
                    c.pls.push((rel, s));
                }
            }
            _ => {}
        }
    }
    if c.tfms.is_empty() || c.pls.is_empty() {
        eprintln!("no corpus under {root}");
        std::process::exit(2);
    }
    c
}

// ------------------------------------------------------------------------------------------
// c10-header (binding F)
// ------------------------------------------------------------------------------------------
fn set_word(b: &mut [u8], k: usize, v: u16) {
    b[2 * k] = (v >> 8) as u8;
    b[2 * k + 1] = (v & 255) as u8;
}
fn get_word(b: &[u8], k: usize) -> u16 {
    ((b[2 * k] as u16) << 8) | b[2 * k + 1] as u16
}
fn words_to_bytes(w: &[u16]) -> Vec<u8> {
    w.iter().flat_map(|x| x.to_be_bytes()).collect()
}

const BOUNDARY: &[u16] = &[
    0, 1, 2, 3, 4, 5, 6, 7, 8, 11, 12, 13, 14, 17, 18, 19, 63, 64, 127, 128, 129, 254, 255, 256, 257, 258, 511,
    512, 1023, 1024, 16383, 16384, 32510, 32511, 32765, 32766, 32767, 32768, 32769, 49152, 65534, 65535,
];

fn header_event(out: &mut Out, bytes: &[u8], mode: u8) {
    let r = catch(|| run_tfm_to_pl(bytes, mode));
    let b = hdr_of(bytes);
    let v = match r {
        Ok(o) => json!({"len": bytes.len(), "b": b, "kind": o.kind, "msg": o.msg, "junk": o.junk}),
        Err((file, line, msg)) => {
            json!({"len": bytes.len(), "b": b, "kind": "panic", "msg": msg, "junk": false, "file": file, "line": line})
        }
    };
    out.line(&v);
}

fn header(args: &Args) -> i32 {
    install_hook();
    if let Some(f) = args.str("file") {
        // replay of one input
        let bytes = std::fs::read(f).expect("read input file");
        let mut out = Out::new(args.str("out"));
        header_event(&mut out, &bytes, args.num("mode", 0));
        out.flush();
        return 0;
    }
    let corpus = load_corpus(args.req("corpus"));
    let seed: u64 = args.num("seed", 1);
    let thorough = args.str("tier") == Some("thorough");
    let per_word: usize = args.num("per_word", 480);
    let pairs: usize = args.num("pairs", if thorough { 200_000 } else { 5000 });
    let mut out = Out::new(args.str("out"));
    let mut rng = Rng::new(seed ^ 0xC10);

    // base files
    let mut bases: Vec<(String, Vec<u8>)> = vec![
        ("b16".into(), words_to_bytes(&[4, 2, 1, 0, 1, 1, 1, 1])),
        ("b24".into(), words_to_bytes(&[6, 2, 1, 0, 1, 1, 1, 1, 0, 0, 0, 0])),
        ("b28".into(), words_to_bytes(&[7, 2, 1, 0, 1, 1, 1, 1, 0, 0, 0, 0, 0, 0])),
        ("min48".into(), {
            let mut v = words_to_bytes(&[12, 2, 1, 0, 1, 1, 1, 1, 0, 0, 0, 0]);
            v.resize(48, 0);
            v
        }),
    ];
    // the smallest corpus font that the reader accepts, and cmr10 as a real font
    let mut smallest: Option<&(String, Vec<u8>)> = None;
    for t in &corpus.tfms {
        let ok = matches!(catch(|| run_tfm_to_pl(&t.1, 0)), Ok(ref o) if o.kind == "Ok");
        if ok && smallest.map(|s| t.1.len() < s.1.len()).unwrap_or(true) {
            smallest = Some(t);
        }
    }
    if let Some(s) = smallest {
        bases.push((format!("corpus:{}", s.0), s.1.clone()));
    }
    if let Some(t) = corpus.tfms.iter().find(|t| t.0.ends_with("cmr10.tfm")) {
        bases.push((format!("corpus:{}", t.0), t.1.clone()));
    }

    if args.str("bases").is_some() {
        println!("{}", bases.len());
        return 0;
    }
    // base=<i> restricts the run to one base file, base=pairs to the seeded multi-word overrides
    let only: Option<usize> = args.str("base").and_then(|s| s.parse().ok());
    let pairs_only = args.str("base") == Some("pairs");
    let mut mode = 0u8;
    for (bi, (name, base)) in bases.iter().enumerate() {
        if pairs_only || only.map(|o| o != bi).unwrap_or(false) {
            continue;
        }
        // the real font beyond the smallest one is swept with the seeded subset in both tiers
        let thorough = thorough && !name.ends_with("cmr10.tfm");
        // every short length (truncation) and a few extensions
        let maxlen = base.len().min(64);
        for n in 0..=maxlen {
            header_event(&mut out, &base[..n], mode);
        }
        for extra in 1..=8usize {
            let mut v = base.clone();
            v.resize(base.len() + extra, 0xAB);
            header_event(&mut out, &v, mode);
        }
        // every (or a seeded subset of the) value of each word
        for k in 0..12usize {
            if 2 * k + 2 > base.len() {
                continue;
            }
            let cur = get_word(base, k);
            let mut vals: Vec<u16> = vec![];
            if thorough {
                vals.extend(0..=u16::MAX);
            } else {
                vals.extend_from_slice(BOUNDARY);
                for d in -3i32..=3 {
                    vals.push((cur as i32 + d).rem_euclid(65536) as u16);
                }
                for _ in 0..per_word {
                    // half of the random values are small, where the interesting boundaries are
                    let v = if rng.chance(1, 2) { rng.below(600) } else { rng.below(65536) };
                    vals.push(v as u16);
                }
            }
            for v in vals {
                let mut f = base.clone();
                set_word(&mut f, k, v);
                mode = mode.wrapping_add(1);
                header_event(&mut out, &f, mode);
            }
        }
        if base.len() < 24 {
            continue;
        }
        // every pair of words against every pair of small boundary values (the order in which two
        // failing tests are reported), on the two short complete bases
        if name == "b24" || name == "min48" {
            const SMALL: &[u16] = &[0, 1, 2, 255, 256, 32767, 32768];
            for i in 0..12usize {
                for j in i + 1..12 {
                    for &vi in SMALL {
                        for &vj in SMALL {
                            let mut f = base.clone();
                            set_word(&mut f, i, vi);
                            set_word(&mut f, j, vj);
                            header_event(&mut out, &f, mode);
                        }
                    }
                }
            }
        }
        // compensated overrides: word k changes by d and another size word by -d, so that the
        // sizes still add up and the reader gets past the preamble with shifted tables
        for k in [1usize, 4, 5, 6, 7, 8, 9, 10, 11] {
            for j in [1usize, 4, 5, 6, 7, 8, 9, 10, 11] {
                if j == k {
                    continue;
                }
                for d in [-3i32, -2, -1, 1, 2, 3, 255, 256] {
                    let a = get_word(base, k) as i32 + d;
                    let c = get_word(base, j) as i32 - d;
                    if !(0..=65535).contains(&a) || !(0..=65535).contains(&c) {
                        continue;
                    }
                    let mut f = base.clone();
                    set_word(&mut f, k, a as u16);
                    set_word(&mut f, j, c as u16);
                    header_event(&mut out, &f, mode);
                }
            }
        }
        // bc/ec moved together (the range keeps its size) and the empty-range encodings
        for (bc, ec) in [(0u16, 0u16), (255, 255), (256, 255), (256, 256), (257, 256), (301, 300), (1, 0), (32767, 32766), (32767, 32767), (32768, 32767), (0, 65535), (2, 0)] {
            let size = get_word(base, 3) as i32 - get_word(base, 2) as i32 + 1;
            for keep in [false, true] {
                let mut f = base.clone();
                set_word(&mut f, 2, bc);
                let e = if keep { (bc as i32 + size - 1).rem_euclid(65536) as u16 } else { ec };
                set_word(&mut f, 3, e);
                header_event(&mut out, &f, mode);
            }
        }
        // ne at its limit with the sum kept right by lf (the file is then too short or has junk)
        for ne in [255u16, 256, 257] {
            for fix_lf in [false, true] {
                let mut f = base.clone();
                let d = ne as i32 - get_word(base, 10) as i32;
                set_word(&mut f, 10, ne);
                if fix_lf {
                    let lf = get_word(base, 0) as i32 + d;
                    if !(0..=32767).contains(&lf) {
                        continue;
                    }
                    set_word(&mut f, 0, lf as u16);
                    f.resize(4 * lf as usize, 0);
                }
                header_event(&mut out, &f, mode);
            }
        }
    }
    // seeded pairs / triples of boundary values on a base, with lf sometimes repaired so that
    // the sum test is reached with large sizes (i16 overflow region)
    let pairs = if only.is_some() { 0 } else { pairs };
    for _ in 0..pairs {
        let base = &bases[3 + rng.below((bases.len() - 3) as u64) as usize].1;
        let mut f = base[..base.len().min(256)].to_vec();
        let n = 2 + rng.below(3) as usize;
        for _ in 0..n {
            let k = rng.below(12) as usize;
            let v = if rng.chance(2, 3) { *rng.pick(BOUNDARY) } else { rng.below(65536) as u16 };
            set_word(&mut f, k, v);
        }
        match rng.below(4) {
            0 => {
                // make lf consistent when the exact sum fits 16 bits
                let w: Vec<i64> = (0..12).map(|k| get_word(&f, k) as i64).collect();
                let s = 6 + w[1] + (w[3] - w[2] + 1) + w[4] + w[5] + w[6] + w[7] + w[8] + w[9] + w[10] + w[11];
                if (0..=65535).contains(&s) {
                    set_word(&mut f, 0, s as u16);
                }
            }
            1 => {
                // the sum modulo 2^16 (what a wrapped i16 addition would compare with)
                let w: Vec<i64> = (0..12).map(|k| get_word(&f, k) as i64).collect();
                let s = 6 + w[1] + (w[3] - w[2] + 1) + w[4] + w[5] + w[6] + w[7] + w[8] + w[9] + w[10] + w[11];
                set_word(&mut f, 0, s.rem_euclid(65536) as u16);
            }
            _ => {}
        }
        // give the file the length it declares (capped) in half of the cases
        if rng.chance(1, 2) {
            let lf = get_word(&f, 0) as usize;
            if lf <= 32767 {
                f.resize((4 * lf).min(140_000), 0);
            }
        }
        header_event(&mut out, &f, mode);
    }
    out.flush();
    0
}

// ------------------------------------------------------------------------------------------
// c10-pipe (binding T): job plan
// ------------------------------------------------------------------------------------------
#[derive(Clone, Debug)]
enum JobKind {
    /// (corpus tfm index, class, parameter)
    Tfm(usize, &'static str, u64),
    /// (corpus pl index, class, parameter)
    Pl(usize, &'static str, u64),
    /// synthesised property list
    Synth(u64),
}

fn plan(corpus: &Corpus, thorough: bool, seed: u64, scale: f64) -> Vec<JobKind> {
    let mut jobs = vec![];
    let mut rng = Rng::new(seed ^ 0xC10_9192);
    for (i, (_, b)) in corpus.tfms.iter().enumerate() {
        jobs.push(JobKind::Tfm(i, "identity", 0));
        // truncations
        let n = b.len();
        if thorough {
            for len in 0..n {
                jobs.push(JobKind::Tfm(i, "trunc", len as u64));
            }
        } else {
            for len in 0..n.min(40) {
                jobs.push(JobKind::Tfm(i, "trunc", len as u64));
            }
            for _ in 0..((12.0 * scale) as usize) {
                jobs.push(JobKind::Tfm(i, "trunc", rng.below(n as u64)));
            }
        }
        // the other classes: counts shrink with the size of the font
        let weight = if n > 60_000 { 0.15 } else if n > 8_000 { 0.5 } else { 1.0 };
        let base = if thorough { 700.0 } else { 46.0 } * scale * weight;
        for (class, share) in [
            ("trunc_fix", 0.5),
            ("trunc_consistent", 1.0),
            ("bytes", 2.0),
            ("hdrstr", 0.6),
            ("section", 2.0),
            ("index", 2.0),
            ("shift", 1.0),
            ("word", 0.7),
            ("extend", 0.2),
            ("mix", 1.0),
        ] {
            for _ in 0..((base * share) as usize).max(1) {
                jobs.push(JobKind::Tfm(i, class, rng.next()));
            }
        }
    }
    for (i, (_, s)) in corpus.pls.iter().enumerate() {
        jobs.push(JobKind::Pl(i, "identity", 0));
        let n = s.len();
        let weight = if n > 400_000 { 0.04 } else if n > 100_000 { 0.15 } else if n > 30_000 { 0.5 } else { 1.0 };
        let base = if thorough { 150.0 } else { 70.0 } * scale * weight;
        for (class, share) in [
            ("token", 3.0),
            ("paren", 1.0),
            ("number", 1.5),
            ("label", 1.0),
            ("nest", 0.3),
            ("char", 0.5),
            ("dup", 0.4),
            ("trunc", 0.6),
            ("mix", 1.5),
        ] {
            for _ in 0..((base * share) as usize).max(1) {
                jobs.push(JobKind::Pl(i, class, rng.next()));
            }
        }
    }
    let nsynth = ((if thorough { 25_000.0 } else { 2500.0 }) * scale) as usize;
    for _ in 0..nsynth {
        jobs.push(JobKind::Synth(rng.next()));
    }
    // fonts just below, at and above the size limit (parameters below SIZE_BAND.len() are reserved for them)
    for k in 0..SIZE_BAND.len() + FULL_TABLE.len() {
        jobs.push(JobKind::Synth(k as u64));
    }
    jobs
}

// ------------------------------------------------------------------------------------------
// TFM mutations
// ------------------------------------------------------------------------------------------
const EDGE_BYTES: &[u8] = &[0, 1, 2, 3, 4, 15, 16, 63, 64, 127, 128, 129, 192, 254, 255];

/// Byte offsets of the eleven parts of a font whose preamble is consistent (else None).
fn sections(b: &[u8]) -> Option<Vec<(usize, usize)>> {
    if b.len() < 24 {
        return None;
    }
    let w: Vec<usize> = (0..12).map(|k| get_word(b, k) as usize).collect();
    if w[2] > w[3] + 1 {
        return None;
    }
    let sizes = [6, w[1], w[3] + 1 - w[2], w[4], w[5], w[6], w[7], w[8], w[9], w[10], w[11]];
    let mut r = vec![];
    let mut at = 0usize;
    for s in sizes {
        r.push((at, at + 4 * s));
        at += 4 * s;
    }
    if at > b.len() {
        return None;
    }
    Some(r)
}

fn mutate_bytes(b: &mut [u8], rng: &mut Rng, n: usize, lo: usize) {
    if b.len() <= lo {
        return;
    }
    for _ in 0..n {
        let i = lo + rng.below((b.len() - lo) as u64) as usize;
        b[i] = match rng.below(4) {
            0 => *rng.pick(EDGE_BYTES),
            1 => b[i] ^ (1 << rng.below(8)),
            2 => b[i].wrapping_add(1),
            _ => rng.below(256) as u8,
        };
    }
}

fn mutate_tfm(src: &[u8], class: &str, param: u64) -> Vec<u8> {
    let mut rng = Rng::new(param);
    let mut b = src.to_vec();
    match class {
        "identity" => {}
        "trunc" => b.truncate(param as usize),
        "trunc_fix" => {
            // cut at a word boundary and declare the new length
            let words = rng.below((b.len() / 4 + 1) as u64) as usize;
            b.truncate(4 * words);
            if b.len() >= 2 && words <= 32767 {
                set_word(&mut b, 0, words as u16);
            }
        }
        "trunc_consistent" => {
            // cut at a word boundary and shrink the trailing tables so that the sizes add up
            if let Some(sec) = sections(&b) {
                let total = sec[10].1 / 4;
                if total > 12 {
                    let mut cut = 1 + rng.below((total - 7) as u64) as usize;
                    cut = cut.min(total - 7);
                    let new_total = total - cut;
                    let mut remaining = cut;
                    for k in (1..12usize).rev() {
                        if k == 2 || k == 3 {
                            // shrink the character range from the top
                            let bc = get_word(&b, 2) as usize;
                            let ec = get_word(&b, 3) as usize;
                            if k == 3 && ec + 1 > bc {
                                let have = ec + 1 - bc;
                                let take = have.min(remaining);
                                let nec = ec + 1 - take;
                                if nec == 0 {
                                    set_word(&mut b, 2, 1);
                                    set_word(&mut b, 3, 0);
                                } else {
                                    set_word(&mut b, 3, (nec - 1) as u16);
                                }
                                remaining -= take;
                            }
                            continue;
                        }
                        let min = match k {
                            1 => 2,
                            4..=7 => 1,
                            _ => 0,
                        };
                        let have = get_word(&b, k) as usize;
                        let take = have.saturating_sub(min).min(remaining);
                        set_word(&mut b, k, (have - take) as u16);
                        remaining -= take;
                        if remaining == 0 {
                            break;
                        }
                    }
                    if remaining == 0 {
                        set_word(&mut b, 0, new_total as u16);
                        // remove the words from the end of the file: the tables slide
                        b.truncate(4 * new_total);
                    }
                }
            }
        }
        "bytes" => {
            let n = 1 + rng.below(6) as usize;
            mutate_bytes(&mut b, &mut rng, n, 24);
        }
        "hdrstr" => {
            // the two BCPL strings of the header (coding scheme: words 2..11, family: words 12..16):
            // the length byte and the first characters are set together (too long / empty / exact
            // length x non-ASCII, parenthesis, control and lower-case characters)
            let lh = get_word(&b, 1) as usize;
            let chars: &[u8] = &[0x80, 0xFF, 0xC3, 0xA9, b'(', b')', 0, 0x1F, 0x7F, b'a', b'A', b' ', b'~', 0x9F, 0xE9];
            for (at, words, lens) in [(32usize, 10usize, &[0u8, 1, 2, 38, 39, 40, 41, 100, 128, 255][..]), (72, 5, &[0u8, 1, 18, 19, 20, 21, 40, 128, 255][..])] {
                if 24 + 4 * lh < at + 4 * words || b.len() < at + 4 * words || !rng.chance(3, 4) {
                    continue;
                }
                b[at] = *rng.pick(lens);
                let n = match rng.below(4) {
                    0 => 1,
                    1 => 2,
                    2 => 4 * words - 1,
                    _ => 1 + rng.below(4 * words as u64 - 1) as usize,
                };
                for k in 0..n {
                    if k == 0 || rng.chance(1, 2) {
                        b[at + 1 + k] = *rng.pick(chars);
                    }
                }
            }
        }
        "section" => {
            // choose a table uniformly (not a byte uniformly), then damage a few bytes in it
            if let Some(sec) = sections(&b) {
                let nonempty: Vec<_> = sec.iter().skip(1).filter(|(a, z)| z > a).collect();
                if !nonempty.is_empty() {
                    let (a, z) = **rng.pick(&nonempty);
                    for _ in 0..1 + rng.below(8) {
                        let i = a + rng.below((z - a) as u64) as usize;
                        b[i] = if rng.chance(1, 2) { *rng.pick(EDGE_BYTES) } else { rng.below(256) as u8 };
                    }
                }
            } else {
                mutate_bytes(&mut b, &mut rng, 3, 0);
            }
        }
        "index" => {
            // put an index (into the width/height/depth/italic/lig-kern/kern/exten tables, or a
            // character code) exactly at, just below or just above the end of what it indexes
            if let Some(sec) = sections(&b) {
                let w: Vec<usize> = (0..12).map(|k| get_word(&b, k) as usize).collect();
                let (bc, ec, nw, nh, nd, ni, nl, nk, ne) = (w[2], w[3], w[4], w[5], w[6], w[7], w[8], w[9], w[10]);
                let around = |rng: &mut Rng, n: usize, max: usize| -> usize {
                    let v = match rng.below(5) {
                        0 => n.saturating_sub(1),
                        1 => n,
                        2 => n + 1,
                        3 => max,
                        _ => 0,
                    };
                    v.min(max)
                };
                for _ in 0..1 + rng.below(3) {
                    let nchars = (ec + 1).saturating_sub(bc);
                    match rng.below(if nl > 0 { 8 } else { 3 }) {
                        0 | 1 if nchars > 0 => {
                            let at = sec[2].0 + 4 * rng.below(nchars as u64) as usize;
                            match rng.below(7) {
                                0 => b[at] = around(&mut rng, nw, 255) as u8,
                                1 => b[at + 1] = ((around(&mut rng, nh, 15) as u8) << 4) | (b[at + 1] & 15),
                                2 => b[at + 1] = (b[at + 1] & 0xF0) | around(&mut rng, nd, 15) as u8,
                                3 => b[at + 2] = ((around(&mut rng, ni, 63) as u8) << 2) | (b[at + 2] & 3),
                                4 => {
                                    b[at + 2] = (b[at + 2] & 0xFC) | 1;
                                    b[at + 3] = around(&mut rng, nl, 255) as u8;
                                }
                                5 => {
                                    b[at + 2] = (b[at + 2] & 0xFC) | 3;
                                    b[at + 3] = around(&mut rng, ne, 255) as u8;
                                }
                                _ => {
                                    b[at + 2] = (b[at + 2] & 0xFC) | 2;
                                    b[at + 3] = *rng.pick(&[bc.saturating_sub(1), bc, ec, (ec + 1).min(255), 0, 255]) as u8;
                                }
                            }
                            if b[at] == 0 && rng.chance(1, 2) {
                                b[at] = 1; // make the character exist so that its tag is looked at
                            }
                        }
                        2 if ne > 0 => {
                            let at = sec[9].0 + 4 * rng.below(ne as u64) as usize + rng.below(4) as usize;
                            b[at] = *rng.pick(&[bc.saturating_sub(1), bc, ec, (ec + 1).min(255), 0, 255]) as u8;
                        }
                        _ if nl > 0 => {
                            // a lig/kern instruction: the first, the last or any other
                            let i = match rng.below(3) {
                                0 => 0,
                                1 => nl - 1,
                                _ => rng.below(nl as u64) as usize,
                            };
                            let at = sec[7].0 + 4 * i;
                            let target = |v: usize| ((v >> 8) as u8, (v & 255) as u8);
                            match rng.below(5) {
                                0 => {
                                    // boundary-character / redirect instruction pointing around nl
                                    let (h, l) = target(around(&mut rng, nl, 65535));
                                    b[at] = *rng.pick(&[255u8, 254, 129]);
                                    b[at + 2] = h;
                                    b[at + 3] = l;
                                }
                                1 => {
                                    // kern step with an index around nk
                                    let (h, l) = target(around(&mut rng, nk, 32767));
                                    b[at] = *rng.pick(&[0u8, 128]);
                                    b[at + 2] = 128u8.saturating_add(h.min(127));
                                    b[at + 3] = l;
                                }
                                2 => {
                                    // skip that lands around the end of the table
                                    let left = nl - 1 - i;
                                    b[at] = *rng.pick(&[left.saturating_sub(1), left, left + 1, 127, 128]).min(&255) as u8;
                                }
                                3 => {
                                    // ligature step producing / expecting a character around the range
                                    b[at + 1] = *rng.pick(&[bc.saturating_sub(1), bc, ec, (ec + 1).min(255)]) as u8;
                                    b[at + 2] = rng.below(12) as u8;
                                    b[at + 3] = *rng.pick(&[bc.saturating_sub(1), bc, ec, (ec + 1).min(255)]) as u8;
                                }
                                _ => {
                                    b[at] = *rng.pick(EDGE_BYTES);
                                    b[at + 2] = *rng.pick(EDGE_BYTES);
                                }
                            }
                        }
                        _ => {}
                    }
                }
            } else {
                mutate_bytes(&mut b, &mut rng, 2, 24);
            }
        }
        "shift" => {
            // move a table boundary: one size +d, another -d (the sum is unchanged)
            if b.len() >= 24 {
                let ks = [1usize, 4, 5, 6, 7, 8, 9, 10, 11];
                let k = *rng.pick(&ks);
                let j = *rng.pick(&ks);
                let span = if rng.chance(1, 4) { 300 } else { 4 };
                let d = 1 + rng.below(span) as i32;
                let a = get_word(&b, k) as i32 + d;
                let c = get_word(&b, j) as i32 - d;
                if k != j && a <= 32767 && c >= 0 {
                    set_word(&mut b, k, a as u16);
                    set_word(&mut b, j, c as u16);
                }
                if rng.chance(1, 3) {
                    // and move bc..ec as a block
                    let bc = get_word(&b, 2) as i32;
                    let ec = get_word(&b, 3) as i32;
                    let d = rng.range(-(bc.min(40)) as i64, (255 - ec).clamp(0, 40) as i64) as i32;
                    if ec >= bc && ec + d <= 255 && bc + d >= 0 {
                        set_word(&mut b, 2, (bc + d) as u16);
                        set_word(&mut b, 3, (ec + d) as u16);
                    }
                }
            }
        }
        "word" => {
            if b.len() >= 24 {
                let k = rng.below(12) as usize;
                let v = if rng.chance(2, 3) { *rng.pick(BOUNDARY) } else { rng.below(65536) as u16 };
                set_word(&mut b, k, v);
            }
        }
        "extend" => {
            let n = 1 + rng.below(9) as usize;
            for _ in 0..n {
                b.push(rng.below(256) as u8);
            }
        }
        _ => {
            // mix: two or three of the above
            for _ in 0..2 + rng.below(2) {
                let c = *rng.pick(&["bytes", "section", "index", "shift", "trunc_consistent", "extend", "index", "hdrstr"]);
                b = mutate_tfm(&b, c, rng.next());
            }
        }
    }
    b
}

// ------------------------------------------------------------------------------------------
// PL mutations (token level)
// ------------------------------------------------------------------------------------------
fn tokenize(s: &str) -> Vec<String> {
    let mut toks = vec![];
    let mut cur = String::new();
    let mut cur_ws: Option<bool> = None;
    for c in s.chars() {
        if c == '(' || c == ')' {
            if !cur.is_empty() {
                toks.push(std::mem::take(&mut cur));
            }
            cur_ws = None;
            toks.push(c.to_string());
            continue;
        }
        let ws = c.is_whitespace();
        if cur_ws != Some(ws) && !cur.is_empty() {
            toks.push(std::mem::take(&mut cur));
        }
        cur_ws = Some(ws);
        cur.push(c);
    }
    if !cur.is_empty() {
        toks.push(cur);
    }
    toks
}

fn is_ws(t: &str) -> bool {
    t.chars().all(|c| c.is_whitespace())
}

const VOCAB: &[&str] = &[
    "CHECKSUM", "DESIGNSIZE", "DESIGNUNITS", "CODINGSCHEME", "FAMILY", "FACE", "SEVENBITSAFEFLAG", "HEADER",
    "FONTDIMEN", "LIGTABLE", "BOUNDARYCHAR", "CHARACTER", "PARAMETER", "SLANT", "SPACE", "STRETCH", "SHRINK",
    "XHEIGHT", "QUAD", "EXTRASPACE", "NUM1", "NUM2", "NUM3", "DENOM1", "DENOM2", "SUP1", "SUP2", "SUP3", "SUB1",
    "SUB2", "SUPDROP", "SUBDROP", "DELIM1", "DELIM2", "AXISHEIGHT", "DEFAULTRULETHICKNESS", "BIGOPSPACING1",
    "BIGOPSPACING2", "BIGOPSPACING3", "BIGOPSPACING4", "BIGOPSPACING5", "LABEL", "STOP", "SKIP", "KRN", "LIG",
    "/LIG", "/LIG>", "LIG/", "LIG/>", "/LIG/", "/LIG/>", "/LIG/>>", "CHARWD", "CHARHT", "CHARDP", "CHARIC",
    "NEXTLARGER", "VARCHAR", "TOP", "MID", "BOT", "REP", "COMMENT", "", "checksum", "LIGTABLEX",
];

const NUMBERS: &[&str] = &[
    "D 0", "D 1", "D 17", "D 18", "D 127", "D 128", "D 254", "D 255", "D 256", "D 257", "D 1000", "D 65536",
    "D 4294967295", "D 4294967296", "D 99999999999999999999", "D -1", "D 1.5", "D", "O 0", "O 177", "O 200",
    "O 377", "O 400", "O 777", "O 37777777777", "O 40000000000", "O 777777777777777777777777", "O 8", "O 9",
    "H 0", "H 7F", "H 80", "H FF", "H 100", "H FFFFFFFF", "H 100000000", "H FFFFFFFFFFFFFFFFFF", "H G", "H ff",
    "R 0", "R 0.0", "R -0.0", "R 1.0", "R 0.5", "R 0.9999999", "R 1.0000001", "R 15.9999999", "R 16.0",
    "R 2047.9999999", "R 2048.0", "R 2048", "R -2047.9999999", "R -2048.0", "R 99999999999.0", "R -99999999999.0",
    "R 0.00000000000000000001", "R 1.99999999999999999999999999", "R", "R .", "R -", "R +", "R +1.0", "R --1.0",
    "R -+1.0", "R 1e10", "R 1.", "R .5", "R 1.0.0", "C A", "C a", "C 0", "C (", "C )", "C", "C AB", "C ~",
    "F MRR", "F BIE", "F LIC", "F XXX", "F", "F M", "TRUE", "FALSE", "T", "F", "MAYBE", "X 12", "12", "-",
];

fn pick_nonws(toks: &[String], rng: &mut Rng) -> Option<usize> {
    if toks.is_empty() {
        return None;
    }
    for _ in 0..20 {
        let i = rng.below(toks.len() as u64) as usize;
        if !is_ws(&toks[i]) {
            return Some(i);
        }
    }
    None
}

fn pick_word(toks: &[String], rng: &mut Rng) -> Option<usize> {
    if toks.is_empty() {
        return None;
    }
    for _ in 0..30 {
        let i = rng.below(toks.len() as u64) as usize;
        if !is_ws(&toks[i]) && toks[i] != "(" && toks[i] != ")" {
            return Some(i);
        }
    }
    None
}

/// index range [i, j] of a balanced group starting at an opening parenthesis
fn group_at(toks: &[String], i: usize) -> Option<(usize, usize)> {
    if toks.get(i).map(|s| s.as_str()) != Some("(") {
        return None;
    }
    let mut depth = 0i64;
    for (j, t) in toks.iter().enumerate().skip(i) {
        if t == "(" {
            depth += 1;
        } else if t == ")" {
            depth -= 1;
            if depth == 0 {
                return Some((i, j));
            }
        }
    }
    None
}

fn char_spec(rng: &mut Rng) -> String {
    match rng.below(6) {
        0 => format!("O {:o}", rng.below(256)),
        1 => format!("D {}", rng.below(256)),
        2 => format!("H {:X}", rng.below(256)),
        3 => format!("C {}", (b'!' + rng.below(94) as u8) as char),
        4 => "O 0".to_string(),
        _ => "O 377".to_string(),
    }
}

fn lig_row(rng: &mut Rng) -> String {
    match rng.below(6) {
        0 => format!("(KRN {} R {}.{})", char_spec(rng), rng.range(-3, 3), rng.below(1000)),
        1 => format!("({} {} {})", rng.pick(&["LIG", "/LIG", "/LIG>", "LIG/", "LIG/>", "/LIG/", "/LIG/>", "/LIG/>>"]), char_spec(rng), char_spec(rng)),
        2 => "(STOP)".to_string(),
        3 => format!("(SKIP D {})", rng.pick(&[0u32, 1, 2, 5, 127, 128, 255, 256])),
        4 => format!("(LABEL {})", char_spec(rng)),
        _ => "(LABEL BOUNDARYCHAR)".to_string(),
    }
}

fn ligtable_snippet(rng: &mut Rng, first_label: &str) -> String {
    let mut s = format!("(LIGTABLE\n   (LABEL {first_label})\n");
    for _ in 0..1 + rng.below(5) {
        s.push_str("   ");
        s.push_str(&lig_row(rng));
        s.push('\n');
    }
    s.push_str("   )\n");
    s
}

fn nest_depth(rng: &mut Rng, thorough_scale: bool) -> usize {
    // (every unbalanced parenthesis is a warning, and the tools render each warning with a scan
    // of the source: the cost is quadratic, so the deep cases are rare)
    let small = [1usize, 2, 3, 10, 30, 100, 300];
    let medium = [1000usize, 3000];
    let big = [10_000usize, 50_000, 100_000, 200_000];
    if thorough_scale && rng.chance(1, 40) {
        *rng.pick(&big)
    } else if rng.chance(1, 8) {
        *rng.pick(&medium)
    } else {
        *rng.pick(&small)
    }
}

fn mutate_pl(src: &str, class: &str, param: u64, deep: bool) -> String {
    let mut rng = Rng::new(param);
    let mut toks = tokenize(src);
    let classes = ["token", "paren", "number", "label", "nest", "char", "dup", "trunc"];
    let rounds = if class == "mix" { 2 + rng.below(3) as usize } else { 1 };
    for _ in 0..rounds {
        let c: &str = if class == "mix" { *rng.pick(&classes[..]) } else { class };
        match c {
            "identity" => {}
            "token" => {
                for _ in 0..1 + rng.below(3) {
                    match rng.below(5) {
                        0 => {
                            if let Some(i) = pick_nonws(&toks, &mut rng) {
                                toks.remove(i);
                            }
                        }
                        1 => {
                            if let Some(i) = pick_nonws(&toks, &mut rng) {
                                let t = toks[i].clone();
                                toks.insert(i, " ".into());
                                toks.insert(i, t);
                            }
                        }
                        2 => {
                            if let (Some(i), Some(j)) = (pick_nonws(&toks, &mut rng), pick_nonws(&toks, &mut rng)) {
                                toks.swap(i, j);
                            }
                        }
                        3 => {
                            if let Some(i) = pick_word(&toks, &mut rng) {
                                toks[i] = rng.pick(VOCAB).to_string();
                            }
                        }
                        _ => {
                            if let (Some(i), Some(j)) = (pick_word(&toks, &mut rng), pick_word(&toks, &mut rng)) {
                                toks[i] = toks[j].clone();
                            }
                        }
                    }
                }
            }
            "paren" => {
                for _ in 0..1 + rng.below(3) {
                    match rng.below(4) {
                        0 => {
                            let i = rng.below(toks.len() as u64 + 1) as usize;
                            toks.insert(i, "(".into());
                        }
                        1 => {
                            let i = rng.below(toks.len() as u64 + 1) as usize;
                            toks.insert(i, ")".into());
                        }
                        _ => {
                            let ps: Vec<usize> = (0..toks.len()).filter(|&i| toks[i] == "(" || toks[i] == ")").collect();
                            if !ps.is_empty() {
                                let i = *rng.pick(&ps);
                                toks.remove(i);
                            }
                        }
                    }
                }
            }
            "number" => {
                // without a CHECKSUM property the check sum is computed from the character widths
                // (PLtoTF.2014.134): extreme widths are only seen by that code if it is dropped
                if rng.chance(1, 2) {
                    if let Some(i) = (1..toks.len()).find(|&i| toks[i] == "CHECKSUM" && toks[i - 1] == "(") {
                        if let Some((a, z)) = group_at(&toks, i - 1) {
                            toks.drain(a..=z);
                        }
                    }
                    let wd: Vec<usize> = (0..toks.len().saturating_sub(4)).filter(|&i| toks[i] == "CHARWD").collect();
                    for _ in 0..rng.below(3) {
                        if !wd.is_empty() {
                            let i = *rng.pick(&wd);
                            if toks[i + 2] == "R" && i + 4 < toks.len() {
                                toks[i + 4] = rng
                                    .pick(&["2047.9999999", "-2047.9999999", "2047.0", "-300.0", "-1.0", "-16.5", "1024.0", "-1024.0"])
                                    .to_string();
                            }
                        }
                    }
                }
                for _ in 0..1 + rng.below(3) {
                    // replace "<prefix> <digits>" (two word tokens separated by white space) or one word
                    let idx: Vec<usize> = (0..toks.len().saturating_sub(2))
                        .filter(|&i| matches!(toks[i].as_str(), "D" | "O" | "H" | "R" | "C" | "F") && is_ws(&toks[i + 1]))
                        .collect();
                    if !idx.is_empty() && rng.chance(4, 5) {
                        let i = *rng.pick(&idx);
                        let rep = rng.pick(NUMBERS).to_string();
                        toks[i] = rep;
                        toks[i + 1] = " ".into();
                        if i + 2 < toks.len() && toks[i + 2] != "(" && toks[i + 2] != ")" {
                            toks[i + 2] = String::new();
                        }
                    } else if let Some(i) = pick_word(&toks, &mut rng) {
                        toks[i] = rng.pick(NUMBERS).to_string();
                    }
                }
            }
            "label" => {
                // LIGTABLE labels for characters that are not declared / lie below the first CHARACTER
                let c = match rng.below(5) {
                    0 => "O 0".to_string(),
                    1 => "O 1".to_string(),
                    2 => "O 377".to_string(),
                    3 => "BOUNDARYCHAR".to_string(),
                    _ => char_spec(&mut rng),
                };
                let snippet = ligtable_snippet(&mut rng, &c);
                let lt: Vec<usize> = (0..toks.len()).filter(|&i| toks[i] == "LIGTABLE").collect();
                if !lt.is_empty() && rng.chance(1, 2) {
                    // add a label row inside an existing LIGTABLE
                    let i = *rng.pick(&lt);
                    let row = format!(" (LABEL {c}) {} ", lig_row(&mut rng));
                    toks.insert(i + 1, row);
                } else if rng.chance(1, 2) {
                    toks.insert(0, snippet);
                } else {
                    toks.push(snippet);
                }
            }
            "nest" => {
                let n = nest_depth(&mut rng, deep);
                let i = rng.below(toks.len() as u64 + 1) as usize;
                let word = rng.pick(&["", "COMMENT ", "CHARACTER C A ", "LIGTABLE ", "X ", "FONTDIMEN "]);
                let mut s = String::new();
                for _ in 0..n {
                    s.push('(');
                    s.push_str(word);
                }
                // every unbalanced parenthesis costs one warning whose rendering scans the source:
                // beyond a few thousand levels only (nearly) balanced nests are generated
                let closers = match rng.below(3) {
                    _ if n > 3000 => n - rng.below(3) as usize,
                    0 => 0,
                    1 => n,
                    _ => n / 2,
                };
                s.push_str(&")".repeat(closers));
                toks.insert(i, s);
            }
            "char" => {
                let weird = ['\u{e9}', '\t', '\r', '\u{0}', '\u{1F600}', '\u{7f}', '\u{a0}', '\u{2028}', '~', '\\', '"'];
                for _ in 0..1 + rng.below(3) {
                    if let Some(i) = pick_nonws(&toks, &mut rng) {
                        let ch = *rng.pick(&weird);
                        let t: Vec<char> = toks[i].chars().collect();
                        let at = rng.below(t.len() as u64 + 1) as usize;
                        let mut s: String = t[..at].iter().collect();
                        s.push(ch);
                        s.extend(t[at..].iter());
                        toks[i] = s;
                    }
                }
            }
            "dup" => {
                // repeat a whole balanced group many times (limits: 256 characters, table sizes)
                let opens: Vec<usize> = (0..toks.len()).filter(|&i| toks[i] == "(").collect();
                if !opens.is_empty() {
                    let i = *rng.pick(&opens);
                    if let Some((a, z)) = group_at(&toks, i) {
                        let text: String = toks[a..=z].concat();
                        if text.len() < 4000 {
                            let times = *rng.pick(&[2usize, 3, 17, 70, 260, 600]);
                            let times = if deep && rng.chance(1, 10) { 3_000 } else { times };
                            // (a warning per copy, each rendered with a scan of the source: keep the
                            // product of copies and size bounded)
                            let cap = 200_000 / text.len().max(1);
                            let rep = format!("{text}\n").repeat(times.min(cap).max(1));
                            toks.insert(a, rep);
                        }
                    }
                }
            }
            _ => {
                // "trunc": cut the text at a token boundary (or inside a token)
                if !toks.is_empty() {
                    let i = rng.below(toks.len() as u64) as usize;
                    toks.truncate(i + 1);
                    match rng.below(6) {
                        0 | 1 => {
                            let t: Vec<char> = toks[i].chars().collect();
                            let at = rng.below(t.len() as u64 + 1) as usize;
                            toks[i] = t[..at].iter().collect();
                        }
                        // the text ends with a line end / blanks right after the cut (a property name
                        // whose data is missing at the very end of the file)
                        2 => toks.push("\n".into()),
                        3 => toks.push(rng.pick(&[" ", " \n", "\n\n", "\r\n", "\n "]).to_string()),
                        _ => {}
                    }
                }
            }
        }
    }
    toks.concat()
}

// ------------------------------------------------------------------------------------------
// synthesised property lists
// ------------------------------------------------------------------------------------------
fn real(rng: &mut Rng) -> String {
    match rng.below(10) {
        0 => "R 0.0".into(),
        1 => "R 2047.9999999".into(),
        2 => "R -2047.9999999".into(),
        3 => "R 2048.0".into(),
        4 => format!("R {}.{:06}", rng.range(-16, 16), rng.below(1_000_000)),
        5 => format!("R {}.{}", rng.range(-2047, 2047), rng.below(10)),
        _ => format!("R {}.{:03}", rng.range(0, 3), rng.below(1000)),
    }
}

/// Fonts at the size limit of the format (32767 words): one character and a lig/kern program of n KRN
/// steps with pairwise distinct kern values, so that nl = nk = n and the file has 30 + 2n words.
/// n = 16368 is the largest font that fits; above it pl_to_tfm must still return something readable.
const SIZE_BAND: [usize; 8] = [16360, 16368, 16369, 16370, 16376, 16383, 16384, 16390];

fn size_band_pl(n: usize) -> String {
    let mut s = String::from("(CHARACTER C A (CHARWD R 1.0))\n(LIGTABLE\n (LABEL C A)\n");
    for r in 0..n {
        s.push_str(&format!(" (KRN O {:o} R {}.{:03})\n", r % 256, r / 1000, r % 1000));
    }
    s.push_str(" (STOP)\n )\n");
    s
}

/// Lig/kern tables at the capacity of the format: `n` steps, every one of the 256 characters labelled at a
/// location of its own beyond 255 (256 redirect words are prepended) and a LABEL BOUNDARYCHAR (one more word):
/// with n = 32510 = i16::MAX - 257 the written table has exactly 32767 words.
const FULL_TABLE: [usize; 4] = [32_500, 32_510, 32_511, 32_512];

fn full_table_pl(n: usize) -> String {
    let mut s = String::from("(BOUNDARYCHAR O 40)\n");
    for c in 0..256 {
        s.push_str(&format!("(CHARACTER O {:o} (CHARWD R 1.0))\n", c));
    }
    s.push_str("(LIGTABLE\n (LABEL BOUNDARYCHAR)\n");
    let mut steps = 0usize;
    for r in 0..300 {
        s.push_str(&format!(" (KRN O {:o} R 0.{})\n", r % 256, 1 + r % 5));
        steps += 1;
    }
    s.push_str(" (STOP)\n");
    for c in 0..256 {
        s.push_str(&format!(" (LABEL O {:o})\n (KRN O {:o} R 0.{})\n (STOP)\n", c, (c + 1) % 256, 1 + c % 5));
        steps += 1;
    }
    s.push_str(" (LABEL O 0)\n");
    while steps < n {
        s.push_str(&format!(" (KRN O {:o} R 0.{})\n", steps % 256, 1 + steps % 5));
        steps += 1;
    }
    s.push_str(" (STOP)\n )\n");
    s
}

fn synth_pl(param: u64, deep: bool) -> String {
    if (param as usize) < SIZE_BAND.len() {
        return size_band_pl(SIZE_BAND[param as usize]);
    }
    if (param as usize) < SIZE_BAND.len() + FULL_TABLE.len() {
        return full_table_pl(FULL_TABLE[param as usize - SIZE_BAND.len()]);
    }
    let mut rng = Rng::new(param);
    let mut s = String::new();
    let mut push = |s: &mut String, line: String| {
        s.push_str(&line);
        s.push('\n');
    };
    if rng.chance(1, 2) {
        push(&mut s, format!("(FAMILY {})", "F".repeat(*rng.pick(&[0usize, 1, 19, 20, 21, 40, 300]))));
    }
    if rng.chance(1, 2) {
        push(&mut s, format!("(CODINGSCHEME {})", rng.pick(&["TEX MATH SYMBOLS", "TeX math extension", "X", "", "AAAAAAAAAAAAAAAAAAAAAAAAAAAAAAAAAAAAAAAAAAAAAAAA"])));
    }
    if rng.chance(1, 2) {
        push(&mut s, format!("(DESIGNSIZE {})", rng.pick(&["R 10.0", "R 0.5", "R 1.0", "R 0.9999999", "R 2047.9999999", "R -1.0", "R 0.0", "D 10"])));
    }
    if rng.chance(1, 3) {
        push(&mut s, format!("(DESIGNUNITS {})", rng.pick(&["R 1.0", "R 1000.0", "R 0.0", "R -1.0", "R 0.0000001", "R 2047.0", "R 18.0"])));
    }
    if rng.chance(1, 3) {
        push(&mut s, format!("(CHECKSUM O {:o})", rng.next() & 0xFFFF_FFFF));
    }
    if rng.chance(1, 3) {
        push(&mut s, format!("(FACE {})", rng.pick(&["F MRR", "F BIE", "O 22", "D 255", "D 256", "F LLL"])));
    }
    if rng.chance(1, 3) {
        push(&mut s, format!("(SEVENBITSAFEFLAG {})", rng.pick(&["TRUE", "FALSE", "T", "X"])));
    }
    for _ in 0..rng.below(3) {
        push(&mut s, format!("(HEADER D {} O {:o})", rng.pick(&[0u32, 17, 18, 19, 30, 100, 254, 255, 256, 1000]), rng.below(1 << 32)));
    }
    if rng.chance(1, 3) {
        push(&mut s, format!("(BOUNDARYCHAR {})", char_spec(&mut rng)));
    }
    if rng.chance(1, 2) {
        s.push_str("(FONTDIMEN\n");
        for _ in 0..rng.below(6) {
            match rng.below(3) {
                0 => push(&mut s, format!("   ({} {})", rng.pick(&["SLANT", "SPACE", "STRETCH", "SHRINK", "XHEIGHT", "QUAD", "EXTRASPACE", "NUM1", "BIGOPSPACING5", "DEFAULTRULETHICKNESS"]), real(&mut rng))),
                _ => push(&mut s, format!("   (PARAMETER D {} {})", rng.pick(&[0u32, 1, 2, 7, 8, 22, 30, 100, 253, 254, 255, 256, 300]), real(&mut rng))),
            }
        }
        s.push_str("   )\n");
    }
    // characters
    let nchars = *rng.pick(&[0usize, 1, 2, 3, 5, 17, 64, 128, 256]);
    let first = if nchars >= 256 { 0 } else { rng.below((256 - nchars) as u64 + 1) as usize };
    let pool = *rng.pick(&[1usize, 2, 15, 16, 17, 63, 64, 65, 255, 256, 300]);
    let mut vals: Vec<String> = (0..pool).map(|i| format!("R {}.{:04}", i / 7, (i * 1237 + rng.below(3) as usize) % 10000)).collect();
    // one list in five also has negative and very large dimensions (the check sum of a list without
    // CHECKSUM, the table compression and the fix-word packing see them)
    if rng.chance(1, 12) {
        // the whole pool spread over the legal range (-2048, 2048), or packed at one end of it:
        // the gaps and midpoints of the table compression then exceed a fix word
        let mode = rng.below(3);
        for (i, v) in vals.iter_mut().enumerate() {
            let x = match mode {
                0 => -2047 + ((i as i64 * 4094) / (pool.max(2) as i64 - 1)),
                1 => 2047 - (i as i64 % 40),
                _ => -2047 + (i as i64 % 40),
            };
            *v = format!("R {}.{}", x, rng.below(10));
        }
    } else if rng.chance(1, 5) {
        for _ in 0..1 + rng.below(4) {
            let k = rng.below(vals.len() as u64) as usize;
            vals[k] = real(&mut rng);
        }
    }
    let tagmode = rng.below(6);
    // half of the lists give character i the i-th value of the pool, so that the number of distinct
    // widths/heights/depths/italics is exactly min(#characters, pool): the table limits 255/15/15/63
    // are then hit exactly and exceeded by one
    let cycle = rng.chance(1, 2);
    let mut declared: Vec<usize> = vec![];
    for i in 0..nchars {
        let c = if rng.chance(1, 12) { rng.below(256) as usize } else { first + i };
        declared.push(c);
        s.push_str(&format!("(CHARACTER O {:o}\n", c));
        if cycle || rng.chance(9, 10) {
            let v = if cycle { &vals[i % vals.len()] } else { rng.pick(&vals) };
            push(&mut s, format!("   (CHARWD {})", v));
        }
        if cycle || rng.chance(2, 3) {
            let v = if cycle { &vals[i % vals.len()] } else { rng.pick(&vals) };
            push(&mut s, format!("   (CHARHT {})", v));
        }
        if cycle || rng.chance(1, 2) {
            let v = if cycle { &vals[i % vals.len()] } else { rng.pick(&vals) };
            push(&mut s, format!("   (CHARDP {})", v));
        }
        if cycle || rng.chance(1, 2) {
            let v = if cycle { &vals[i % vals.len()] } else { rng.pick(&vals) };
            push(&mut s, format!("   (CHARIC {})", v));
        }
        match tagmode {
            0 if rng.chance(1, 2) => {
                // next-larger chains, loops and references to missing characters
                let target = match rng.below(4) {
                    0 => c,
                    1 => (c + 1) % 256,
                    2 => first,
                    _ => rng.below(256) as usize,
                };
                push(&mut s, format!("   (NEXTLARGER O {:o})", target));
            }
            1 | 2 => {
                if tagmode == 1 || rng.chance(1, 3) {
                    s.push_str("   (VARCHAR\n");
                    for part in ["TOP", "MID", "BOT", "REP"] {
                        if rng.chance(2, 3) {
                            push(&mut s, format!("      ({part} {})", char_spec(&mut rng)));
                        }
                    }
                    s.push_str("      )\n");
                }
            }
            _ => {}
        }
        s.push_str("   )\n");
    }
    // lig/kern programs
    if rng.chance(3, 4) {
        let tables = 1 + rng.below(2);
        for _ in 0..tables {
            s.push_str("(LIGTABLE\n");
            let rows = if deep && rng.chance(1, 400) {
                *rng.pick(&[32_000usize, 32_510, 32_511, 33_000, 36_000])
            } else {
                *rng.pick(&[0usize, 1, 2, 5, 20, 100, 300, 700])
            };
            for r in 0..rows {
                let row = if rows > 1000 {
                    // cheap rows for the huge tables
                    format!("(KRN O {:o} R {}.{})", r % 256, r % 7, r % 1000)
                } else if !declared.is_empty() && rng.chance(1, 4) {
                    format!("(LABEL O {:o})", rng.pick(&declared))
                } else if rng.chance(1, 6) {
                    format!("(KRN {} R {}.{:05})", char_spec(&mut rng), rng.range(-2, 2), rng.below(100000))
                } else {
                    lig_row(&mut rng)
                };
                s.push_str("   ");
                s.push_str(&row);
                s.push('\n');
            }
            s.push_str("   )\n");
        }
    }
    if rng.chance(1, 8) {
        s = mutate_pl(&s, "mix", rng.next(), false);
    }
    s
}

// ------------------------------------------------------------------------------------------
// c10-pipe runner
// ------------------------------------------------------------------------------------------
struct Shared {
    out: Mutex<Out>,
    started_ms: AtomicU64,
    job: AtomicU64,
}

fn now_ms() -> u64 {
    std::time::SystemTime::now()
        .duration_since(std::time::UNIX_EPOCH)
        .unwrap()
        .as_millis() as u64
}

fn emit(sh: &Shared, v: Value, flush: bool) {
    let mut o = sh.out.lock().unwrap();
    o.line(&v);
    if flush {
        o.flush();
    }
}

/// One call of tfm_to_pl as a pair of events.
fn traced_tfm_to_pl(sh: &Shared, bytes: &[u8], src: &str, mode: u8) {
    emit(sh, json!({"ev":"call","f":"tfm_to_pl","len":bytes.len(),"hdr":hdr_of(bytes),"src":src}), true);
    let t = std::time::Instant::now();
    match catch(|| run_tfm_to_pl(bytes, mode)) {
        Ok(o) => emit(
            sh,
            json!({"ev":"ret","f":"tfm_to_pl","out":o.kind,"junk":o.junk,"nwarn":o.nwarn,"pl_len":o.pl_len,"us":t.elapsed().as_micros() as u64}),
            false,
        ),
        Err((file, line, msg)) => emit(sh, json!({"ev":"panic","f":"tfm_to_pl","msg":msg,"file":file,"line":line,"src":src}), false),
    }
}

fn traced_pl_job(sh: &Shared, text: &str, mode: u8) {
    emit(sh, json!({"ev":"call","f":"pl_to_tfm","n":text.len()}), true);
    let t = std::time::Instant::now();
    match catch(|| run_pl_to_tfm(text)) {
        Ok((bytes, nwarn)) => {
            emit(sh, json!({"ev":"ret","f":"pl_to_tfm","len":bytes.len(),"hdr":hdr_of(&bytes),"nwarn":nwarn,"us":t.elapsed().as_micros() as u64}), false);
            traced_tfm_to_pl(sh, &bytes, "output", mode);
        }
        Err((file, line, msg)) => emit(sh, json!({"ev":"panic","f":"pl_to_tfm","msg":msg,"file":file,"line":line}), false),
    }
}

/// Run one given input (kind=tfm|pl file=PATH) through the converters, as one recorded run.
fn one_file(args: &Args) -> i32 {
    install_hook();
    let kind = args.req("kind").to_string();
    let path = args.req("file").to_string();
    let mode: u8 = args.num("mode", 0);
    let sh = Arc::new(Shared {
        out: Mutex::new(Out::new(args.str("out"))),
        started_ms: AtomicU64::new(0),
        job: AtomicU64::new(0),
    });
    let sh2 = sh.clone();
    let worker = std::thread::Builder::new()
        .stack_size(8 << 20)
        .spawn(move || {
            let sh = sh2;
            emit(&sh, json!({"ev":"reset","job":0,"kind":kind,"src":path,"class":"file","param":"0"}), false);
            if kind == "tfm" {
                let bytes = std::fs::read(&path).expect("read input");
                traced_tfm_to_pl(&sh, &bytes, "input", mode);
            } else {
                let text = std::fs::read_to_string(&path).expect("read input");
                traced_pl_job(&sh, &text, mode);
            }
        })
        .unwrap();
    let ok = worker.join().is_ok();
    sh.out.lock().unwrap().flush();
    if ok {
        0
    } else {
        4
    }
}

fn pipe(args: &Args) -> i32 {
    install_hook();
    let corpus = load_corpus(args.req("corpus"));
    let seed: u64 = args.num("seed", 1);
    let thorough = args.str("tier") == Some("thorough");
    let scale: f64 = args.num("scale", 1.0);
    let shard: usize = args.num("shard", 0);
    let nshards: usize = args.num("nshards", 1);
    let from: usize = args.num("from", 0);
    let only: i64 = args.num("only", -1);
    let timeout_ms: u64 = args.num("timeout_ms", 300_000);
    let dump = args.str("dump").map(|s| s.to_string());
    let jobs = plan(&corpus, thorough, seed, scale);
    if args.str("count").is_some() {
        println!("{}", jobs.len());
        return 0;
    }
    let sh = Arc::new(Shared {
        out: Mutex::new(Out::new(args.str("out"))),
        started_ms: AtomicU64::new(0),
        job: AtomicU64::new(0),
    });
    // watchdog: a call that does not return within the time limit is reported and ends the process
    {
        let sh = sh.clone();
        std::thread::spawn(move || loop {
            std::thread::sleep(std::time::Duration::from_millis(100));
            let st = sh.started_ms.load(Ordering::SeqCst);
            if st != 0 && now_ms().saturating_sub(st) > timeout_ms {
                let j = sh.job.load(Ordering::SeqCst);
                if let Ok(mut o) = sh.out.lock() {
                    o.line(&json!({"ev":"hang","job":j,"ms":timeout_ms}));
                    o.flush();
                }
                std::process::exit(3);
            }
        });
    }
    let sh2 = sh.clone();
    // the tools run the converters on the main thread: 8 MiB of stack
    let worker = std::thread::Builder::new()
        .stack_size(8 << 20)
        .spawn(move || {
            let sh = sh2;
            for (j, job) in jobs.iter().enumerate() {
                if only >= 0 {
                    if j as i64 != only {
                        continue;
                    }
                } else if j < from || j % nshards != shard {
                    continue;
                }
                let mode = (j % 3) as u8;
                sh.job.store(j as u64, Ordering::SeqCst);
                match job {
                    JobKind::Tfm(i, class, param) => {
                        let (name, src) = &corpus.tfms[*i];
                        let bytes = mutate_tfm(src, class, *param);
                        if let Some(d) = &dump {
                            std::fs::write(d, &bytes).unwrap();
                        }
                        emit(&sh, json!({"ev":"reset","job":j,"kind":"tfm","src":name,"class":class,"param":param.to_string()}), false);
                        sh.started_ms.store(now_ms(), Ordering::SeqCst);
                        traced_tfm_to_pl(&sh, &bytes, "input", mode);
                        sh.started_ms.store(0, Ordering::SeqCst);
                    }
                    JobKind::Pl(i, class, param) => {
                        let (name, src) = &corpus.pls[*i];
                        let text = mutate_pl(src, class, *param, thorough);
                        if let Some(d) = &dump {
                            std::fs::write(d, &text).unwrap();
                        }
                        emit(&sh, json!({"ev":"reset","job":j,"kind":"pl","src":name,"class":class,"param":param.to_string()}), false);
                        sh.started_ms.store(now_ms(), Ordering::SeqCst);
                        traced_pl_job(&sh, &text, mode);
                        sh.started_ms.store(0, Ordering::SeqCst);
                    }
                    JobKind::Synth(param) => {
                        let text = synth_pl(*param, thorough);
                        if let Some(d) = &dump {
                            std::fs::write(d, &text).unwrap();
                        }
                        emit(&sh, json!({"ev":"reset","job":j,"kind":"pl","src":"synth","class":"synth","param":param.to_string()}), false);
                        sh.started_ms.store(now_ms(), Ordering::SeqCst);
                        traced_pl_job(&sh, &text, mode);
                        sh.started_ms.store(0, Ordering::SeqCst);
                    }
                }
            }
        })
        .unwrap();
    let ok = worker.join().is_ok();
    sh.out.lock().unwrap().flush();
    if ok {
        0
    } else {
        4
    }
}
