#!/usr/bin/env python3
"""mutate.py <PROP> <n> <seed> [file-filter]: sample n small syntactic mutants in the files the property is
anchored in, apply each to /work/mu/repo, run ./check PROP quick from /work/mu/verif (VERIF_SEED=1).
Mutants the check misses are then run against the crate's own tests; those that pass are SURVIVORS
(equivalent, outside the property, or a gap of the check) and are written to /work/mu/survivors/."""
import json, re, random, subprocess, sys, os, time
R = "/work/mu/repo"; V = "/work/mu/verif"
prop, n, seed = sys.argv[1], int(sys.argv[2]), int(sys.argv[3])
flt = sys.argv[4] if len(sys.argv) > 4 else ""
P = [json.loads(l) for l in open("/verif/properties.jsonl")]
files = [f for p in P if p["id"] == prop for f in p["anchors"]["files"]]
files = [f for f in files if f.endswith(".rs") and flt in f and os.path.exists(f"{R}/{f}")]

OPS = [
    (r"<=", ["<"]), (r">=", [">"]), (r"(?<![<>=!\-])<(?![<=])", ["<="]), (r"(?<![<>=\-])>(?![>=])", [">="]),
    (r"==", ["!="]), (r"!=", ["=="]), (r"&&", ["||"]), (r"\|\|", ["&&"]),
    (r"\+ 1\b", ["+ 0", "+ 2"]), (r"- 1\b", ["- 0", "- 2"]), (r" \+ ", [" - "]), (r" - ", [" + "]),
    (r"\btrue\b", ["false"]), (r"\bfalse\b", ["true"]), (r"\bcontinue\b", ["break"]), (r"\bbreak\b", ["continue"]),
    (r"\b(\d+)\b", ["N+1", "N-1"]), (r"\.checked_add\(", [".checked_sub("]), (r"\.checked_sub\(", [".checked_add("]),
    (r"\.min\(", [".max("]), (r"\.max\(", [".min("]), (r"\bSome\(", ["None.or(Some("]),
    (r"\.is_some\(\)", [".is_none()"]), (r"\.is_none\(\)", [".is_some()"]), (r"\.is_empty\(\)", [".len() == 1"]),
    (r"!(?=[a-z_\(])", [""]), (r"\+= ", ["-= "]), (r"-= ", ["+= "]), (r" \* ", [" / "]), (r" / ", [" * "]),
    (r" % ", [" / "]), (r">> ", ["<< "]), (r"<< ", [">> "]),
]

def sites(path):
    src = open(f"{R}/{path}").read().split("\n")
    out = []
    in_test = False
    for i, line in enumerate(src):
        if re.match(r"\s*#\[cfg\(test\)\]", line) or re.match(r"\s*mod tests?\b", line):
            in_test = True
        if in_test:
            break
        s = line.strip()
        if not s or s.startswith("//") or s.startswith("#[") or s.startswith("use ") or "assert" in s or "panic!" in s \
           or "unreachable!" in s or "debug_" in s or s.startswith("///"):
            continue
        code = line.split("//")[0] if '"' not in line else line
        for pat, reps in OPS:
            for m in re.finditer(pat, code):
                # skip matches inside string literals (rough)
                if code[:m.start()].count('"') % 2 == 1:
                    continue
                if pat.startswith(r"(?<![<>=!\-])<") or pat.startswith(r"(?<![<>=\-])>"):
                    # generics / arrows: require spaces around a comparison
                    if not (m.start() > 0 and code[m.start() - 1] == " " and m.end() < len(code) and code[m.end()] == " "):
                        continue
                for rep in reps:
                    if rep in ("N+1", "N-1"):
                        v = int(m.group(1)); r = str(v + 1) if rep == "N+1" else str(v - 1)
                        if v == 0 and rep == "N-1":
                            continue
                        if m.end() < len(code) and code[m.end():m.end()+1] in ("u", "i", "_", "."):
                            pass
                        if m.start() > 0 and (code[m.start()-1].isalnum() or code[m.start()-1] in "_."):
                            continue
                    elif rep == "None.or(Some(":
                        continue
                    else:
                        r = rep
                    out.append((path, i, m.start(), m.end(), r))
    return out

all_sites = [s for f in files for s in sites(f)]
rng = random.Random(seed)
rng.shuffle(all_sites)
print(f"{prop}: {len(all_sites)} sites in {len(files)} files; sampling {n}", flush=True)

def sh(cmd, cwd, timeout=1800, env=None):
    e = dict(os.environ); e["VERIF_SEED"] = "1"
    if env: e.update(env)
    try:
        p = subprocess.run(cmd, cwd=cwd, capture_output=True, text=True, timeout=timeout, env=e)
        return p.returncode, p.stdout + p.stderr
    except subprocess.TimeoutExpired:
        return 124, "timeout"

os.makedirs("/work/mu/survivors", exist_ok=True)
done = 0
for (path, li, a, b, r) in all_sites:
    if done >= n:
        break
    sh(["git", "checkout", "-q", "--", "."], R)
    full = f"{R}/{path}"
    src = open(full).read().split("\n")
    old = src[li]
    src[li] = old[:a] + r + old[b:]
    open(full, "w").write("\n".join(src))
    crate = path.split("/")[1]
    rc, out = sh(["cargo", "check", "--offline", "-q", "-j6", "-p", crate], R, 600)
    if rc != 0:
        continue
    done += 1
    t = time.time()
    rc, out = sh(["./check", prop, "quick"], V, 1500)
    nv = len(re.findall(r"^VIOLATION", out, re.M))
    rec = {"prop": prop, "file": path, "line": li + 1, "old": old.strip(), "new": src[li].strip(), "check_rc": rc, "violations": nv,
           "wall": round(time.time() - t)}
    if rc == 0:
        crates = [crate] + (["texlang-stdlib"] if crate == "texlang" else []) + (["boxworks-text", "boxworks-knuthplass"] if crate == "boxworks" else [])
        args = ["cargo", "test", "--offline", "-q", "-j6"] + sum([["-p", c] for c in crates], [])
        trc, tout = sh(args, R, 1500)
        rec["tests_rc"] = trc
        if trc == 0:
            rec["SURVIVOR"] = True
            d = subprocess.run(["git", "diff"], cwd=R, capture_output=True, text=True).stdout
            open(f"/work/mu/survivors/{prop}-{os.path.basename(path)}-{li+1}-{a}.diff", "w").write(d)
    elif rc != 1:
        first = re.search(r"TOOL-ERROR.*|error.*", out)
        rec["tool"] = first.group(0)[:200] if first else out[-200:]
    print(json.dumps(rec), flush=True)
    open("/work/mu/results.ndjson", "a").write(json.dumps(rec) + "\n")
sh(["git", "checkout", "-q", "--", "."], R)
print("DONE", prop, flush=True)
