#!/bin/sh
# usage: tools/try_mutant.sh <patch.diff> <CHECK_ID> [tier]
# Applies a seeded change to /repo, runs one check, always restores /repo.  Prints the verdict.
set -u
patch="$1"; id="$2"; tier="${3:-quick}"
cd /verif
if ! git -C /repo diff --quiet; then echo "/repo is dirty"; exit 2; fi
git -C /repo apply "$patch" || { echo "patch does not apply"; exit 2; }
./check "$id" "$tier" > "/tmp/p1/mut-$id.out" 2>&1
rc=$?
git -C /repo checkout -- .
echo "check $id $tier rc=$rc violations=$(grep -c '^VIOLATION' /tmp/p1/mut-$id.out)"
grep -m2 -A1 '^VIOLATION' "/tmp/p1/mut-$id.out" | cut -c1-400
tail -1 "/tmp/p1/mut-$id.out" | cut -c1-300
exit 0
