#!/usr/bin/env python3
"""Collect confirmed seeded changes into /verif/seeded/<name>/ (patch.diff, demo files, meta.json) and write
seeded/README.md with the table of which checks catch which change.  Sources: the sub-agents' scratch worktrees
(/tmp/mut/<id>/mutants/{A,B}), my confirmations (/work/mt/confirm.ndjson) and trial runs (/work/mt/results.ndjson)."""
import json, os, shutil, glob, subprocess
V = "/verif/seeded"
conf = {}
if os.path.exists("/work/mt/confirm.ndjson"):
    for l in open("/work/mt/confirm.ndjson"):
        d = json.loads(l); conf[(os.path.basename(d["worktree"]), d["mutant"])] = d
trials = {}
if os.path.exists("/work/mt/results.ndjson"):
    for l in open("/work/mt/results.ndjson"):
        d = json.loads(l); trials.setdefault(d["mutant"], []).append(d)   # later runs = strengthened checks
rows = []
for wt in sorted(glob.glob("/tmp/mut/c*")):
    if not os.path.isdir(wt): continue
    pid = os.path.basename(wt)
    for m in "AB":
        src = f"{wt}/mutants/{m}"
        if not os.path.exists(f"{src}/patch.diff"): continue
        c = conf.get((pid, m))
        if not c or not c.get("confirmed"): continue
        name = f"{pid}-{m}"
        dst = f"{V}/{name}"; os.makedirs(dst, exist_ok=True)
        for f in os.listdir(src):
            if os.path.isfile(f"{src}/{f}"): shutil.copy(f"{src}/{f}", f"{dst}/{f}")
        reb = f"/work/mt/rebased/{name}.diff"
        if os.path.exists(reb): shutil.copy(reb, f"{dst}/patch.rebased_on_final_head.diff")
        try: meta = json.load(open(f"{src}/meta.json"))
        except Exception: meta = {}
        meta["breaks_property"] = pid.upper().split("R")[0]
        meta["confirmed_by_me"] = {"demo_cmd": c["demo_cmd"], "demo_dest": c["demo_dest"],
                                   "demo_on_unchanged_tree": c["demo_on_head"], "demo_with_change": c["demo_with_change"],
                                   "existing_tests_with_change": c["existing_tests_with_change"]}
        runs = trials.get(name, [])
        meta["check_runs"] = [{"results": r["results"]} for r in runs]
        json.dump(meta, open(f"{dst}/meta.json", "w"), indent=1)
        rows.append(name)
stored_now = len(rows)
# the table is rebuilt from everything stored (scratch worktrees are removed once a change is stored)
rows = []
for mp in sorted(glob.glob(f"{V}/*/meta.json")):
    name = os.path.basename(os.path.dirname(mp))
    meta = json.load(open(mp))
    runs = meta.get("check_runs", [])
    first = runs[0]["results"] if runs else {}
    last = {}
    for r in runs: last.update(r["results"])
    rows.append((name, meta.get("what", "")[:160].replace("\n", " ").replace("|", "/"), first, last))
with open(f"{V}/README.md", "w") as f:
    f.write("# Seeded changes\n\nEach directory holds a change written by an independent sub-agent that saw only the property text and a\n"
            "scratch worktree of texcraft (nothing from /verif), confirmed by me: it compiles, the existing tests of the touched\n"
            "crates pass with it, and its demonstration fails with it and passes without it (see meta.json).\n"
            "`first run` = verdict of the checks as they were when the change arrived; `now` = after strengthening.\n\n"
            "| change | what | first run (check: violations) | now |\n|---|---|---|---|\n")
    for name, what, first, last in rows:
        fr = ", ".join(f"{k}: {'CAUGHT' if v['rc']==1 else 'missed' if v['rc']==0 else 'tool error'} ({v['violations']})" for k, v in first.items())
        la = ", ".join(f"{k}: {'CAUGHT' if v['rc']==1 else 'missed' if v['rc']==0 else 'tool error'}" for k, v in last.items())
        f.write(f"| {name} | {what} | {fr} | {la} |\n")
print(stored_now, "stored from scratch worktrees;", len(rows), "seeded changes in the table")
